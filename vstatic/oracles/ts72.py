"""Reference first-order systems of the viscoelastic-gravitational problem (our transcription, independent of /repo).

Solid layers (Takeuchi & Saito 1972 eq. 82; Kamata, Matsuyama & Nimmo 2015 eqs. 4-9), with T = 2 y1 - l(l+1) y3:
  y1' = [y2 - (lam/r) T] / (lam + 2 mu)
  y2' = -w^2 rho y1 + (2/r)(lam y1' - y2) + (1/r)(2(lam+mu)/r - rho g) T + l(l+1) y4 / r - rho (y6 - (l+1) y5 / r + 2 g y1 / r)
  y3' = y4/mu + (y3 - y1)/r
  y4' = -w^2 rho y3 - (lam/r) y1' - ((lam+2mu)/r^2) T + (2 mu / r^2)(y1 - y3) - 3 y4 / r - (rho/r)(y5 - g y1)
  y5' = y6 + 4 pi G rho y1 - (l+1) y5 / r
  y6' = ((l-1)/r)(y6 + 4 pi G rho y1) + (4 pi G rho / r) T
Liquid dynamic layers (mu -> 0; KMN15 eqs. 10-14): y4 = 0 and y3 = (rho g y1 - y2 - rho y5)/(w^2 rho r); unknowns (y1, y2, y5, y6).
Liquid static layers (Saito 1974 eq. 18): unknowns (y5, y7):
  y5' = (4 pi G rho / g - (l+1)/r) y5 + y7
  y7' = (2 (l-1)/r)(4 pi G rho / g) y5 + ((l-1)/r - 4 pi G rho / g) y7
Incompressible variants are the limits lam -> infinity (K -> infinity), static variants w -> 0.
"""
from __future__ import annotations
from fractions import Fraction as F
from ..core import expr as X


def solid_rhs(y, P, static=False, incompressible=False):
    """y: list of 6 nodes; P: dict of parameter nodes r, rho, g, mu, K, w, l, fpG (4 pi G)"""
    r, rho, g, mu, K, w, l, fpG = (P[k] for k in ('r', 'rho', 'g', 'mu', 'K', 'w', 'l', 'fpG'))
    y1, y2, y3, y4, y5, y6 = y
    ll1 = l * (l + 1)
    T = 2 * y1 - ll1 * y3
    w2 = X.ZERO if static else w * w
    if incompressible:
        dy1 = -T / r
        # lam*(y1' + T/r) = y2 - 2 mu y1'  (the pressure-like product stays finite)
        lam_dy1_plus = y2 - 2 * mu * dy1            # = lam (y1' + T/r)
        dy2 = -w2 * rho * y1 + (2 / r) * (lam_dy1_plus - y2) + (1 / r) * (2 * mu / r - rho * g) * T + ll1 * y4 / r - rho * (y6 - (l + 1) * y5 / r + 2 * g * y1 / r)
        dy4 = -w2 * rho * y3 - (1 / r) * lam_dy1_plus - (2 * mu / (r * r)) * T + (2 * mu / (r * r)) * (y1 - y3) - 3 * y4 / r - (rho / r) * (y5 - g * y1)
    else:
        lam = K - X.const(F(2, 3)) * mu
        dy1 = (y2 - lam / r * T) / (lam + 2 * mu)
        dy2 = -w2 * rho * y1 + (2 / r) * (lam * dy1 - y2) + (1 / r) * (2 * (lam + mu) / r - rho * g) * T + ll1 * y4 / r - rho * (y6 - (l + 1) * y5 / r + 2 * g * y1 / r)
        dy4 = -w2 * rho * y3 - (lam / r) * dy1 - ((lam + 2 * mu) / (r * r)) * T + (2 * mu / (r * r)) * (y1 - y3) - 3 * y4 / r - (rho / r) * (y5 - g * y1)
    dy3 = y4 / mu + (y3 - y1) / r
    dy5 = y6 + fpG * rho * y1 - (l + 1) * y5 / r
    dy6 = ((l - 1) / r) * (y6 + fpG * rho * y1) + (fpG * rho / r) * T
    return [dy1, dy2, dy3, dy4, dy5, dy6]


def liquid_dynamic_y3(y1, y2, y5, P):
    r, rho, g, w = (P[k] for k in ('r', 'rho', 'g', 'w'))
    return (rho * g * y1 - y2 - rho * y5) / (w * w * rho * r)


def liquid_dynamic_rhs(y, P, incompressible=False):
    """y = (y1, y2, y5, y6)"""
    r, rho, g, K, w, l, fpG = (P[k] for k in ('r', 'rho', 'g', 'K', 'w', 'l', 'fpG'))
    y1, y2, y5, y6 = y
    y3 = liquid_dynamic_y3(y1, y2, y5, P)
    T = 2 * y1 - l * (l + 1) * y3
    dy1 = -T / r if incompressible else y2 / K - T / r
    dy2 = -w * w * rho * y1 - rho * g * T / r - rho * y6 + rho * (l + 1) * y5 / r - 2 * rho * g * y1 / r
    dy5 = y6 + fpG * rho * y1 - (l + 1) * y5 / r
    dy6 = ((l - 1) / r) * (y6 + fpG * rho * y1) + (fpG * rho / r) * T
    return [dy1, dy2, dy5, dy6]


def liquid_static_rhs(y, P):
    """y = (y5, y7)"""
    r, rho, g, l, fpG = (P[k] for k in ('r', 'rho', 'g', 'l', 'fpG'))
    y5, y7 = y
    c = fpG * rho / g
    return [(c - (l + 1) / r) * y5 + y7, (2 * (l - 1) / r) * c * y5 + ((l - 1) / r - c) * y7]


# canonical slot layout: which y lives in which slot, per layer kind
LAYOUT = {
    ('solid', False): ('y1', 'y2', 'y3', 'y4', 'y5', 'y6'), ('solid', True): ('y1', 'y2', 'y3', 'y4', 'y5', 'y6'),
    ('liquid', False): ('y1', 'y2', 'y5', 'y6'), ('liquid', True): ('y5', 'y7'),
}
NUM_SOLS = {('solid', False): 3, ('solid', True): 3, ('liquid', False): 2, ('liquid', True): 1}


def reference_rhs(kind, static, incompressible, y, P):
    if kind == 'solid':
        return solid_rhs(y, P, static=static, incompressible=incompressible)
    if static:
        return liquid_static_rhs(y, P)
    return liquid_dynamic_rhs(y, P, incompressible=incompressible)
