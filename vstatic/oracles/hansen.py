"""Exact Hansen coefficients X_k^{n,m}(e) as rational power series in e, two independent derivations.

Definition:  (r/a)^n exp(i m f) = sum_k X_k^{n,m}(e) exp(i k M).
Kaula's eccentricity function G_lpq(e) = X_{l-2p+q}^{-(l+1), l-2p}(e).

Method A (contour, beta-factorised):  with w = exp(iE), beta = e/(1+sqrt(1-e^2)),
    X = (1+beta^2)^{-(n+1)} [w^{k-m}] (1-beta w)^{n+1-m} (1-beta/w)^{n+1+m} exp( (k e/2)(w - 1/w) ).
Method B (direct, no beta):  X = [w^0] (1 - e cosE)^{n+1-m} (cosE - e + i eta sinE)^m  exp(-ik(E - e sinE)),
    eta = sqrt(1-e^2) as a series, negative powers of (1 - e cosE) by the binomial series in e.
    (valid for m >= 0; for m < 0 use X_k^{n,m} = X_{-k}^{n,-m}).
"""
from __future__ import annotations
from fractions import Fraction as F
from math import comb, factorial
import json, os

NSER = 26


def binom_gen(a, k):
    """generalised binomial coefficient C(a, k), integer a of either sign"""
    r = F(1)
    for t in range(k):
        r *= F(a - t)
    return r / factorial(k)


def sc_mul(a, b, N):
    out = [F(0)] * (N + 1)
    for i, ai in enumerate(a):
        if ai == 0: continue
        for j, bj in enumerate(b):
            if i + j > N: break
            if bj != 0:
                out[i + j] += ai * bj
    return out


def beta_series(N):
    c = [F(0)] * (N + 1)
    j = 0
    while 2 * j + 1 <= N:
        c[2 * j + 1] = F(comb(2 * j, j), j + 1) / F(2) ** (2 * j + 1)
        j += 1
    return c


def sc_pow1p(u, a, N):
    """(1 + u)^a, u scalar series with zero constant term, integer a of either sign"""
    out = [F(0)] * (N + 1); out[0] = F(1)
    term = [F(0)] * (N + 1); term[0] = F(1)
    for k in range(1, N + 1):
        term = sc_mul(term, u, N)
        b = binom_gen(a, k)
        if b == 0: break
        for i in range(N + 1):
            if term[i]: out[i] += b * term[i]
    return out


_beta_pows = {}


def beta_pow(j, N):
    key = (j, N)
    if key not in _beta_pows:
        if j == 0:
            r = [F(0)] * (N + 1); r[0] = F(1)
        else:
            r = sc_mul(beta_pow(j - 1, N), beta_series(N), N)
        _beta_pows[key] = r
    return _beta_pows[key]


_AB = {}


def _ab(n, m, N):
    """coefficients of (1-beta w)^{n+1-m} (1-beta/w)^{n+1+m} as list over e-order of dict{wpow: F}"""
    key = (n, m, N)
    if key in _AB: return _AB[key]
    a1 = n + 1 - m; a2 = n + 1 + m
    out = [dict() for _ in range(N + 1)]
    for s in range(N + 1):
        c1 = binom_gen(a1, s) * (-1) ** s
        if c1 == 0: continue
        for t in range(N + 1 - s):
            c2 = binom_gen(a2, t) * (-1) ** t
            if c2 == 0: continue
            bp = beta_pow(s + t, N)
            zp = s - t
            c = c1 * c2
            for i in range(s + t, N + 1):
                if bp[i]:
                    out[i][zp] = out[i].get(zp, 0) + c * bp[i]
    _AB[key] = out
    return out


_pref = {}


def hansen_A(n, m, k, N=NSER):
    if (n, N) not in _pref:
        b2 = sc_mul(beta_series(N), beta_series(N), N)
        _pref[(n, N)] = sc_pow1p(b2, -(n + 1), N)
    pref = _pref[(n, N)]
    ab = _ab(n, m, N)
    coef = [F(0)] * (N + 1)
    target = k - m
    # E_k[j] = (k/2)^j / j! * sum_t C(j,t) (-1)^t w^{j-2t}
    for j in range(N + 1):
        cj = F(k, 2) ** j / factorial(j)
        if cj == 0 and j > 0: break
        for t in range(j + 1):
            wp = j - 2 * t
            need = target - wp
            ce = cj * comb(j, t) * (-1) ** t
            for i in range(N + 1 - j):
                v = ab[i].get(need)
                if v:
                    coef[i + j] += ce * v
    return sc_mul(pref, coef, N)


# ---------------------------------------------------------------- method B (independent)
def ps_mul(a, b, N):
    out = [dict() for _ in range(N + 1)]
    for i, ai in enumerate(a):
        if not ai: continue
        for j, bj in enumerate(b):
            if i + j > N: break
            if not bj: continue
            o = out[i + j]
            for za, ca in ai.items():
                for zb, cb in bj.items():
                    o[za + zb] = o.get(za + zb, 0) + ca * cb
    return [{k: v for k, v in d.items() if v != 0} for d in out]


def ps_pow(a, n, N):
    r = [dict() for _ in range(N + 1)]; r[0] = {0: F(1)}
    for _ in range(n):
        r = ps_mul(r, a, N)
    return r


def hansen_B(n, m, k, N=NSER):
    """coefficients are complex in general: represent i via pairs? all X are real; (i eta sinE) = eta (w - 1/w)/2 keeps reals."""
    if m < 0:
        return hansen_B(n, -m, -k, N)
    # u = e cosE = e (w + 1/w)/2 : order-1 term
    u = [dict() for _ in range(N + 1)]; u[1] = {1: F(1, 2), -1: F(1, 2)}
    # (1 - u)^a with a = n + 1 - m (any sign)
    a = n + 1 - m
    P1 = [dict() for _ in range(N + 1)]; P1[0] = {0: F(1)}
    term = [dict() for _ in range(N + 1)]; term[0] = {0: F(1)}
    for s in range(1, N + 1):
        term = ps_mul(term, u, N)
        b = binom_gen(a, s) * (-1) ** s
        if b == 0: break
        for i in range(N + 1):
            for zp, c in term[i].items():
                P1[i][zp] = P1[i].get(zp, 0) + b * c
    # eta = sqrt(1 - e^2) series
    eta = [F(0)] * (N + 1)
    j = 0
    while 2 * j <= N:
        eta[2 * j] = binom_half(j) * (-1) ** j
        j += 1
    # g = cosE - e + i eta sinE = (w + 1/w)/2 - e + eta (w - 1/w)/2
    g = [dict() for _ in range(N + 1)]
    g[0] = {1: F(1, 2), -1: F(1, 2)}
    g[1] = {0: F(-1)}
    for i in range(N + 1):
        if eta[i]:
            g[i][1] = g[i].get(1, 0) + eta[i] / 2
            g[i][-1] = g[i].get(-1, 0) - eta[i] / 2
    g = [{zk: v for zk, v in d.items() if v != 0} for d in g]
    P2 = ps_pow(g, m, N)
    # exp(-ikE) exp(i k e sinE) = w^{-k} exp( (k e/2)(w - 1/w) )
    Ek = [dict() for _ in range(N + 1)]
    for j in range(N + 1):
        cj = F(k, 2) ** j / factorial(j)
        d = {}
        for t in range(j + 1):
            d[j - 2 * t - k] = d.get(j - 2 * t - k, 0) + cj * comb(j, t) * (-1) ** t
        Ek[j] = {zk: v for zk, v in d.items() if v != 0}
    prod = ps_mul(ps_mul(P1, P2, N), Ek, N)
    return [p.get(0, F(0)) for p in prod]


def binom_half(j):
    r = F(1)
    for t in range(j):
        r *= (F(1, 2) - t)
    return r / factorial(j)


# ---------------------------------------------------------------- G^2 tables
def G2(l, p, q, N=NSER, method='A'):
    h = (hansen_A if method == 'A' else hansen_B)(-(l + 1), l - 2 * p, l - 2 * p + q, N)
    return sc_mul(h, h, N)


DATA = os.path.join(os.path.dirname(os.path.dirname(os.path.dirname(os.path.abspath(__file__)))), 'data', 'hansen_G2_exact.json')
QRANGE = 16


def _job(args):
    l, p, q, method = args
    return (l, p, q, [str(c) for c in G2(l, p, q, NSER, method)])


def compute_table(method='A', jobs=16, ls=range(2, 8)):
    from multiprocessing import Pool
    work = [(l, p, q, method) for l in ls for p in range(l + 1) for q in range(-QRANGE, QRANGE + 1)]
    with Pool(jobs) as pool:
        res = pool.map(_job, work, chunksize=4)
    return {f'{l},{p},{q}': c for l, p, q, c in res}


def load_table():
    with open(DATA) as f:
        d = json.load(f)
    return {tuple(int(x) for x in k.split(',')): [F(c) for c in v] for k, v in d['G2'].items()}


# literature spot values (Kaula 1966, Table 3.. G_lpq through e^4 / closed forms) used to self-check the oracle
def literature_selfcheck():
    N = 8
    def g(l, p, q): return hansen_A(-(l + 1), l - 2 * p, l - 2 * p + q, N)
    checks = [
        (g(2, 0, 0)[:7], [F(1), 0, F(-5, 2), 0, F(13, 16), 0, F(-35, 288)]),
        (g(2, 0, 1)[:6], [0, F(7, 2), 0, F(-123, 16), 0, F(489, 128)]),
        (g(2, 0, -1)[:6], [0, F(-1, 2), 0, F(1, 16), 0, F(-5, 384)]),
        (g(2, 1, 1)[:4], [0, F(3, 2), 0, F(27, 16)]),
        (g(2, 1, 0)[:5], [F(1), 0, F(3, 2), 0, F(15, 8)]),      # (1-e^2)^(-3/2)
        (g(2, 0, 2)[:5], [0, 0, F(17, 2), 0, F(-115, 6)]),
        (g(2, 0, -2)[:5], [0, 0, 0, 0, 0]),
    ]
    return all(list(a) == list(b) for a, b in checks)


if __name__ == '__main__':
    import sys, time
    t = time.time()
    assert literature_selfcheck(), 'oracle disagrees with literature values'
    print('literature ok', time.time() - t)
    tab = compute_table('A')
    print('table A', len(tab), time.time() - t)
    os.makedirs(os.path.dirname(DATA), exist_ok=True)
    with open(DATA, 'w') as f:
        json.dump({'NSER': NSER, 'QRANGE': QRANGE, 'method': 'A', 'G2': tab}, f)
    print('written', DATA)
