"""Kaula (1966) inclination functions F_lmp(I), eq. 3.62, as exact trigonometric polynomials (Laurent polynomials in exp(iI)).

F_lmp(I) = sum_t (2l-2t)! / (t! (l-t)! (l-m-2t)! 2^(2l-2t)) sin^(l-m-2t) I
           * sum_s C(m,s) cos^s I * sum_c C(l-m-2t+s, c) C(m-s, p-t-c) (-1)^(c-k),     k = floor((l-m)/2)
"""
from __future__ import annotations
from fractions import Fraction as F
from math import comb, factorial
from ..core import trigpoly as T
from ..core import expr as X

_I = X.atom('I', 'real')
SIN = T.to_trig(X.fn('sin', _I))
COS = T.to_trig(X.fn('cos', _I))


def kaula_F(l, m, p):
    k = (l - m) // 2
    total = {}
    for t in range(0, min(p, k) + 1):
        pref = F(factorial(2 * l - 2 * t), factorial(t) * factorial(l - t) * factorial(l - m - 2 * t) * 2 ** (2 * l - 2 * t))
        inner = {}
        for s in range(0, m + 1):
            cc_sum = 0
            for c in range(0, l - m - 2 * t + s + 1):
                b2n = m - s; b2k = p - t - c
                if b2k < 0 or b2k > b2n: continue
                cc_sum += comb(l - m - 2 * t + s, c) * comb(b2n, b2k) * (-1) ** (c - k)
            if cc_sum:
                inner = T.t_add(inner, T.t_scale(T.t_pow(COS, s), (F(comb(m, s) * cc_sum), F(0))))
        total = T.t_add(total, T.t_scale(T.t_mul(T.t_pow(SIN, l - m - 2 * t), inner), (pref, F(0))))
    return total


def kaula_F2(l, m, p):
    f = kaula_F(l, m, p)
    return T.t_mul(f, f)


def at_zero(poly):
    """value of a trig polynomial at I = 0 (all exponentials are 1)"""
    re = sum(c[0] for c in poly.values()); im = sum(c[1] for c in poly.values())
    return re, im


def selfcheck():
    """literature values: F_201 = 3/4 sin^2 I - 1/2, F_220 = 3 (1+cos I)^2 / 4 ... (Kaula 1966 Table 1)"""
    one = {(): (F(1), F(0))}
    f201 = T.t_add(T.t_scale(T.t_pow(SIN, 2), (F(3, 4), F(0))), T.t_scale(one, (F(-1, 2), F(0))))
    f220 = T.t_scale(T.t_pow(T.t_add(one, COS), 2), (F(3, 4), F(0)))
    f210 = T.t_scale(T.t_mul(SIN, T.t_add(one, COS)), (F(3, 4), F(0)))
    f211 = T.t_scale(T.t_mul(SIN, COS), (F(-3, 2), F(0)))
    f200 = T.t_scale(T.t_pow(SIN, 2), (F(-3, 8), F(0)))
    return (kaula_F(2, 0, 1) == f201 and kaula_F(2, 2, 0) == f220 and kaula_F(2, 1, 0) == f210
            and kaula_F(2, 1, 1) == f211 and kaula_F(2, 0, 0) == f200)
