"""Structural lints shared by several properties: loop progress, input-mutation (alias/effect) analysis."""
from __future__ import annotations
import ast

PURE_CALLS = {'len', 'abs', 'str', 'int', 'float', 'isinstance', 'type', 'min', 'max', 'tuple', 'list', 'round', 'repr', 'format', 'join', 'split', 'lower', 'upper', 'strip', 'replace',
              'startswith', 'endswith'}
IMPURE_SOURCES = {'pop', 'popleft', 'readline', 'read', 'next', 'input', 'get_nowait', 'recv', '__next__', 'time', 'random', 'rand'}


def names_in(e):
    return {n.id for n in ast.walk(e) if isinstance(n, ast.Name)}


def has_impure_call(e):
    for n in ast.walk(e):
        if isinstance(n, ast.Call):
            nm = n.func.attr if isinstance(n.func, ast.Attribute) else (n.func.id if isinstance(n.func, ast.Name) else '?')
            if nm not in PURE_CALLS:
                return True
    return False


def loop_progress(loop: ast.While):
    """Returns (ok, detail).  A loop makes progress when at least one exit test reads something the loop body changes.
    exit tests = the while condition + tests of `if` statements that guard a break / return / raise inside the loop."""
    exit_tests = []
    if not (isinstance(loop.test, ast.Constant) and loop.test.value):
        exit_tests.append(loop.test)

    def exits(body):
        for st in body:
            if isinstance(st, (ast.While, ast.For)):
                # a break inside an inner loop leaves only the inner loop; return/raise leave both
                for n in ast.walk(st):
                    if isinstance(n, ast.If) and any(isinstance(x, (ast.Return, ast.Raise)) for b in (n.body, n.orelse) for s in b for x in ast.walk(s)):
                        exit_tests.append(n.test)
                continue
            if isinstance(st, ast.If):
                def leaves(b): return any(isinstance(x, (ast.Break, ast.Return, ast.Raise)) for s in b for x in ast.walk(s) if not isinstance(s, (ast.While, ast.For)))
                if leaves(st.body) or leaves(st.orelse):
                    exit_tests.append(st.test)
                exits(st.body); exits(st.orelse)
            elif isinstance(st, (ast.With, ast.Try)):
                for b in (getattr(st, 'body', []), getattr(st, 'orelse', []), getattr(st, 'finalbody', [])):
                    exits(b)
                for h in getattr(st, 'handlers', []):
                    exits(h.body)
    exits(loop.body)
    if not exit_tests:
        return False, 'loop has no exit test at all'
    # loop-variant names
    variant = set()
    assigns = []
    for n in ast.walk(loop):
        if n is loop: continue
        if isinstance(n, ast.AugAssign):
            t = n.target
            while isinstance(t, (ast.Subscript, ast.Attribute)): t = t.value
            if isinstance(t, ast.Name): variant.add(t.id)
        elif isinstance(n, ast.Assign):
            for t in n.targets:
                for tt in ast.walk(t):
                    if isinstance(tt, ast.Name) and isinstance(tt.ctx, ast.Store):
                        assigns.append((tt.id, n.value))
                # stores through subscripts/attributes change the container
                base = t
                while isinstance(base, (ast.Subscript, ast.Attribute)): base = base.value
                if base is not t and isinstance(base, ast.Name): variant.add(base.id)
        elif isinstance(n, (ast.For,)):
            for tt in ast.walk(n.target):
                if isinstance(tt, ast.Name): variant.add(tt.id)
        elif isinstance(n, ast.Call) and isinstance(n.func, ast.Attribute) and n.func.attr in ('append', 'extend', 'pop', 'remove', 'add', 'update', 'clear', 'insert', 'setdefault'):
            b = n.func.value
            while isinstance(b, (ast.Subscript, ast.Attribute)): b = b.value
            if isinstance(b, ast.Name): variant.add(b.id)
    changed = True
    while changed:
        changed = False
        for name, val in assigns:
            if name in variant: continue
            if names_in(val) & variant or has_impure_call(val):
                variant.add(name); changed = True
    for t in exit_tests:
        if names_in(t) & variant or has_impure_call(t):
            return True, ''
    read = sorted(set().union(*[names_in(t) for t in exit_tests]))
    return False, (f'exit test(s) read only {read}, none of which changes inside the loop (loop-variant names: {sorted(variant)}): '
                   f'the loop exits on its first pass or never')


# ------------------------------------------------------------------------------------------ input mutation
MUTATORS = {'update', 'pop', 'popitem', 'clear', 'setdefault', 'append', 'extend', 'insert', 'remove', 'sort', 'reverse', '__setitem__', '__delitem__'}
COPIERS = {'deepcopy', 'copy'}


def root_name(e):
    while isinstance(e, (ast.Subscript, ast.Attribute)):
        e = e.value
    if isinstance(e, ast.Call) and isinstance(e.func, ast.Attribute) and e.func.attr in ('items', 'values', 'keys', 'get'):
        return root_name(e.func.value)
    return e.id if isinstance(e, ast.Name) else None


def mutation_effects(func: ast.FunctionDef, fresh_calls=None, mutating_callees=None):
    """Flow-insensitive alias analysis: which statements may mutate an object reachable from a parameter.
    fresh_calls: callable(ast.Call) -> True when the call returns a fresh deep copy (caller passes make_copy=True etc.)
    mutating_callees: callable(ast.Call) -> list of argument expressions the callee may mutate
    Returns list of (lineno, description)."""
    params = {a.arg for a in func.args.args + func.args.kwonlyargs if a.arg not in ('self', 'cls')}
    fresh_calls = fresh_calls or (lambda c: False)
    mutating_callees = mutating_callees or (lambda c: [])
    tainted = set(params)         # names that may alias (part of) an input
    fresh = set()

    def is_fresh_value(v):
        if isinstance(v, ast.Call):
            fn = v.func.attr if isinstance(v.func, ast.Attribute) else (v.func.id if isinstance(v.func, ast.Name) else '')
            if fn in COPIERS and not (fn == 'copy' and False):
                return fn == 'deepcopy'
            if fresh_calls(v): return True
            if fn in ('dict', 'list', 'tuple', 'set') and not v.args: return True
        if isinstance(v, (ast.Dict, ast.List, ast.Constant, ast.JoinedStr, ast.BinOp, ast.Compare)):
            return True
        return False

    def aliases_input(v):
        if is_fresh_value(v): return False
        r = root_name(v)
        if r in tainted: return True
        if isinstance(v, ast.Call):
            return False      # results of other calls are treated as fresh unless declared
        return False
    changed = True
    while changed:
        changed = False
        for n in ast.walk(func):
            if isinstance(n, ast.Assign):
                for t in n.targets:
                    if isinstance(t, ast.Name):
                        if aliases_input(n.value) and t.id not in tainted:
                            # re-binding a parameter name to a fresh copy is handled below
                            tainted.add(t.id); changed = True
                    elif isinstance(t, ast.Tuple):
                        if aliases_input(n.value):
                            for e in t.elts:
                                if isinstance(e, ast.Name) and e.id not in tainted:
                                    tainted.add(e.id); changed = True
            elif isinstance(n, ast.For):
                if aliases_input(n.iter):
                    for e in ast.walk(n.target):
                        if isinstance(e, ast.Name) and e.id not in tainted:
                            tainted.add(e.id); changed = True
    # a name that is ALWAYS (re)bound to a fresh value before any use loses its taint: handled conservatively per statement order
    rebound_fresh = {}
    for n in ast.walk(func):
        if isinstance(n, ast.Assign) and len(n.targets) == 1 and isinstance(n.targets[0], ast.Name) and is_fresh_value(n.value):
            rebound_fresh.setdefault(n.targets[0].id, []).append(n.lineno)
    out = []

    def is_input_alias_at(name, lineno):
        if name not in tainted: return False
        if name in params and name in rebound_fresh and min(rebound_fresh[name]) < lineno:
            # parameter re-bound to a fresh copy earlier in the function (on that path)
            return False
        return True
    for n in ast.walk(func):
        if isinstance(n, (ast.Assign, ast.AugAssign)):
            tg = n.targets if isinstance(n, ast.Assign) else [n.target]
            for t in tg:
                if isinstance(t, (ast.Subscript, ast.Attribute)):
                    r = root_name(t)
                    if r and is_input_alias_at(r, n.lineno):
                        out.append((n.lineno, f'store into {ast.unparse(t)[:50]} (aliases input via {r})'))
        elif isinstance(n, ast.Delete):
            for t in n.targets:
                r = root_name(t)
                if isinstance(t, (ast.Subscript, ast.Attribute)) and r and is_input_alias_at(r, n.lineno):
                    out.append((n.lineno, f'del {ast.unparse(t)[:50]} (aliases input via {r})'))
        elif isinstance(n, ast.Call):
            if isinstance(n.func, ast.Attribute) and n.func.attr in MUTATORS:
                r = root_name(n.func.value)
                if r and is_input_alias_at(r, n.lineno):
                    out.append((n.lineno, f'{ast.unparse(n.func)[:50]}() mutates (aliases input via {r})'))
            for a in mutating_callees(n):
                r = root_name(a)
                if r and is_input_alias_at(r, n.lineno) and not is_fresh_value(a):
                    out.append((n.lineno, f'{ast.unparse(n.func)[:40]}(...) may mutate its argument {ast.unparse(a)[:30]} (aliases input via {r})'))
    return out, sorted(tainted)


def prune_flags(func: ast.FunctionDef, consts: dict):
    """deep copy of func with `if <flag>` / `if not <flag>` resolved for the given boolean parameters"""
    import copy
    f2 = copy.deepcopy(func)

    class T(ast.NodeTransformer):
        def visit_If(self, node):
            self.generic_visit(node)
            t = node.test; val = None
            if isinstance(t, ast.Name) and t.id in consts: val = bool(consts[t.id])
            if isinstance(t, ast.UnaryOp) and isinstance(t.op, ast.Not) and isinstance(t.operand, ast.Name) and t.operand.id in consts: val = not consts[t.operand.id]
            if val is None: return node
            body = node.body if val else node.orelse
            return body if body else ast.Pass()
    f2 = T().visit(f2)
    ast.fix_missing_locations(f2)
    return f2
