"""Truncated power series (one variable, Fraction coefficients) evaluation of an expression DAG."""
from __future__ import annotations
from fractions import Fraction as F
from .report import AnalysisError


def s_mul(a, b, N):
    out = [F(0)] * (N + 1)
    for i, ai in enumerate(a):
        if ai == 0: continue
        for j, bj in enumerate(b):
            if i + j > N: break
            if bj != 0: out[i + j] += ai * bj
    return out


def s_inv(a, N):
    if a[0] == 0:
        raise AnalysisError('series division by a series with zero constant term')
    out = [F(0)] * (N + 1); out[0] = 1 / a[0]
    for n in range(1, N + 1):
        acc = F(0)
        for k in range(1, n + 1):
            if a[k]: acc += a[k] * out[n - k]
        out[n] = -acc / a[0]
    return out


def s_pow(a, n, N):
    if n < 0:
        return s_pow(s_inv(a, N), -n, N)
    r = [F(0)] * (N + 1); r[0] = F(1)
    base = a
    while n:
        if n & 1: r = s_mul(r, base, N)
        n >>= 1
        if n: base = s_mul(base, base, N)
    return r


def to_series(node, var, N, memo=None, env=None):
    """node -> list of N+1 Fractions: Taylor coefficients in atom `var`; other atoms must be given in env (name -> Fraction)."""
    memo = {} if memo is None else memo
    env = env or {}
    stack = [node]
    while stack:
        x = stack[-1]
        if x.uid in memo:
            stack.pop(); continue
        pend = [a for a in x.args if a.uid not in memo]
        if pend:
            stack.extend(pend); continue
        stack.pop()
        op = x.op
        if op == 'const':
            r = [F(0)] * (N + 1); r[0] = x.val
        elif op == 'atom':
            r = [F(0)] * (N + 1)
            if x.val[0] == var:
                if N >= 1: r[1] = F(1)
            elif x.val[0] in env:
                r[0] = F(env[x.val[0]])
            else:
                raise AnalysisError(f'series: free atom {x.val[0]}')
        elif op == 'add':
            a, b = memo[x.args[0].uid], memo[x.args[1].uid]
            r = [p + q for p, q in zip(a, b)]
        elif op == 'mul':
            r = s_mul(memo[x.args[0].uid], memo[x.args[1].uid], N)
        elif op == 'div':
            r = s_mul(memo[x.args[0].uid], s_inv(memo[x.args[1].uid], N), N)
        elif op == 'powi':
            r = s_pow(memo[x.args[0].uid], x.val, N)
        elif op == 'fn' and x.val == 'sqrt':
            a = memo[x.args[0].uid]
            r = s_sqrt(a, N)
        else:
            raise AnalysisError(f'series: unsupported node {op} {x.val}')
        memo[x.uid] = r
    return memo[node.uid]


def s_sqrt(a, N):
    from math import isqrt
    a0 = a[0]
    if a0 <= 0:
        raise AnalysisError('series sqrt needs a positive rational-square constant term')
    n, d = a0.numerator, a0.denominator
    if isqrt(n) ** 2 != n or isqrt(d) ** 2 != d:
        raise AnalysisError('series sqrt of non-square constant')
    out = [F(0)] * (N + 1); out[0] = F(isqrt(n), isqrt(d))
    for k in range(1, N + 1):
        acc = a[k]
        for i in range(1, k):
            acc -= out[i] * out[k - i]
        out[k] = acc / (2 * out[0])
    return out
