"""Dimensional analysis as scaling covariance, decided by polynomial identity testing.

A kernel f is dimensionally homogeneous with input dimensions d(x) and output dimension d(f) iff for all unit changes
lambda = (lambda_kg, lambda_m, lambda_s, ...):   f(lambda^d(x1) x1, ..., lambda^d(xn) xn) == lambda^d(f) f(x1, ..., xn).
This is exactly the invariance the property statements talk about (rescaled planets, non-dimensionalisation), and it needs
no separate units interpreter: the scaled value is obtained by substitution in the expression DAG and compared exactly.
A dimension is a dict unit -> Fraction exponent.
"""
from __future__ import annotations
from fractions import Fraction as F
from . import expr as X

UNITS = ('kg', 'm', 's', 'K', 'mol')
LAM = {u: X.atom(f'lambda_{u}', 'pos') for u in UNITS}


def dim(**kw):
    return {k: F(v) for k, v in kw.items() if v}


def dmul(a, b, sb=1):
    out = dict(a)
    for k, v in b.items():
        out[k] = out.get(k, 0) + sb * v
        if out[k] == 0: del out[k]
    return out


def factor(d):
    r = X.ONE
    for u, e in d.items():
        r = r * X.power(LAM[u], X.const(F(e)))
    return r


def scaled(node, dims):
    """substitute every atom x listed in dims by lambda^dims[x] * x"""
    return X.subst(node, {name: factor(d) * X.atom(name, kind) for (name, kind), d in dims.items()})


class Dims:
    """registry: atom (name, kind) -> dimension"""
    def __init__(self):
        self.d = {}

    def atom(self, name, kind='pos', **units):
        self.d[(name, kind)] = dim(**units)
        return X.atom(name, kind)

    def scaled(self, node):
        return scaled(node, self.d)


# common dimensions
LENGTH = dim(m=1); TIME = dim(s=1); MASS = dim(kg=1); NONE = {}
DENSITY = dim(kg=1, m=-3); PRESSURE = dim(kg=1, m=-1, s=-2); ACCEL = dim(m=1, s=-2); FREQ = dim(s=-1)
GRAV_G = dim(m=3, kg=-1, s=-2); VISCOSITY = dim(kg=1, m=-1, s=-1); POWER = dim(kg=1, m=2, s=-3); FLUX = dim(kg=1, s=-3)
ENERGY = dim(kg=1, m=2, s=-2)
# radial functions (per unit potential): y1,y3 [s^2/m], y2,y4 [kg/m^3], y5 [1], y6,y7 [1/m]
YDIM = {'y1': dim(s=2, m=-1), 'y3': dim(s=2, m=-1), 'y2': dim(kg=1, m=-3), 'y4': dim(kg=1, m=-3), 'y5': {}, 'y6': dim(m=-1), 'y7': dim(m=-1)}
