"""Canonical form for trigonometric polynomials: Node -> Laurent polynomial in exp(i*monomial) with Q(i) coefficients.

sin(L), cos(L) with L a Q-linear form over argument monomials become (E - 1/E)/(2i), (E + 1/E)/2 with
E = prod_m exp(i m)^{c_m}.  Keys are tuples of (monomial, exponent Fraction); values (re, im) Fractions.
Used where literal coefficients are rounded decimals (tolerance comparison) and for readable per-harmonic diagnostics.
"""
from __future__ import annotations
from fractions import Fraction as F
from . import expr as X
from .report import AnalysisError


def t_add(a, b):
    out = dict(a)
    for k, c in b.items():
        if k in out:
            r = (out[k][0] + c[0], out[k][1] + c[1])
            if r == (0, 0): del out[k]
            else: out[k] = r
        else:
            out[k] = c
    return out


def key_mul(k1, k2):
    d = dict(k1)
    for m, e in k2:
        d[m] = d.get(m, 0) + e
        if d[m] == 0: del d[m]
    return tuple(sorted(d.items()))


def t_mul(a, b):
    out = {}
    for k1, c1 in a.items():
        for k2, c2 in b.items():
            k = key_mul(k1, k2)
            c = (c1[0] * c2[0] - c1[1] * c2[1], c1[0] * c2[1] + c1[1] * c2[0])
            if k in out:
                r = (out[k][0] + c[0], out[k][1] + c[1])
                if r == (0, 0): del out[k]
                else: out[k] = r
            elif c != (0, 0):
                out[k] = c
    return out


def t_scale(a, c):
    return {k: (v[0] * c[0] - v[1] * c[1], v[0] * c[1] + v[1] * c[0]) for k, v in a.items()}


def t_pow(a, n):
    if n < 0:
        if len(a) == 1:
            (k, c), = a.items()
            d = c[0] * c[0] + c[1] * c[1]
            a = {tuple((m, -e) for m, e in k): (c[0] / d, -c[1] / d)}
            n = -n
        else:
            raise AnalysisError('negative power of a trigonometric sum')
    r = {(): (F(1), F(0))}
    base = a
    while n:
        if n & 1: r = t_mul(r, base)
        n >>= 1
        if n: base = t_mul(base, base)
    return r


def expo(argnode, sign=1):
    """exp(i * sign * arg) as a single-key poly"""
    poly = X.to_poly(argnode)
    key = {}
    unit = (F(1), F(0))
    for m, c in poly.items():
        if c[1] != 0:
            raise AnalysisError('complex trig argument')
        if m == ():
            raise AnalysisError('constant offset in a trig argument')
        if len(m) == 1 and m[0][1] == 1 and m[0][0][0] == 'a' and X.node_by_uid(m[0][0][1]).val[0] == 'pi':
            # an offset c*pi: exp(i c pi) is exact for multiples of pi/2
            q = c[0] * sign * 2
            if q.denominator != 1:
                raise AnalysisError('offset in a trig argument that is not a multiple of pi/2')
            unit = [(F(1), F(0)), (F(0), F(1)), (F(-1), F(0)), (F(0), F(-1))][int(q) % 4]
            continue
        key[m] = c[0] * sign
    return {tuple(sorted(key.items())): unit}


def to_trig(node, memo=None, env=None):
    memo = {} if memo is None else memo
    env = env or {}
    stack = [node]
    while stack:
        x = stack[-1]
        if x.uid in memo:
            stack.pop(); continue
        if x.op == 'fn' and x.val in ('sin', 'cos'):
            pend = []
        else:
            pend = [a for a in x.args if a.uid not in memo]
        if pend:
            stack.extend(pend); continue
        stack.pop()
        op = x.op
        if op == 'const': r = {(): (x.val, F(0))} if x.val != 0 else {}
        elif op == 'I': r = {(): (F(0), F(1))}
        elif op == 'atom':
            if x.val[0] in env:
                r = {(): (F(env[x.val[0]]), F(0))}
            else:
                raise AnalysisError(f'trig canonical form: free atom {x.val[0]} outside a trig argument')
        elif op == 'add': r = t_add(memo[x.args[0].uid], memo[x.args[1].uid])
        elif op == 'mul': r = t_mul(memo[x.args[0].uid], memo[x.args[1].uid])
        elif op == 'powi': r = t_pow(memo[x.args[0].uid], x.val)
        elif op == 'div':
            d = memo[x.args[1].uid]
            r = t_mul(memo[x.args[0].uid], t_pow(d, -1))
        elif op == 'fn' and x.val == 'sin':
            ep = expo(x.args[0], 1); em = expo(x.args[0], -1)
            r = t_scale(t_add(ep, t_scale(em, (F(-1), F(0)))), (F(0), F(-1, 2)))    # (E - 1/E)/(2i) = -i/2 (E - 1/E)
        elif op == 'fn' and x.val == 'cos':
            ep = expo(x.args[0], 1); em = expo(x.args[0], -1)
            r = t_scale(t_add(ep, em), (F(1, 2), F(0)))
        else:
            raise AnalysisError(f'trig canonical form: unsupported node {op} {x.val}')
        memo[x.uid] = r
    return memo[node.uid]


def t_maxabs(a):
    return max([abs(float(c[0])) + abs(float(c[1])) for c in a.values()] or [0.0])


def t_close(a, b, rel=1e-11):
    """coefficient-wise comparison with tolerance relative to the largest coefficient of b (rounded literals)"""
    d = t_add(a, t_scale(b, (F(-1), F(0))))
    scale = max(t_maxabs(b), t_maxabs(a), 1e-300)
    worst = None
    for k, c in d.items():
        v = abs(float(c[0])) + abs(float(c[1]))
        if v > rel * scale and (worst is None or v > worst[1]):
            worst = (k, v)
    return worst is None, worst, scale
