"""Rational functions over Q(i)[atoms] without gcd reduction: Node -> (numerator, denominator) Laurent polynomials.

Used for limits x -> 0 / x -> infinity by leading coefficients (DESIGN 2.2).  Non-rational sub-terms become opaque
indeterminates; a limit in x fails closed when an opaque sub-term depends on x.
"""
from __future__ import annotations
from fractions import Fraction as F
from . import expr as X
from .report import AnalysisError

ONE = {(): (F(1), F(0))}


def to_frac(node, memo=None, budget=20000):
    memo = {} if memo is None else memo
    stack = [node]
    while stack:
        x = stack[-1]
        if x.uid in memo:
            stack.pop(); continue
        if x.op in ('add', 'mul', 'div', 'powi'):
            pend = [a for a in x.args if a.uid not in memo]
        else:
            pend = []
        if pend:
            stack.extend(pend); continue
        stack.pop()
        op = x.op
        if op == 'const':
            r = ({(): (x.val, F(0))} if x.val != 0 else {}, ONE)
        elif op == 'I':
            r = ({(): (F(0), F(1))}, ONE)
        elif op == 'add':
            (n1, d1), (n2, d2) = memo[x.args[0].uid], memo[x.args[1].uid]
            if d1 == d2:
                r = (X._padd(n1, n2), d1)
            else:
                r = (X._padd(X._pmul(n1, d2), X._pmul(n2, d1)), X._pmul(d1, d2))
        elif op == 'mul':
            (n1, d1), (n2, d2) = memo[x.args[0].uid], memo[x.args[1].uid]
            r = (X._pmul(n1, n2), X._pmul(d1, d2))
        elif op == 'div':
            (n1, d1), (n2, d2) = memo[x.args[0].uid], memo[x.args[1].uid]
            if not n2:
                raise AnalysisError('division by an identically zero expression')
            r = (X._pmul(n1, d2), X._pmul(d1, n2))
        elif op == 'powi':
            n1, d1 = memo[x.args[0].uid]
            k = x.val
            if k < 0:
                n1, d1 = d1, n1; k = -k
            rn, rd = ONE, ONE
            for _ in range(k):
                rn = X._pmul(rn, n1); rd = X._pmul(rd, d1)
            r = (rn, rd)
        else:
            key = ('a', x.uid) if x.op == 'atom' else ('n', x.uid)
            r = ({((key, 1),): (F(1), F(0))}, ONE)
        if len(r[0]) + len(r[1]) > budget:
            raise AnalysisError('rational function too large for canonical form')
        memo[x.uid] = r
    return memo[node.uid]


def depends_on(uid_key, var):
    """does the opaque node (key ('n', uid)) mention atom `var`?"""
    nd = X.node_by_uid(uid_key[1])
    return any(a.val[0] == var for a in X.atoms_of(nd))


def degree_split(poly, var_uid, var):
    """poly -> dict degree -> coefficient polynomial (with the variable removed)"""
    out = {}
    for m, c in poly.items():
        deg = 0; rest = []
        for k, e in m:
            if k == ('a', var_uid):
                deg = e
            else:
                if k[0] == 'n' and depends_on(k, var):
                    raise AnalysisError(f'limit in {var}: a non-rational sub-term depends on {var}')
                rest.append((k, e))
        out.setdefault(deg, {})[tuple(rest)] = c
    return out


def limit(node, var_atom, where):
    """limit of the rational function as var -> 0+ ('zero') or var -> +inf ('inf').
    returns ('finite', (num_poly, den_poly)) | ('zero',) | ('infinite', (num, den))"""
    num, den = to_frac(node)
    if not num:
        return ('zero',)
    ns = degree_split(num, var_atom.uid, var_atom.val[0]); ds = degree_split(den, var_atom.uid, var_atom.val[0])
    pick = max if where == 'inf' else min
    dn = pick(ns); dd = pick(ds)
    cmpv = (dn - dd) if where == 'inf' else (dd - dn)
    if cmpv < 0:
        return ('zero',)
    if cmpv > 0:
        return ('infinite', (ns[dn], ds[dd]))
    return ('finite', (ns[dn], ds[dd]))


def frac_equal(fr, node):
    """is num/den == node (a polynomial-representable node)?  cross-multiplied canonical comparison"""
    n2, d2 = to_frac(node)
    return X._pmul(fr[0], d2) == X._pmul(n2, fr[1])
