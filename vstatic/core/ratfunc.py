"""Rational functions over Q(i)[atoms] without gcd reduction: Node -> (numerator, denominator) Laurent polynomials.

Used for limits x -> 0 / x -> infinity by leading coefficients (DESIGN 2.2).  Non-rational sub-terms become opaque
indeterminates; a limit in x fails closed when an opaque sub-term depends on x.
"""
from __future__ import annotations
from fractions import Fraction as F
from . import expr as X
from .report import AnalysisError

ONE = {(): (F(1), F(0))}


def to_frac(node, memo=None, budget=20000):
    memo = {} if memo is None else memo
    stack = [node]
    while stack:
        x = stack[-1]
        if x.uid in memo:
            stack.pop(); continue
        if x.op in ('add', 'mul', 'div', 'powi'):
            pend = [a for a in x.args if a.uid not in memo]
        else:
            pend = []
        if pend:
            stack.extend(pend); continue
        stack.pop()
        op = x.op
        if op == 'const':
            r = ({(): (x.val, F(0))} if x.val != 0 else {}, ONE)
        elif op == 'I':
            r = ({(): (F(0), F(1))}, ONE)
        elif op == 'add':
            (n1, d1), (n2, d2) = memo[x.args[0].uid], memo[x.args[1].uid]
            if d1 == d2:
                r = (X._padd(n1, n2), d1)
            else:
                r = (X._padd(X._pmul(n1, d2), X._pmul(n2, d1)), X._pmul(d1, d2))
        elif op == 'mul':
            (n1, d1), (n2, d2) = memo[x.args[0].uid], memo[x.args[1].uid]
            r = (X._pmul(n1, n2), X._pmul(d1, d2))
        elif op == 'div':
            (n1, d1), (n2, d2) = memo[x.args[0].uid], memo[x.args[1].uid]
            if not n2:
                raise AnalysisError('division by an identically zero expression')
            r = (X._pmul(n1, d2), X._pmul(d1, n2))
        elif op == 'powi':
            n1, d1 = memo[x.args[0].uid]
            k = x.val
            if k < 0:
                n1, d1 = d1, n1; k = -k
            rn, rd = ONE, ONE
            for _ in range(k):
                rn = X._pmul(rn, n1); rd = X._pmul(rd, d1)
            r = (rn, rd)
        else:
            key = ('a', x.uid) if x.op == 'atom' else ('n', x.uid)
            r = ({((key, 1),): (F(1), F(0))}, ONE)
        if len(r[0]) + len(r[1]) > budget:
            raise AnalysisError('rational function too large for canonical form')
        memo[x.uid] = r
    return memo[node.uid]


def depends_on(uid_key, var):
    """does the opaque node (key ('n', uid)) mention atom `var`?"""
    nd = X.node_by_uid(uid_key[1])
    return any(a.val[0] == var for a in X.atoms_of(nd))


def degree_split(poly, var_uid, var):
    """poly -> dict degree -> coefficient polynomial (with the variable removed)"""
    out = {}
    for m, c in poly.items():
        deg = 0; rest = []
        for k, e in m:
            if k == ('a', var_uid):
                deg = e
            else:
                if k[0] == 'n' and depends_on(k, var):
                    raise AnalysisError(f'limit in {var}: a non-rational sub-term depends on {var}')
                rest.append((k, e))
        out.setdefault(deg, {})[tuple(rest)] = c
    return out


def limit(node, var_atom, where):
    """limit of the rational function as var -> 0+ ('zero') or var -> +inf ('inf').
    returns ('finite', (num_poly, den_poly)) | ('zero',) | ('infinite', (num, den))"""
    num, den = to_frac(node)
    if not num:
        return ('zero',)
    ns = degree_split(num, var_atom.uid, var_atom.val[0]); ds = degree_split(den, var_atom.uid, var_atom.val[0])
    pick = max if where == 'inf' else min
    dn = pick(ns); dd = pick(ds)
    cmpv = (dn - dd) if where == 'inf' else (dd - dn)
    if cmpv < 0:
        return ('zero',)
    if cmpv > 0:
        return ('infinite', (ns[dn], ds[dd]))
    return ('finite', (ns[dn], ds[dd]))


def frac_equal(fr, node):
    """is num/den == node (a polynomial-representable node)?  cross-multiplied canonical comparison"""
    n2, d2 = to_frac(node)
    return X._pmul(fr[0], d2) == X._pmul(n2, fr[1])


# ------------------------------------------------------------------------------------------------ power-law terms: degrees a + b*alpha, alpha in (0, 1)
def _power_node_degree(uid_key, var_atom, alpha_names):
    """opaque node exp(alpha * log(base)) with base = (coefficient free of var) * var^k: returns (k, alpha_name) or None"""
    nd = X.node_by_uid(uid_key[1])
    if not (nd.op == 'fn' and nd.val == 'exp'):
        return None
    arg = nd.args[0]
    if arg.op != 'mul':
        return None
    a, b = arg.args
    if b.op == 'fn' and b.val == 'log': expo, lg = a, b
    elif a.op == 'fn' and a.val == 'log': expo, lg = b, a
    else: return None
    if not (expo.op == 'atom' and expo.val[0] in alpha_names):
        return None
    base = lg.args[0]
    num, den = to_frac(base)
    def mono_deg(poly):
        degs = set()
        for m, c in poly.items():
            dg = 0
            for k, e in m:
                if k == ('a', var_atom.uid): dg = e
                elif k[0] == 'n' and depends_on(k, var_atom.val[0]): return None
            degs.add(dg)
        return degs.pop() if len(degs) == 1 else None
    kn, kd = mono_deg(num), mono_deg(den)
    if kn is None or kd is None:
        return None
    return (kn - kd, expo.val[0])


def _dominates(d1, d2):
    """d = (a, b) stands for a + b*alpha; True if d1 >= d2 for every alpha in [0, 1] and they are not identical"""
    da, db = d1[0] - d2[0], d1[1] - d2[1]
    return (da >= 0 and da + db >= 0) and not (da == 0 and db == 0)


def gen_degree_split(poly, var_atom, alpha_names):
    out = {}
    for m, c in poly.items():
        a = 0; b = 0; rest = []
        for k, e in m:
            if k == ('a', var_atom.uid):
                a += e; continue
            if k[0] == 'n' and depends_on(k, var_atom.val[0]):
                pd = _power_node_degree(k, var_atom, alpha_names)
                if pd is None:
                    raise AnalysisError(f'limit in {var_atom.val[0]}: a sub-term that is neither rational nor a power law depends on it')
                b += pd[0] * e
            rest.append((k, e))
        out.setdefault((a, b), {})[tuple(rest)] = c
    return out


def limit_power_law(node, var_atom, where, alpha_names=('alpha',)):
    """like limit(), for expressions that also contain power laws (coeff * var^k)**alpha with 0 < alpha < 1.  A monomial var^a * P^b has degree a + b k alpha;
    the limit is decided only if one monomial of the numerator and one of the denominator dominate all others for EVERY alpha in (0, 1)."""
    num, den = to_frac(node)
    if not num:
        return ('zero',)
    ns = gen_degree_split(num, var_atom, alpha_names); ds = gen_degree_split(den, var_atom, alpha_names)

    def pick(degs):
        degs = list(degs)
        for c in degs:
            if where == 'inf':
                if all(c == o or _dominates(c, o) for o in degs): return c
            else:
                if all(c == o or _dominates(o, c) for o in degs): return c
        raise AnalysisError(f'limit in {var_atom.val[0]}: no monomial dominates for every exponent in (0, 1): degrees {degs}')
    dn = pick(ns); dd = pick(ds)
    diff = (dn[0] - dd[0], dn[1] - dd[1])
    if diff == (0, 0):
        return ('finite', (ns[dn], ds[dd]))
    up = _dominates(dn, dd); down = _dominates(dd, dn)
    if not (up or down):
        raise AnalysisError(f'limit in {var_atom.val[0]}: numerator and denominator degrees {dn}, {dd} are not ordered for every exponent in (0, 1)')
    grows = up if where == 'inf' else down
    return ('infinite', (ns[dn], ds[dd])) if grows else ('zero',)
