"""AlgAI: abstract interpreter of TidalPy's numeric kernels into the expression-DAG domain (expr.py).

Handles the statement/expression idioms the kernels use (straight-line arithmetic, tuple/dict literals, constant-trip
loops, flag branches, mask multiplication, pointer stores with concrete indices, inlined repo calls) and fails closed
(AnalysisError -> exit 2) on anything else.  Nothing is executed: program variables are mapped to symbolic values.
"""
from __future__ import annotations
import ast
from fractions import Fraction
from . import expr as X
from .expr import Node
from .report import AnalysisError
import os as _os
_HOOKLOG = bool(_os.environ.get('VERIF_HOOKLOG'))


class ReturnSignal(Exception):
    def __init__(self, value): self.value = value


class RaiseSignal(Exception):
    """the interpreted path reached a `raise` statement"""
    def __init__(self, node, text): self.node = node; self.text = text


class BreakSignal(Exception): pass
class ContinueSignal(Exception): pass


OOB_LOG = []      # (array name, extent, flat index, 'read'|'write', ast node) for accesses outside a declared C array


class Arr:
    """array / pointer: a store map from concrete index (int or tuple) to value; reads of unset slots call default."""

    def __init__(self, name='arr', default=None, offset=0, base=None, shape=None):
        self.name = name; self.default = default
        self.shape = shape
        self.dims = None           # C array dimensions (row-major) when declared as a stack array
        self.extent = None         # total number of elements of the declared array (for bounds analysis)
        self.store = {} if base is None else base.store
        self.base = base if base is not None else self
        self.offset = offset
        self.writes = [] if base is None else base.writes      # (index, value, node) in program order
        self.reads = [] if base is None else base.reads        # keys read, in program order (cleared by clients)

    def view(self, offset):
        v = Arr(self.name, self.default, self.offset + offset, self.base)
        v.extent = self.base.extent
        return v

    def sub(self, i):
        """a[i] of a multi-dimensional C array: the row view"""
        stride = 1
        for dmn in self.dims[1:]: stride *= dmn
        v = self.view(i * stride)
        v.dims = self.dims[1:]
        return v

    def _key(self, idx):
        if isinstance(idx, tuple):
            return idx
        return idx + self.offset

    def _bounds(self, k, kind, node=None):
        ext = self.base.extent
        if ext is not None and isinstance(k, int) and not (0 <= k < ext):
            OOB_LOG.append((self.base.name, ext, k, kind, node))

    def get(self, idx):
        k = self._key(idx)
        self._bounds(k, 'read')
        self.reads.append(k)
        if k in self.store:
            return self.store[k]
        if self.default is None:
            ext = self.base.extent
            if ext is not None and isinstance(k, int) and not (0 <= k < ext):
                return Opaque(f'out-of-bounds read {self.base.name}[{k}]')        # logged in OOB_LOG by _bounds; the program reads garbage there
            if str(self.base.name).startswith('heap block') and isinstance(k, int):
                # malloc'ed memory nobody wrote yet: the program reads whatever the heap held (logged with the out-of-bounds accesses; the value is unknown)
                OOB_LOG.append((self.base.name, ext, k, 'read of uninitialised', None))
                return Opaque(f'uninitialised {self.base.name}[{k}]')
            raise AnalysisError(f'read of unset slot {self.name}[{k}]')
        v = self.default(k)
        return v

    def set(self, idx, v, node=None):
        k = self._key(idx)
        self._bounds(k, 'write', node)
        self.store[k] = v
        self.writes.append((k, v, node))


class Vec(list):
    """1-d numpy array of known length: elementwise arithmetic, slicing"""
    def __getitem__(self, i):
        r = list.__getitem__(self, i)
        return Vec(r) if isinstance(i, slice) else r


class IntVec(Vec):
    """numpy array of machine integers (int64, what np.arange / np.array of Python ints give): arithmetic wraps modulo 2**64 exactly as numpy does, silently"""
    @staticmethod
    def wrap(v):
        v = int(v)
        return (v + 2 ** 63) % 2 ** 64 - 2 ** 63

    def __getitem__(self, i):
        r = list.__getitem__(self, i)
        return IntVec(r) if isinstance(i, slice) else r


class PyIter:
    """iter(seq): a one-shot iterator that remembers its position (a second loop over it continues where the first one stopped)"""
    def __init__(self, seq): self.seq = list(seq); self.pos = 0
    def __iter__(self): return self
    def __len__(self): return len(self.seq) - self.pos
    def __next__(self):
        if self.pos >= len(self.seq): raise StopIteration
        self.pos += 1
        return self.seq[self.pos - 1]


class Obj:
    def __init__(self, cls=None, attrs=None, name='obj', default=None):
        self.cls = cls; self.attrs = dict(attrs or {}); self.name = name; self.default = default

    def get(self, a):
        if a in self.attrs:
            return self.attrs[a]
        if self.default is not None:
            v = self.default(a)
            self.attrs[a] = v
            return v
        raise AnalysisError(f'unknown attribute {self.name}.{a}')


class FuncRef:
    def __init__(self, mod, node, cls=None, bound=None, closure=None):
        self.mod = mod; self.node = node; self.cls = cls; self.bound = bound; self.closure = closure

    def __repr__(self): return f'<func {self.mod.name}.{self.node.name}>'


class Builtin:
    def __init__(self, name): self.name = name
    def __repr__(self): return f'<builtin {self.name}>'


class ModuleRef:
    def __init__(self, dotted): self.dotted = dotted


class Opaque:
    def __init__(self, name): self.name = name
    def __repr__(self): return f'<opaque {self.name}>'


class TypeTag:
    """result of type(x): symbolic scalars are never numpy arrays (the scalar path is analysed)"""
    def __init__(self, name): self.name = name

    def __eq__(self, other):
        if isinstance(other, TypeTag): return other.name == self.name
        if isinstance(other, Builtin): return other.name.split('.')[-1] == self.name
        return False

    def __hash__(self): return hash(self.name)


def _mk_ew():
    B = lambda op: (lambda it, a, e, fr: it.binop(op, a[0], a[1], e, fr) if len(a) == 2 else NotImplemented)
    U = lambda f: (lambda it, a, e, fr: f(a[0]) if len(a) == 1 else NotImplemented)
    pi_ = lambda: X.atom('pi', 'pos')
    return {
        'add': B(ast.Add()), 'subtract': B(ast.Sub()), 'multiply': B(ast.Mult()), 'divide': B(ast.Div()), 'true_divide': B(ast.Div()), 'floor_divide': B(ast.FloorDiv()),
        'negative': U(lambda x: X.neg(x)), 'positive': U(lambda x: x), 'reciprocal': U(lambda x: X.div(X.ONE, x)),
        'hypot': (lambda it, a, e, fr: X.sqrt(X.add(X.mul(a[0], a[0]), X.mul(a[1], a[1]))) if len(a) == 2 else NotImplemented),
        'arctan2': (lambda it, a, e, fr: X.fn('atan2', a[0], a[1]) if len(a) == 2 else NotImplemented),
        'deg2rad': U(lambda x: X.div(X.mul(x, pi_()), X.const(180))), 'radians': U(lambda x: X.div(X.mul(x, pi_()), X.const(180))),
        'rad2deg': U(lambda x: X.div(X.mul(x, X.const(180)), pi_())), 'degrees': U(lambda x: X.div(X.mul(x, X.const(180)), pi_())),
        'expm1': U(lambda x: X.add(X.fn('exp', x), X.neg(X.ONE))), 'exp2': U(lambda x: X.power(X.const(2), x)),
        'arcsin': U(lambda x: X.fn('asin', x)), 'arccos': U(lambda x: X.fn('acos', x)), 'arctan': U(lambda x: X.fn('atan', x)), 'asin': U(lambda x: X.fn('asin', x)),
        'acos': U(lambda x: X.fn('acos', x)), 'atan': U(lambda x: X.fn('atan', x)),
        'sinh': U(lambda x: X.div(X.add(X.fn('exp', x), X.neg(X.fn('exp', X.neg(x)))), X.const(2))), 'cosh': U(lambda x: X.div(X.add(X.fn('exp', x), X.fn('exp', X.neg(x))), X.const(2))),
        'tanh': U(lambda x: X.div(X.add(X.fn('exp', x), X.neg(X.fn('exp', X.neg(x)))), X.add(X.fn('exp', x), X.fn('exp', X.neg(x))))),
        'angle': U(lambda x: X.fn('atan2', X.fn('imag', x), X.fn('real', x))),
        # finite inputs: these hand the value back
        # reduced-precision casts keep the real value (the loss of digits is reported by the precision lints, not here)
        'float32': U(lambda x: x), 'float16': U(lambda x: x), 'single': U(lambda x: x), 'half': U(lambda x: x), 'complex64': U(lambda x: x), 'csingle': U(lambda x: x),
        'nan_to_num': U(lambda x: x), 'real_if_close': U(lambda x: x), 'asfarray': U(lambda x: x), 'float_': U(lambda x: x), 'double': U(lambda x: x), 'longdouble': U(lambda x: x),
        'heaviside': (lambda it, a, e, fr: X.add(X.cmp('>', a[0], X.ZERO), X.mul(a[1], X.cmp('==', a[0], X.ZERO))) if len(a) == 2 else NotImplemented),
    }


_EW_FUNCS = _mk_ew()


class Ref:
    """address-of a local scalar: &x"""
    def __init__(self, frame, name): self.frame = frame; self.name = name


UNARY_FUNCS = {'sin', 'cos', 'tan', 'exp', 'sqrt', 'cbrt', 'log', 'real', 'imag'}
NP_ALIASES = {'fabs': 'abs', 'absolute': 'abs', 'conjugate': 'conj', 'conj': 'conj', 'abs': 'abs', 'sign': 'sign',
              'creal': 'real', 'cimag': 'imag', 'cabs': 'cabs', 'csqrt': 'sqrt', 'cexp': 'exp'}
EXTERNAL_MODULES = {'numpy', 'np', 'math', 'cmath', 'libc.math', 'libc', 'scipy.constants', 'scipy', 'numba'}


def c_sizeof(t):
    """size in bytes of a C type name as the compiled sources spell it (LP64)"""
    t = ' '.join(str(t).replace('const ', ' ').split())
    if t.endswith('*'): return 8
    return {'char': 1, 'unsigned char': 1, 'signed char': 1, 'bint': 4, 'int': 4, 'unsigned int': 4, 'short': 2, 'long': 8, 'unsigned long': 8, 'long long': 8, 'size_t': 8, 'ssize_t': 8,
            'Py_ssize_t': 8, 'float': 4, 'double': 8, 'double complex': 16, 'float complex': 8, 'long double': 16}.get(t)


def is_num(v):
    return isinstance(v, (int, Fraction, Node, ArrBox)) and not isinstance(v, bool)


class ArrPart(Arr):
    """np.real(a) / np.imag(a) (a.real / a.imag) of an array: numpy hands back a VIEW of the same memory, so a store through it changes that component of the source array."""

    def __init__(self, src, part):
        Arr.__init__(self, f'{part}({src.name})', shape=src.shape)
        self.src = src; self.part = part

    def view(self, offset):
        v = ArrPart(self.src.view(offset), self.part)
        return v

    def get(self, idx):
        return X.fn(self.part, to_node(self.src.get(idx)))

    def set(self, idx, v, node=None):
        cur = to_node(self.src.get(idx))
        if self.part == 'real':
            new = X.add(to_node(v), X.mul(X.I, X.fn('imag', cur)))
        else:
            new = X.add(X.fn('real', cur), X.mul(X.I, to_node(v)))
        self.src.set(idx, new, node)


def may_be_complex(n, _memo=None):
    """the expression may have a non-zero imaginary part: it contains the imaginary unit or a complex atom outside real / imag / abs"""
    memo = {} if _memo is None else _memo
    if n.uid in memo: return memo[n.uid]
    if n.op == 'I': r = True
    elif n.op == 'atom': r = n.val[1] == 'complex'
    elif n.op == 'fn' and n.val in ('real', 'imag', 'abs', 'abs2'): r = False
    elif n.op == 'cmp': r = False
    else: r = any(may_be_complex(a_, memo) for a_ in n.args)
    memo[n.uid] = r
    return r


def arr_len(a):
    """length of a 1-d array of known shape, else None"""
    sh = getattr(a, 'shape', None)
    if isinstance(sh, tuple) and len(sh) == 1 and isinstance(sh[0], int):
        return sh[0]
    return None


def arr_slice(a, sl, where=''):
    """a[start:stop] of a 1-d array of known length: a view of the same memory (numpy basic indexing)"""
    n = arr_len(a)
    if n is None:
        raise AnalysisError(f'{where}: slice of an array of unknown shape')
    cv = lambda x_: (int(concrete(x_)) if x_ is not None and not isinstance(x_, int) and concrete(x_) is not None else x_)
    sl = slice(cv(sl.start), cv(sl.stop), cv(sl.step))
    lo, hi, step = sl.indices(n)
    if step != 1:
        raise AnalysisError(f'{where}: strided slice of an array')
    v = a.view(lo)
    v.shape = (max(0, hi - lo),)
    return v


class ArrBox:
    """array mode: a numpy array is a mutable object -- `x = y` makes two names for one array and `x *= c` changes it for both.  An ArrBox is that object; its content is the
    (immutable) expression for one generic element.  Arithmetic reads the content and yields a fresh ArrBox; augmented assignment replaces the content in place."""
    __slots__ = ('v',)
    def __init__(self, v): self.v = v
    def __repr__(self): return f'<array {X.show(self.v)[:40]}>'


def unbox(v):
    return v.v if isinstance(v, ArrBox) else v


def to_node(v):
    if isinstance(v, ArrBox): v = v.v
    if isinstance(v, Node): return v
    if isinstance(v, bool): return X.const(int(v))
    if isinstance(v, (int, Fraction, float, complex)): return X.const(v)
    raise AnalysisError(f'expected a numeric value, got {type(v).__name__}: {v!r}')


def concrete(v):
    """Node const -> Fraction/int, else None"""
    if isinstance(v, ArrBox): v = v.v
    if isinstance(v, bool): return int(v)
    if isinstance(v, (int, Fraction)): return v
    if isinstance(v, Node) and v.op == 'const':
        return int(v.val) if v.val.denominator == 1 else v.val
    return None


class Frame:
    def __init__(self, mod, fname, parent=None):
        self.mod = mod; self.fname = fname; self.vars = {}
        self.cls = None; self.self_obj = None
        self.parent = parent          # defining frame of a nested function / lambda: free names are looked up there when the body runs (late binding)
        self.globals_declared = set()   # names a `global` statement of this function mentions: stores go to the module state

    def lookup(self, n):
        f = self
        while f is not None:
            if n in f.vars:
                return f
            f = f.parent
        return None


class Interp:
    def __init__(self, repo, hooks=None, max_depth=8, max_unroll=4096):
        self.repo = repo
        self.hooks = hooks or {}
        self.max_depth = max_depth; self.max_unroll = max_unroll
        self.depth = 0
        self.trace_calls = []
        self.unraisable = []           # (function, exception) swallowed at the boundary of a `noexcept` C function
        self.module_const_cache = {}
        self.module_state = {}         # (module name, variable) -> value written through a `global` statement: persists across calls made with this interpreter

    # ------------------------------------------------------------ entry points
    def call(self, mod, fnode, args=(), kwargs=None, self_obj=None, owner=None, closure=None):
        """Calls of purely numeric functions (every argument a number, an expression, or a tuple of such; at any depth) convert data-dependent branches nobody decides into masks (if-conversion): every arm is interpreted and the result is
        sum over arms of (product of the arm's conditions as 0/1 masks) * (value on that arm) -- the mask idiom the repository itself uses, so the identity tests sample all arms."""
        if 'fork' in self.hooks or self_obj is not None or getattr(self, 'no_autofork', False):
            return self._call(mod, fnode, args, kwargs, self_obj, owner, closure)

        def plain(v):
            if isinstance(v, (Node, int, Fraction, float, complex, bool, str, type(None), ArrBox)): return True
            if isinstance(v, (tuple, list, Vec)): return all(plain(x_) for x_ in v)
            return False
        if not (all(plain(a_) for a_ in args) and all(plain(v_) for v_ in (kwargs or {}).values())):
            return self._call(mod, fnode, args, kwargs, self_obj, owner, closure)
        try:
            return self._call(mod, fnode, list(args), dict(kwargs or {}), self_obj, owner, closure)
        except AnalysisError as ex:
            if 'branch on a symbolic condition' not in str(ex):
                raise
            first = ex

        def one(fork):
            self.hooks['fork'] = fork
            try:
                return self._call(mod, fnode, list(args), dict(kwargs or {}), self_obj, owner, closure)
            finally:
                self.hooks.pop('fork', None)
        paths = PathExplorer(max_paths=64).run(one)

        def weight(trace):
            w = X.ONE
            for (v, _w, _t, outcome) in trace:
                if not isinstance(v, Node):
                    raise first
                w = X.mul(w, v if outcome else X.add(X.ONE, X.neg(v)))
            return w

        def merge(vals, ws):
            v0 = vals[0]
            if all(v is v0 for v in vals): return v0
            if all(isinstance(v, (Node, int, Fraction, ArrBox)) and not isinstance(v, bool) for v in vals):
                acc = X.ZERO
                for v, w in zip(vals, ws): acc = X.add(acc, X.mul(w, to_node(v)))
                return acc
            if all(isinstance(v, (tuple, list)) and len(v) == len(v0) for v in vals):
                r = [merge([v[i_] for v in vals], ws) for i_ in range(len(v0))]
                return tuple(r) if isinstance(v0, tuple) else r
            if all(isinstance(v, dict) and list(v) == list(v0) for v in vals):
                return {k_: merge([v[k_] for v in vals], ws) for k_ in v0}
            if all(not isinstance(v, (Node, ArrBox, tuple, list, dict)) and v == v0 for v in vals): return v0
            raise first
        return merge([v for _t, v in paths], [weight(t) for t, _v in paths])

    def _call(self, mod, fnode, args=(), kwargs=None, self_obj=None, owner=None, closure=None):
        """Bind arguments as Python would and interpret the body. Returns the returned value (None if falls off)."""
        kwargs = dict(kwargs or {})
        frame = Frame(mod, fnode.name, parent=closure)
        frame.cls = owner; frame.self_obj = self_obj
        if owner is None and self_obj is not None and getattr(self_obj, 'cls', None) is not None:
            m0 = self.find_method(self_obj.cls, fnode.name)
            frame.cls = m0[2] if m0 and m0[1] is fnode else self.owner_of(self_obj.cls, fnode)
        a = fnode.args
        params = [p.arg for p in a.posonlyargs + a.args]
        defaults = a.defaults
        args = list(args)
        if self_obj is not None and params and params[0] in ('self', 'cls'):
            args = [self_obj] + args
        if len(args) > len(params) and a.vararg is None:
            raise AnalysisError(f'{fnode.name}: too many positional arguments ({len(args)} > {len(params)})')
        for name, v in zip(params, args):
            frame.vars[name] = v
        if a.vararg is not None:
            frame.vars[a.vararg.arg] = tuple(args[len(params):])
        nd = len(defaults)
        for i, name in enumerate(params):
            if name in frame.vars:
                if name in kwargs:
                    raise AnalysisError(f'{fnode.name}: multiple values for {name}')
                continue
            if name in kwargs:
                frame.vars[name] = kwargs.pop(name)
            else:
                j = i - (len(params) - nd)
                if j >= 0:
                    frame.vars[name] = self.eval(defaults[j], Frame(mod, fnode.name))
                else:
                    raise AnalysisError(f'{fnode.name}: missing argument {name}')
        for p, d in zip(a.kwonlyargs, a.kw_defaults):
            if p.arg in kwargs:
                frame.vars[p.arg] = kwargs.pop(p.arg)
            elif d is not None:
                frame.vars[p.arg] = self.eval(d, Frame(mod, fnode.name))
            else:
                raise AnalysisError(f'{fnode.name}: missing kw-only argument {p.arg}')
        if a.kwarg is not None:
            frame.vars[a.kwarg.arg] = kwargs
        elif kwargs:
            raise AnalysisError(f'{fnode.name}: unexpected keyword arguments {sorted(kwargs)}')
        self.depth += 1
        if self.depth > self.max_depth:
            raise AnalysisError(f'inlining depth bound {self.max_depth} exceeded at {fnode.name}')
        try:
            self.exec_block(fnode.body, frame)
            return None
        except ReturnSignal as r:
            return r.value
        except RaiseSignal as rs:
            # a C function declared `noexcept` cannot propagate a Python exception: Cython reports it as unraisable and the function returns at once (0 / nothing)
            facts = getattr(mod, 'facts', None)
            info = facts.funcs.get((fnode.name, fnode.lineno)) if facts is not None else None
            if info is not None and 'noexcept' in info.get('quals', ()):
                self.unraisable.append((fnode.name, rs.text))
                return None
            raise
        finally:
            self.depth -= 1
            self.last_frame = frame

    def c_zero_division(self, e, fr):
        """Division by an exact zero in a compiled (Cython) source.  With the directive cdivision=True the C operator is used: the result is an infinity or a NaN and
        execution goes on.  Without it Cython tests the divisor and raises ZeroDivisionError.  None for interpreted sources (callers keep their own treatment)."""
        mod = getattr(fr, 'mod', None) if fr is not None else None
        if mod is None or not getattr(mod, 'is_pyx', False):
            return None
        if str(getattr(mod, 'directives', {}).get('cdivision', 'False')).strip().lower() in ('true', '1'):
            return Opaque('inf')
        raise RaiseSignal(ast.Raise(exc=ast.Name(id='ZeroDivisionError', ctx=ast.Load()), cause=None), 'ZeroDivisionError(float division)')

    _PURE_CALLS = ('abs', 'fabs', 'sqrt', 'cbrt', 'min', 'max', 'fmin', 'fmax', 'float', 'int', 'pow', 'exp', 'log', 'sin', 'cos', 'tan', 'copysign', 'hypot', 'creal', 'cimag', 'cabs')

    def _simple_arms(self, st):
        def ok_expr(e_):
            for n_ in ast.walk(e_):
                if isinstance(n_, ast.Call) and not (isinstance(n_.func, ast.Name) and n_.func.id in self._PURE_CALLS) and not (
                        isinstance(n_.func, ast.Attribute) and n_.func.attr in self._PURE_CALLS and isinstance(n_.func.value, ast.Name) and n_.func.value.id in ('np', 'numpy', 'math', 'cmath')):
                    return False
                if isinstance(n_, (ast.NamedExpr, ast.Yield, ast.Await, ast.Lambda)):
                    return False
            return True

        def ok(body):
            for s_ in body:
                if isinstance(s_, ast.Pass): continue
                if isinstance(s_, ast.Assign) and all(isinstance(t_, ast.Name) for t_ in s_.targets) and ok_expr(s_.value): continue
                if isinstance(s_, ast.AugAssign) and isinstance(s_.target, ast.Name) and ok_expr(s_.value): continue
                if isinstance(s_, ast.AnnAssign) and isinstance(s_.target, ast.Name) and s_.value is not None and ok_expr(s_.value): continue
                if isinstance(s_, ast.If) and ok_expr(s_.test) and ok(s_.body) and ok(s_.orelse): continue
                return False
            return True
        return ok(st.body) and ok(st.orelse)

    def _if_convert(self, st, cond, fr, err):
        if cond.op != 'cmp' and concrete(cond) is None and not (cond.op in ('mul', 'add') ):
            pass
        before = dict(fr.vars)
        results = []
        for arm in (st.body, st.orelse):
            fr.vars = dict(before)
            self.exec_block(arm, fr)
            results.append(fr.vars)
        fr.vars = dict(before)
        then_v, else_v = results
        for name in sorted(set(then_v) | set(else_v)):
            a = then_v.get(name, before.get(name, NotImplemented)); b = else_v.get(name, before.get(name, NotImplemented))
            if a is b:
                if a is not NotImplemented: fr.vars[name] = a
                continue
            if a is NotImplemented or b is NotImplemented or not all(isinstance(unbox(v_), (Node, int, Fraction)) and not isinstance(v_, bool) for v_ in (a, b)):
                raise err
            fr.vars[name] = X.add(X.mul(cond, to_node(a)), X.mul(X.add(X.ONE, X.neg(cond)), to_node(b)))

    # ------------------------------------------------------------ statements
    def exec_block(self, body, fr):
        for st in body:
            self.exec(st, fr)

    def exec(self, st, fr):
        h = self.hooks.get('stmt')
        if h is not None and h(self, st, fr):
            return
        self._exec(st, fr)
        h = self.hooks.get('post_stmt')
        if h is not None:
            h(self, st, fr)

    def _exec(self, st, fr):
        if isinstance(st, ast.Expr):
            if isinstance(st.value, ast.Constant):
                return
            self.eval(st.value, fr)
            return
        if isinstance(st, ast.Assign):
            v = self.eval(st.value, fr)
            for t in st.targets:
                self.assign(t, v, fr, st)
            return
        if isinstance(st, ast.AnnAssign):
            if st.value is not None:
                self.assign(st.target, self.eval(st.value, fr), fr, st)
            return
        if isinstance(st, ast.AugAssign):
            cur = self.eval(_as_load(st.target), fr)
            rhs = self.eval(st.value, fr)
            if isinstance(cur, ArrBox):
                r_ = self.binop(st.op, cur.v, unbox(rhs), st, fr)
                cur.v = unbox(r_)                # the array object itself changes: every name / container entry bound to it sees the new content
                return
            v = self.binop(st.op, cur, rhs, st, fr)
            self.assign(st.target, v, fr, st)
            return
        if isinstance(st, ast.Return):
            raise ReturnSignal(self.eval(st.value, fr) if st.value is not None else None)
        if isinstance(st, ast.Pass):
            return
        if isinstance(st, ast.If):
            h = self.hooks.get('if_test')
            c = h(self, st, fr) if h is not None else None
            if c is None:
                cv = self.eval(st.test, fr)
                try:
                    c = self.truth(cv, st, fr)
                except AnalysisError as ex:
                    # a data-dependent test nobody decides, whose arms only assign pure expressions to local scalars (a running maximum, a clamp, a sign choice):
                    # both arms are evaluated and every assigned name becomes  mask * value_then + (1 - mask) * value_else  (statement-level if-conversion)
                    if 'branch on a symbolic condition' not in str(ex) or not isinstance(unbox(cv), Node) or not self._simple_arms(st):
                        raise
                    self._if_convert(st, unbox(cv), fr, ex)
                    return
            self.exec_block(st.body if c else st.orelse, fr)
            return
        if isinstance(st, ast.For):
            it = self.eval(st.iter, fr)
            if isinstance(it, range):
                it = list(it)
            if isinstance(it, dict):
                it = list(it.keys())
            if isinstance(it, Obj) and isinstance(it.attrs.get('__iter__'), (list, tuple)):
                it = list(it.attrs['__iter__'])          # object whose class defines __iter__ over a stored sequence (a world iterates its layers)
            if isinstance(it, set):
                it = sorted(it, key=repr)
            if isinstance(it, str):
                it = list(it)             # a string iterates over its characters
            if not isinstance(it, (list, tuple, PyIter)):
                raise AnalysisError(f'{fr.mod.where(st)}: for-loop over a non-constant iterable')
            if len(it) > self.max_unroll:
                raise AnalysisError(f'{fr.mod.where(st)}: loop trip count {len(it)} over the unroll bound')
            broke = False
            for v in it:
                self.assign(st.target, v, fr, st)
                try:
                    self.exec_block(st.body, fr)
                except BreakSignal:
                    broke = True; break
                except ContinueSignal:
                    continue
            if not broke:
                self.exec_block(st.orelse, fr)
            return
        if isinstance(st, ast.While):
            n = 0
            while self.truth(self.eval(st.test, fr), st, fr):
                n += 1
                if n > self.max_unroll:
                    raise AnalysisError(f'{fr.mod.where(st)}: while-loop exceeded the unroll bound')
                try:
                    self.exec_block(st.body, fr)
                except BreakSignal:
                    break
                except ContinueSignal:
                    continue
            return
        if isinstance(st, ast.Break): raise BreakSignal()
        if isinstance(st, ast.Continue): raise ContinueSignal()
        if isinstance(st, ast.Raise):
            raise RaiseSignal(st, ast.unparse(st)[:120])
        if isinstance(st, ast.Assert):
            return
        if isinstance(st, ast.With):
            # context managers that are modelled objects (files, pools) are bound to their `as` name and told when the block is left, on every way out
            cms = []
            for item in st.items:
                try:
                    v = self.eval(item.context_expr, fr)
                except AnalysisError:
                    if item.optional_vars is not None:
                        raise
                    v = None                      # an unmodelled manager nobody names (nogil, warnings.catch_warnings(), ...)
                if isinstance(v, Obj) and callable(v.attrs.get('__enter__')):
                    v = v.attrs['__enter__']() or v
                if item.optional_vars is not None:
                    self.assign(item.optional_vars, v, fr, st)
                cms.append(v)
            try:
                self.exec_block(st.body, fr)
            finally:
                for v in reversed(cms):
                    if isinstance(v, Obj) and callable(v.attrs.get('__exit__')):
                        v.attrs['__exit__']()
            return
        if isinstance(st, ast.Global):
            fr.globals_declared |= set(st.names); return
        if isinstance(st, ast.Nonlocal):
            fr.nonlocal_declared = getattr(fr, 'nonlocal_declared', set()) | set(st.names); return
        if isinstance(st, (ast.Import, ast.ImportFrom)):
            # an import inside a function binds the same object a module-level import would: registered with the module's import table (unless the name is already bound there)
            for a_ in st.names:
                if isinstance(st, ast.Import):
                    key_, val_ = (a_.asname or a_.name.split('.')[0]), ('mod', a_.name if a_.asname else a_.name.split('.')[0])
                else:
                    key_, val_ = (a_.asname or a_.name), ('from', fr.mod._abs_module(st.level, st.module), a_.name)
                if key_ not in fr.mod.imports and key_ not in fr.mod.defs:
                    fr.mod.imports[key_] = val_
            return
        if isinstance(st, ast.FunctionDef):
            fr.vars[st.name] = FuncRef(fr.mod, st, closure=fr); return
        if isinstance(st, ast.Delete):
            for t in st.targets:
                if isinstance(t, ast.Subscript):
                    base = self.eval(t.value, fr)
                    if isinstance(base, dict):
                        base.pop(self.index(t.slice, fr), None)
            return
        if isinstance(st, ast.Try):
            # Python semantics: handlers catch an interpreted `raise` whose exception class they name (or any, for a bare / Exception handler);
            # the finally body runs on every way out of the try (fall-through, raise, return, break, continue)
            try:
                try:
                    self.exec_block(st.body, fr)
                except RaiseSignal as sig:
                    raised = None
                    exc = getattr(sig.node, 'exc', None)
                    if isinstance(exc, ast.Call): exc = exc.func
                    if exc is not None: raised = ast.unparse(exc).split('.')[-1]
                    for h in st.handlers:
                        names = []
                        if h.type is not None:
                            names = [ast.unparse(t).split('.')[-1] for t in (h.type.elts if isinstance(h.type, ast.Tuple) else [h.type])]
                        if h.type is None or 'Exception' in names or 'BaseException' in names or raised is None or raised in names:
                            if h.name: fr.vars[h.name] = Opaque(f'exception {raised}')
                            self.exec_block(h.body, fr)
                            break
                    else:
                        raise
                else:
                    self.exec_block(st.orelse, fr)
            finally:
                self.exec_block(st.finalbody, fr)
            return
        raise AnalysisError(f'{fr.mod.where(st)}: unsupported statement {type(st).__name__}')

    def truth(self, v, st, fr):
        v = unbox(v)
        if isinstance(v, Node):
            c = concrete(v)
            if c is not None:
                return c != 0
            h = self.hooks.get('branch')
            if h is not None:
                r = h(self, st, v, fr)
                if r is not None:
                    if _HOOKLOG: print(f'HOOKLOG node {fr.mod.where(st)} `{ast.unparse(getattr(st, "test", st))[:90]}` -> {r}')
                    return r
            if v.op == 'cmp' and v.args[0] is v.args[1]:
                return {'>': False, '>=': True, '<': False, '<=': True, '==': True, '!=': False}[v.val]      # a value compared with itself
            if v.op == 'cmp':
                # sign domain: positive atoms against constants (argument-validation guards)
                from .regions import sign_of, POS, NEG, ZERO, NONNEG, NONPOS
                sg = sign_of(X.add(v.args[0], X.neg(v.args[1])))
                table = {POS: {'>': 1, '>=': 1, '<': 0, '<=': 0, '==': 0, '!=': 1}, NEG: {'>': 0, '>=': 0, '<': 1, '<=': 1, '==': 0, '!=': 1},
                         ZERO: {'>': 0, '>=': 1, '<': 0, '<=': 1, '==': 1, '!=': 0}, NONNEG: {'>=': 1, '<': 0}, NONPOS: {'<=': 1, '>': 0}}
                r = table.get(sg, {}).get(v.val)
                if r is not None:
                    return bool(r)
            h = self.hooks.get('fork')
            if h is not None:
                r = h(self, st, v, fr)
                if r is not None:
                    return r
            if v.op == 'cmp' and v.val in ('==', '!=') and v.args[0].op != 'const' and v.args[1].op != 'const' and concrete(v.args[0]) is None and concrete(v.args[1]) is None:
                # two different symbolic values compared for exact equality (a new input against a remembered one), nobody explores the arms: generic position, they differ
                return v.val == '!='
            raise AnalysisError(f'{fr.mod.where(st)}: branch on a symbolic condition `{ast.unparse(getattr(st, "test", st))[:80]}`')
        if isinstance(v, Opaque):
            h = self.hooks.get('branch')
            if h is not None:
                r = h(self, st, v, fr)
                if r is not None:
                    if _HOOKLOG: print(f'HOOKLOG opaque({v.name}) {fr.mod.where(st)} `{ast.unparse(getattr(st, "test", st))[:90]}` -> {r}')
                    return r
            h = self.hooks.get('fork')
            if h is not None and v.name.startswith('tolerance test'):
                r = h(self, st, v, fr)            # a predicate on data whose outcome is not determined by the symbolic state: both outcomes are explored
                if r is not None:
                    return r
            raise AnalysisError(f'{fr.mod.where(st)}: branch on an opaque condition `{ast.unparse(getattr(st, "test", st))[:80]}`')
        if isinstance(v, Arr):
            return True
        return bool(v)

    def assign(self, t, v, fr, st):
        if isinstance(t, ast.Name):
            if t.id in fr.globals_declared:
                self.module_state[(fr.mod.name, t.id)] = v
                return
            if t.id in getattr(fr, 'nonlocal_declared', ()) and fr.parent is not None:
                owner = fr.parent.lookup(t.id)
                if owner is not None:
                    owner.vars[t.id] = v
                    return
            cur = fr.vars.get(t.id)
            if isinstance(cur, Ref):
                cur.frame.vars[cur.name] = v
            else:
                fr.vars[t.id] = v
            return
        if isinstance(t, (ast.Tuple, ast.List)):
            if isinstance(v, Obj) and isinstance(v.attrs.get('__iter__'), (list, tuple)):
                v = list(v.attrs['__iter__'])
            if isinstance(v, (tuple, list)) and len(v) != len(t.elts) and not any(isinstance(x_, ast.Starred) for x_ in t.elts):
                # what Python does: ValueError (too many / not enough values to unpack)
                raise RaiseSignal(ast.copy_location(ast.Raise(exc=ast.Name(id='ValueError', ctx=ast.Load()), cause=None), st), f'ValueError: cannot unpack {len(v)} values into {len(t.elts)} targets')
            if not isinstance(v, (tuple, list)) or len(v) != len(t.elts):
                raise AnalysisError(f'{fr.mod.where(st)}: cannot unpack {type(v).__name__} into {len(t.elts)} targets')
            for tt, vv in zip(t.elts, v):
                self.assign(tt, vv, fr, st)
            return
        if isinstance(t, ast.Subscript):
            if isinstance(t.value, ast.Name) and isinstance(fr.vars.get(t.value.id), Ref):
                ref = fr.vars[t.value.id]
                if self.index(t.slice, fr) != 0:
                    raise AnalysisError('store through scalar pointer at non-zero index')
                ref.frame.vars[ref.name] = v
                return
            base = self.eval(t.value, fr)
            if isinstance(base, ArrBox) and (isinstance(t.slice, ast.Slice) or (isinstance(t.slice, ast.Constant) and t.slice.value is Ellipsis)
                                             or (isinstance(t.slice, ast.Tuple) and all(isinstance(x_, ast.Slice) or (isinstance(x_, ast.Constant) and x_.value is Ellipsis) for x_ in t.slice.elts))):
                base.v = unbox(v)              # x[...] = v / x[:] = v: the array object keeps its identity and takes the new content (every holder of it sees it)
                return
            idx = self.index(t.slice, fr)
            if isinstance(base, Arr):
                if isinstance(idx, slice):
                    tgt = arr_slice(base, idx, fr.mod.where(st))
                    if isinstance(v, (Vec, list, tuple)):
                        if len(v) != arr_len(tgt):
                            raise RaiseSignal(ast.copy_location(ast.Raise(exc=ast.Name(id='ValueError', ctx=ast.Load()), cause=None), st), f'ValueError: could not broadcast input array from shape ({len(v)},) into shape ({arr_len(tgt)},)')
                        vals = list(v)
                    else:
                        vals = [v.get(k_) for k_ in range(arr_len(tgt))] if isinstance(v, Arr) else [v] * arr_len(tgt)      # (read everything before the first store: source and target may overlap)
                    for k_, x_ in enumerate(vals):
                        tgt.set(k_, x_, st)
                else:
                    base.set(idx, v, st)
            elif isinstance(base, dict):
                base[idx] = v
            elif isinstance(base, list):
                base[idx] = v
            elif isinstance(base, Ref):
                if idx != 0:
                    raise AnalysisError('store through scalar pointer at non-zero index')
                base.frame.vars[base.name] = v
            else:
                raise AnalysisError(f'{fr.mod.where(st)}: subscript store into {type(base).__name__}')
            return
        if isinstance(t, ast.Attribute):
            base = self.eval(t.value, fr)
            if isinstance(base, Obj):
                base.attrs[t.attr] = v
                return
            raise AnalysisError(f'{fr.mod.where(st)}: attribute store into {type(base).__name__}')
        if isinstance(t, ast.Starred):
            raise AnalysisError('starred assignment')
        raise AnalysisError(f'{fr.mod.where(st)}: unsupported assignment target {type(t).__name__}')

    def index(self, sl, fr):
        if isinstance(sl, ast.Tuple):
            elts = sl.elts
            if self.hooks.get('drop_full_slices'):
                # "a scalar stands for the array": whole-axis slices `:` select everything along an axis the analysis has collapsed to one element
                kept = [e for e in elts if not (isinstance(e, ast.Slice) and e.lower is None and e.upper is None and e.step is None)]
                if len(kept) == 1 and len(elts) > 1:
                    return self._idx1(self.eval(kept[0], fr), fr, sl)
                elts = kept
            return tuple(self._idx1(self.eval(e, fr), fr, sl) for e in elts)
        return self._idx1(self.eval(sl, fr), fr, sl)

    def _idx1(self, v, fr, node):
        c = concrete(v)
        if c is not None:
            if isinstance(c, Fraction):
                raise AnalysisError(f'{fr.mod.where(node)}: non-integer index {c}')
            return int(c)
        if isinstance(v, (str, tuple)):
            return v
        if isinstance(v, slice):
            return v
        if isinstance(v, Obj):
            return v            # objects are dictionary keys by identity (e.g. world instance -> orbit index)
        raise AnalysisError(f'{fr.mod.where(node)}: symbolic index `{ast.unparse(node)[:60]}`')

    # ------------------------------------------------------------ expressions
    def eval(self, e, fr):
        v = self._eval(e, fr)
        if getattr(self, 'array_mode', False) and isinstance(v, Node) and isinstance(e, (ast.BinOp, ast.Call, ast.UnaryOp, ast.IfExp)) and concrete(v) is None:
            return ArrBox(v)             # a freshly computed array
        return v

    def _eval(self, e, fr):
        h = self.hooks.get('expr')
        if h is not None:
            r = h(self, e, fr)
            if r is not NotImplemented and r is not None:
                return r
        m = getattr(self, 'e_' + type(e).__name__, None)
        if m is None:
            raise AnalysisError(f'{fr.mod.where(e)}: unsupported expression {type(e).__name__}: {ast.unparse(e)[:80]}')
        return m(e, fr)

    def e_Constant(self, e, fr):
        v = e.value
        if isinstance(v, bool) or v is None or isinstance(v, (str, bytes)):
            return v
        if isinstance(v, int):
            return v
        if isinstance(v, float):
            # exact decimal value of the literal text
            return X.const(literal_fraction(fr.mod, e, v))
        if isinstance(v, complex):
            return X.mul(X.const(literal_fraction(fr.mod, e, v.imag)), X.I)
        if v is Ellipsis:
            return v
        raise AnalysisError(f'constant {v!r}')

    def e_Name(self, e, fr):
        n = e.id
        if n in fr.vars:
            v = fr.vars[n]
            if isinstance(v, Ref):
                return v.frame.vars[v.name]
            return v
        if fr.parent is not None:
            owner = fr.parent.lookup(n)
            if owner is not None:
                v = owner.vars[n]
                return v.frame.vars[v.name] if isinstance(v, Ref) else v
        return self.global_name(fr.mod, n, e)

    def global_name(self, mod, n, e=None):
        if n in ('True', 'False', 'None'):
            return {'True': True, 'False': False, 'None': None}[n]
        if (mod.name, n) in self.module_state:
            return self.module_state[(mod.name, n)]
        h = self.hooks.get('global')
        if h is not None:
            r = h(self, mod, n)
            if r is not None:
                return r
        r = self.repo.resolve(mod, n)
        if r is not None:
            if r[0] == 'def':
                m2, node = r[1], r[2]
                if isinstance(node, ast.FunctionDef):
                    return FuncRef(m2, node)
                if isinstance(node, ast.ClassDef):
                    return ('class', m2, node)
                key = (m2.name, n)
                if key not in self.module_const_cache:
                    rebinds_import = n in getattr(m2, 'imports', {}) or (isinstance(node, ast.Assign) and any(isinstance(x_, ast.Name) and x_.id == n and isinstance(x_.ctx, ast.Load) for x_ in ast.walk(node.value)))
                    if self.module_binding_count(m2, n) > 1 or rebinds_import:
                        self.module_const_cache[key] = self.module_value(m2, n)       # built by several top-level statements (a loop filling a list, then frozen into a tuple)
                    else:
                        val = node.value
                        self.module_const_cache[key] = self.eval(val, Frame(m2, '<module>'))
                return self.module_const_cache[key]
            if r[0] == 'module':
                return ModuleRef(r[1])
            if r[0] == 'external':
                return self.external(r[1], r[2])
        if n in ('range', 'len', 'int', 'float', 'complex', 'abs', 'max', 'min', 'tuple', 'list', 'dict', 'bool',
                 'isinstance', 'sum', 'enumerate', 'zip', 'print', 'str', 'round', 'type', 'pow', 'any', 'all', 'set',
                 'iter', 'next', 'sorted', 'reversed', 'map', 'filter', 'setattr', 'getattr', 'hasattr'):
            return Builtin(n)
        if n in ('sin', 'cos', 'tan', 'exp', 'sqrt', 'cbrt', 'log', 'fabs', 'pi', 'M_PI', 'NAN', 'INFINITY', 'isnan',
                 'isinf', 'tgamma', 'floor', 'ceil', 'pow', 'creal', 'cimag', 'cabs', 'csqrt', 'cexp', 'fmin', 'fmax', 'NULL',
                 'sizeof', 'copysign', 'hypot', 'prange', 'atan2', 'signbit', 'isfinite', 'log2', 'ldexp', 'frexp', 'DBL_MAX', 'DBL_MIN', 'DBL_EPSILON'):
            return self.external('libc.math', n)
        if n == '__cast__': return Builtin('__cast__')
        if n == '__carray__': return Builtin('__carray__')
        if n == '__addr__': return Builtin('__addr__')
        raise AnalysisError(f'{mod.rel()}: unresolved name {n}')

    @staticmethod
    def _stores(st):
        def root(x):
            while isinstance(x, (ast.Subscript, ast.Attribute)):
                x = x.value
            return x.id if isinstance(x, ast.Name) else None
        out = set()
        for n_ in ast.walk(st):
            if isinstance(n_, ast.Name) and isinstance(n_.ctx, (ast.Store, ast.Del)): out.add(n_.id)
            if isinstance(n_, ast.Call) and isinstance(n_.func, ast.Attribute) and n_.func.attr in ('append', 'extend', 'update', 'insert', 'add', 'setdefault', 'pop', 'popitem', 'clear', 'remove', 'sort', 'reverse', 'discard', '__setitem__', '__delitem__'):
                r_ = root(n_.func.value)          # registry[22].update(...) changes `registry`
                if r_: out.add(r_)
            if isinstance(n_, (ast.Subscript, ast.Attribute)) and isinstance(n_.ctx, (ast.Store, ast.Del)):
                r_ = root(n_.value)
                if r_: out.add(r_)
        return out

    def module_binding_count(self, mod, name):
        return sum(1 for st in mod.tree.body if not isinstance(st, (ast.FunctionDef, ast.ClassDef, ast.Import, ast.ImportFrom)) and name in self._stores(st))

    def module_value(self, mod, name):
        """value of a module-level name that several top-level statements build: the statements it depends on (transitively, by the names they bind) are executed in order"""
        body = [st for st in mod.tree.body if not isinstance(st, (ast.FunctionDef, ast.ClassDef, ast.Import, ast.ImportFrom))]
        need = {name}; chosen = set()
        changed = True
        while changed:
            changed = False
            for i_, st in enumerate(body):
                if i_ in chosen: continue
                if self._stores(st) & need:
                    chosen.add(i_); changed = True
                    need |= {n_.id for n_ in ast.walk(st) if isinstance(n_, ast.Name) and isinstance(n_.ctx, ast.Load)}
        fr = Frame(mod, '<module>')
        # a name that an import statement binds and a later top-level statement rebinds (`f = remember(f)`): the right-hand side reads the imported object
        for nm_ in sorted(need):
            if nm_ in getattr(mod, 'imports', {}) and nm_ in mod.defs:
                r_ = self.repo.resolve(mod, nm_, skip_defs=True)
                if r_ is not None and r_[0] == 'def' and isinstance(r_[2], ast.FunctionDef): fr.vars[nm_] = FuncRef(r_[1], r_[2])
                elif r_ is not None and r_[0] == 'def' and isinstance(r_[2], ast.ClassDef): fr.vars[nm_] = ('class', r_[1], r_[2])
                elif r_ is not None and r_[0] == 'def': fr.vars[nm_] = self.global_name(r_[1], nm_ if nm_ in r_[1].defs else mod.imports[nm_][2])
                elif r_ is not None and r_[0] == 'module': fr.vars[nm_] = ModuleRef(r_[1])
                elif r_ is not None and r_[0] == 'external': fr.vars[nm_] = self.external(r_[1], r_[2])
        for i_ in sorted(chosen):
            self.exec(body[i_], fr)
        if name not in fr.vars:
            raise AnalysisError(f'{mod.rel()}: module-level name {name} is not bound by its top-level statements')
        return fr.vars[name]

    def external(self, base, nm):
        if nm in ('pi', 'M_PI'):
            return X.atom('pi', 'pos')
        if nm in ('NAN', 'nan'): return Opaque('nan')
        if nm in ('INFINITY', 'inf'): return Opaque('inf')
        if nm == 'NULL': return None
        if nm in ('DBL_MAX', 'DBL_MIN', 'DBL_EPSILON', 'EPS_100', 'MAX_STEP'):
            return X.atom(nm, 'pos')
        if base.startswith('scipy.constants') or base == 'scipy.constants':
            return X.atom('const_' + nm, 'pos')
        if 'cython_lapack' in base or 'cython_blas' in base:
            return Builtin(base + '.' + nm)          # kept qualified: clients treat every LAPACK/BLAS routine alike
        return Builtin(nm)

    def e_Attribute(self, e, fr):
        if isinstance(e.value, ast.Call) and isinstance(e.value.func, ast.Name) and e.value.func.id == 'super' and fr.cls is not None and fr.self_obj is not None:
            for b in self.bases_of(fr.cls):
                m = self.find_method(b, e.attr)
                if m:
                    return FuncRef(m[0], m[1], cls=m[2], bound=fr.self_obj)
            return (lambda *a, **k: None)        # base class outside the repository (object, CySolver, ...): no-op
        base = self.eval(e.value, fr)
        a = e.attr
        if a in ('__name__', '__qualname__') and isinstance(base, TypeTag):
            return base.name
        if a in ('__name__', '__qualname__') and isinstance(base, tuple) and base and base[0] == 'class':
            return base[2].name
        if a in ('__name__', '__qualname__') and isinstance(base, FuncRef):
            return base.node.name
        if a == '__doc__' and isinstance(base, FuncRef):
            return ast.get_docstring(base.node)
        if isinstance(base, Opaque):
            return Opaque(base.name + '.' + a)
        if isinstance(base, tuple) and len(base) == 3 and base[0] == 'class':
            m = self.find_method(base, a)
            if m is not None:
                decos = [ast.unparse(d) for d in m[1].decorator_list]
                if 'classmethod' in decos:
                    return FuncRef(m[0], m[1], cls=m[2], bound=base)
                return FuncRef(m[0], m[1], cls=m[2], bound=None)           # a plain function looked up on the class (staticmethod, or called with an explicit self)
            v_ = self.class_attr(base, a)
            if v_ is not NotImplemented:
                return v_
            if a == '__name__': return base[2].name
            raise RaiseSignal(ast.copy_location(ast.Raise(exc=ast.Name(id='AttributeError', ctx=ast.Load()), cause=None), e), f'AttributeError: type object {base[2].name!r} has no attribute {a!r}')
        if isinstance(base, Obj) and getattr(base, 'native', False) and a not in base.attrs:
            m = self.find_method(base.cls, a)
            if m is None:
                v_ = self.class_attr(base.cls, a)
                if v_ is not NotImplemented:
                    return v_
                if a == '__class__': return base.cls
                if a == '__dict__': return base.attrs
                raise RaiseSignal(ast.copy_location(ast.Raise(exc=ast.Name(id='AttributeError', ctx=ast.Load()), cause=None), e), f'AttributeError: {base.cls[2].name!r} object has no attribute {a!r}')
        if isinstance(base, Obj):
            if a in base.attrs or base.default is not None and base.cls is None:
                return base.get(a)
            if base.cls is not None:
                m = self.find_method(base.cls, a)
                if m is not None:
                    decos = [ast.unparse(d) for d in m[1].decorator_list]
                    if 'property' in decos:
                        return self.call(m[0], m[1], [], {}, self_obj=base, owner=m[2])
                    if 'staticmethod' in decos:
                        return FuncRef(m[0], m[1], cls=m[2], bound=None)
                    if 'classmethod' in decos:
                        return FuncRef(m[0], m[1], cls=m[2], bound=base.cls)
                    return FuncRef(m[0], m[1], cls=m[2], bound=base)
            return base.get(a)
        if isinstance(base, ModuleRef):
            d = base.dotted
            if d.split('.')[0] in ('numpy', 'math', 'cmath', 'np', 'scipy', 'libc'):
                return self.external(d, a)
            m = self.repo.module(d)
            if m is None:
                return self.external(d, a)
            return self.global_name(m, a)
        if isinstance(base, ArrBox):
            if a == 'copy': return (lambda *a_, **k_: ArrBox(base.v))          # a new array with the same content
            if a == 'fill':
                def fill(v_, base=base): base.v = to_node(v_)
                return fill
            if a in ('shape', 'size', 'ndim', 'dtype'): return Opaque('array.' + a)
            base = base.v
        if isinstance(base, Node) or isinstance(base, (int, Fraction)):
            b = to_node(base)
            if a == 'copy': return (lambda *a_, **k_: b)
            if a == 'real': return X.fn('real', b)
            if a == 'imag': return X.fn('imag', b)
            if a in ('conjugate', 'conj'): return Builtin('conj_of:' + str(b.uid))
            if a == 'ndim': return 0              # a number (what a 0-d array read back from disk holds)
            if a == 'shape': return ()
            if a == 'size': return 1
            if a == 'dtype': return Opaque('dtype:complex128' if may_be_complex(b) else 'dtype:float64')
            if a == 'item': return (lambda *a_, **k_: b)
        if isinstance(base, dict) and a in ('items', 'keys', 'values', 'get', 'pop', 'update', 'setdefault', 'copy'):
            return ('dictmethod', base, a)
        if isinstance(base, dict) and getattr(base, 'is_npz', False) and a in ('files', 'close', 'f'):
            # what numpy.load hands back for an .npz archive: a mapping with the list of its member names
            if a == 'files': return list(base.keys())
            if a == 'close': return (lambda *a_, **k_: None)
        if isinstance(base, list) and a in ('append',):
            return ('listmethod', base, a)
        if isinstance(base, set) and a in ('add', 'discard', 'remove', 'clear', 'update', 'copy', 'union', 'intersection', 'difference', 'issubset', 'issuperset', 'pop'):
            return getattr(base, a)          # Python's own set on concrete (hashable) elements
        if isinstance(base, Arr) and a == 'shape':
            if base.shape is None:
                raise AnalysisError(f'{fr.mod.where(e)}: shape of an array of unknown extent')
            return tuple(base.shape)
        if isinstance(base, Arr) and a == 'size' and base.shape is not None and all(isinstance(n_, int) for n_ in base.shape):
            n_tot = 1
            for n_ in base.shape: n_tot *= n_
            return n_tot
        if isinstance(base, Arr) and a in ('real', 'imag', 'size', 'copy', 'conj', 'T'):
            return ('arrattr', base, a)
        if isinstance(base, Builtin):
            return Builtin(base.name + '.' + a)
        if isinstance(base, str):
            return ('strmethod', base, a)
        if isinstance(base, Vec):
            two_d = bool(base) and all(isinstance(r_, Vec) for r_ in base)
            if a == 'size': return sum(len(r_) for r_ in base) if two_d else len(base)
            if a == 'shape': return (len(base), len(base[0])) if two_d else (len(base),)
            if a in ('flatten', 'ravel') and two_d: return (lambda *a_, **k_: Vec([v_ for r_ in base for v_ in r_]))
            if a in ('flatten', 'ravel', 'copy', 'tolist'): return (lambda *a_, **k_: Vec(base))
            if a == 'T':
                # transpose of a two-dimensional array (rows are Vecs); a one-dimensional array is its own transpose
                return Vec([Vec([base[i_][j_] for i_ in range(len(base))]) for j_ in range(len(base[0]))]) if two_d else base
            if a == 'reshape':
                def reshape(*shape, **k_):
                    shape = tuple(shape[0]) if len(shape) == 1 and isinstance(shape[0], (tuple, list)) else tuple(shape)
                    flat = [v_ for r_ in base for v_ in r_] if two_d else list(base)
                    dims = [concrete(to_node(n_)) if not isinstance(n_, int) else n_ for n_ in shape]
                    if any(n_ is None for n_ in dims):
                        raise AnalysisError(f'{fr.mod.where(e)}: reshape to a symbolic shape')
                    dims = [int(n_) for n_ in dims]
                    if -1 in dims:
                        known_ = 1
                        for n_ in dims:
                            if n_ != -1: known_ *= n_
                        dims[dims.index(-1)] = len(flat) // known_ if known_ else 0
                    tot_ = 1
                    for n_ in dims: tot_ *= n_
                    if tot_ != len(flat):
                        raise RaiseSignal(ast.Raise(exc=ast.Name(id='ValueError', ctx=ast.Load()), cause=None), f'ValueError(cannot reshape array of size {len(flat)} into shape {tuple(dims)})')
                    if len(dims) == 1: return Vec(flat)
                    if len(dims) == 2: return Vec([Vec(flat[i_ * dims[1]:(i_ + 1) * dims[1]]) for i_ in range(dims[0])])
                    raise AnalysisError(f'{fr.mod.where(e)}: reshape to {len(dims)} dimensions is not modelled')
                return reshape
            if a in ('argmin', 'argmax', 'min', 'max'):
                def pick(*a_, **k_):
                    cs = [concrete(to_node(v)) for v in base]
                    if any(c is None or isinstance(c, complex) for c in cs):
                        raise AnalysisError(f'{fr.mod.where(e)}: .{a}() of an array with symbolic elements')
                    best = (min if 'min' in a else max)(range(len(cs)), key=lambda i: (cs[i], -i if 'max' in a else i))
                    return best if a.startswith('arg') else base[best]
                return pick
            if a == 'sum':
                def total(*a_, **k_):
                    out = 0
                    for v in base: out = self.binop(ast.Add(), out, v)
                    return out
                return total
        if isinstance(base, (list, tuple)) and a in ('index', 'count'):
            return (lambda v, base=base, a=a: getattr(list(base), a)(v))
        raise AnalysisError(f'{fr.mod.where(e)}: attribute .{a} of {type(base).__name__}')

    def find_method(self, cls, name):
        """-> (mod, FunctionDef, owner class tuple) following single inheritance through resolvable bases"""
        _, mod, node = cls
        for st in node.body:
            if isinstance(st, ast.FunctionDef) and st.name == name:
                # prefer the getter when a property has getter + setter of the same name
                cands = [s2 for s2 in node.body if isinstance(s2, ast.FunctionDef) and s2.name == name]
                getter = next((c for c in cands if any(ast.unparse(d) == 'property' for d in c.decorator_list)), cands[0])
                return mod, getter, cls
        for b in self.bases_of(cls):
            m = self.find_method(b, name)
            if m: return m
        return None

    def construct(self, cls, args, kwargs, e, fr):
        """Python's own object construction for a class of the repository: a fresh instance, then __init__ (dataclass / NamedTuple fields are bound when there is none)"""
        _, cmod, cnode = cls
        obj = Obj(cls=cls, name=cnode.name.lower())
        obj.native = True
        m = self.find_method(cls, '__init__')
        if m is not None:
            self.call(m[0], m[1], list(args), dict(kwargs), self_obj=obj, owner=m[2])
            return obj
        fields = [(st.target.id, st.value) for st in cnode.body if isinstance(st, ast.AnnAssign) and isinstance(st.target, ast.Name)]
        if fields or args or kwargs:
            decos = [ast.unparse(d_.func if isinstance(d_, ast.Call) else d_).split('.')[-1] for d_ in cnode.decorator_list]
            bases = [ast.unparse(b_).split('.')[-1] for b_ in cnode.bases]
            if 'dataclass' not in decos and 'NamedTuple' not in bases:
                if args or kwargs:
                    raise RaiseSignal(ast.copy_location(ast.Raise(exc=ast.Name(id='TypeError', ctx=ast.Load()), cause=None), e), f'TypeError: {cnode.name}() takes no arguments')
                return obj
            kwargs = dict(kwargs); args = list(args)
            if len(args) > len(fields):
                raise RaiseSignal(ast.copy_location(ast.Raise(exc=ast.Name(id='TypeError', ctx=ast.Load()), cause=None), e), f'TypeError: {cnode.name}() takes {len(fields)} positional arguments but {len(args)} were given')
            for i_, (fn_, dflt) in enumerate(fields):
                if i_ < len(args): obj.attrs[fn_] = args[i_]
                elif fn_ in kwargs: obj.attrs[fn_] = kwargs.pop(fn_)
                elif dflt is not None: obj.attrs[fn_] = self.eval(dflt, Frame(cmod, '<class>'))
                else:
                    raise RaiseSignal(ast.copy_location(ast.Raise(exc=ast.Name(id='TypeError', ctx=ast.Load()), cause=None), e), f'TypeError: {cnode.name}() missing required argument {fn_!r}')
            if kwargs:
                raise RaiseSignal(ast.copy_location(ast.Raise(exc=ast.Name(id='TypeError', ctx=ast.Load()), cause=None), e), f'TypeError: {cnode.name}() got an unexpected keyword argument {next(iter(kwargs))!r}')
            if 'NamedTuple' in bases:
                obj.attrs['__iter__'] = tuple(obj.attrs[fn_] for fn_, _ in fields)
        return obj

    def class_attr(self, cls, name):
        """value of a class-level assignment `name = ...` (searched along the bases); NotImplemented when there is none"""
        todo = [cls]; seen = set()
        while todo:
            c = todo.pop(0)
            if id(c[2]) in seen: continue
            seen.add(id(c[2]))
            for st in c[2].body:
                if isinstance(st, ast.Assign) and any(isinstance(t_, ast.Name) and t_.id == name for t_ in st.targets):
                    return self.eval(st.value, Frame(c[1], '<class>'))
                if isinstance(st, ast.AnnAssign) and isinstance(st.target, ast.Name) and st.target.id == name and st.value is not None:
                    return self.eval(st.value, Frame(c[1], '<class>'))
            todo += self.bases_of(c)
        return NotImplemented

    def is_subclass(self, cls, other):
        todo = [cls]; seen = set()
        while todo:
            c = todo.pop(0)
            if c[2] is other[2]: return True
            if id(c[2]) in seen: continue
            seen.add(id(c[2]))
            todo += self.bases_of(c)
        return False

    def bases_of(self, cls):
        _, mod, node = cls
        out = []
        for b in node.bases:
            nm = b.id if isinstance(b, ast.Name) else (b.attr if isinstance(b, ast.Attribute) else None)
            if nm is None: continue
            r = self.repo.resolve(mod, nm)
            if r and r[0] == 'def' and isinstance(r[2], ast.ClassDef):
                out.append(('class', r[1], r[2]))
        return out

    def owner_of(self, cls, fnode):
        _, mod, node = cls
        if any(st is fnode for st in node.body): return cls
        for b in self.bases_of(cls):
            o = self.owner_of(b, fnode)
            if o: return o
        return None

    def e_UnaryOp(self, e, fr):
        v = unbox(self.eval(e.operand, fr))
        if isinstance(e.op, ast.USub):
            if isinstance(v, (int, Fraction)) and not isinstance(v, bool): return -v
            if isinstance(v, Opaque): return Opaque('arith')
            if isinstance(v, Vec):
                return type(v)([(-x_ if isinstance(x_, (int, Fraction)) and not isinstance(x_, bool) else X.neg(to_node(x_))) for x_ in v])
            return X.neg(to_node(v))
        if isinstance(e.op, ast.Invert) and isinstance(v, Vec):
            return Vec([(not x_) if isinstance(x_, bool) else X.add(X.ONE, X.neg(to_node(x_))) for x_ in v])        # ~mask
        if isinstance(e.op, ast.UAdd):
            return v
        if isinstance(e.op, ast.Not):
            if isinstance(v, Node):
                c = concrete(v)
                if c is None:
                    # `not <symbolic condition>`: decide the operand exactly as an `if <operand>:` would (hooks, sign domain, path forks) and negate;
                    # only an operand nothing can decide is kept as the mask 1 - v
                    probe = ast.copy_location(ast.If(test=e.operand, body=[], orelse=[]), e)
                    try:
                        return not self.truth(v, probe, fr)
                    except AnalysisError:
                        return X.add(X.ONE, X.neg(v))     # 1 - mask
                return not c
            if isinstance(v, Opaque):
                return not self.truth(v, ast.copy_location(ast.If(test=e.operand, body=[], orelse=[]), e), fr)
            return not self.truth(v, e, fr)
        raise AnalysisError('unary op')

    def e_BinOp(self, e, fr):
        # Cython casts / address-of rewritten by the front-end
        if isinstance(e.op, ast.Mult) and isinstance(e.left, ast.Call) and isinstance(e.left.func, ast.Name) and e.left.func.id == '__cast__':
            v = self.eval(e.right, fr)
            typ = e.left.args[0].value
            return self.cast(typ, v, fr, e)
        if isinstance(e.op, ast.Mult) and isinstance(e.left, ast.Name) and e.left.id == '__addr__':
            return self.addr(e.right, fr)
        return self.binop(e.op, self.eval(e.left, fr), self.eval(e.right, fr), e, fr)

    def cast(self, typ, v, fr, e):
        t = typ.replace(' ', '')
        if t.endswith('*'):
            # a freshly allocated heap block gets its extent from the byte count it was allocated with and the element type it is cast to
            if isinstance(v, Arr) and getattr(v, 'nbytes', None) is not None and v.extent is None:
                esz = c_sizeof(typ.strip()[:-1].strip())
                if esz:
                    v.extent = v.nbytes // esz
            return v
        if isinstance(v, (Node, Fraction)) and ('int' in t or 'size_t' in t or 'char' in t or 'long' in t) and 'double' not in t:
            c = concrete(v)
            if c is not None:
                return int(c)
            return v
        return v

    def addr(self, target, fr):
        if isinstance(target, ast.Name):
            v = fr.vars.get(target.id)
            if isinstance(v, (Arr, Obj)):
                return v
            if target.id not in fr.vars:
                fr.vars[target.id] = None
            return Ref(fr, target.id)
        if isinstance(target, ast.Subscript):
            base = self.eval(target.value, fr)
            if isinstance(base, Arr):
                idx = self.index(target.slice, fr)
                if base.dims and len(base.dims) > 1 and isinstance(idx, int):
                    return base.sub(idx)
                if isinstance(idx, tuple):
                    # &m[i][j] style handled as nested Subscript, tuple index means 2-d memoryview &a[i, j]
                    raise AnalysisError('address of tuple-indexed element')
                return base.view(idx)
            if isinstance(base, ('arr2d',).__class__) and False:
                pass
        if isinstance(target, ast.Attribute):
            return self.eval(target, fr)
        raise AnalysisError(f'{fr.mod.where(target)}: unsupported address-of `{ast.unparse(target)[:60]}`')

    def binop(self, op, a, b, e=None, fr=None):
        if (a is None or b is None) and not isinstance(a, (str, list, tuple)) and not isinstance(b, (str, list, tuple)):
            # Python: unsupported operand type(s) for NoneType
            node = ast.Raise(exc=ast.Name(id='TypeError', ctx=ast.Load()), cause=None)
            if e is not None: ast.copy_location(node, e)
            raise RaiseSignal(node, f'TypeError: unsupported operand type(s) for {type(op).__name__}: {"NoneType" if a is None else type(a).__name__} and {"NoneType" if b is None else type(b).__name__}')
        if isinstance(a, ArrBox) or isinstance(b, ArrBox):
            r_ = self.binop(op, unbox(a), unbox(b), e, fr)
            return ArrBox(r_) if isinstance(r_, (Node, int, Fraction)) and not isinstance(r_, bool) else r_
        # concrete integer / rational arithmetic stays concrete
        if isinstance(a, bool): a = int(a)
        if isinstance(b, bool): b = int(b)
        if isinstance(a, Vec) or isinstance(b, Vec):
            n = len(a) if isinstance(a, Vec) else len(b)
            if isinstance(a, Vec) and isinstance(b, Vec) and len(a) != len(b):
                raise AnalysisError(f'array length mismatch {len(a)} vs {len(b)}')
            vals = [self.binop(op, a[i] if isinstance(a, Vec) else a, b[i] if isinstance(b, Vec) else b, e, fr) for i in range(n)]
            def integral(v_): return isinstance(v_, IntVec) or (isinstance(v_, int) and not isinstance(v_, bool))
            if integral(a) and integral(b) and isinstance(op, (ast.Add, ast.Sub, ast.Mult, ast.FloorDiv, ast.Mod, ast.Pow)) and all(isinstance(v_, int) for v_ in vals):
                return IntVec([IntVec.wrap(v_) for v_ in vals])          # int64 result: numpy wraps without a warning
            return Vec(vals)
        if isinstance(a, (tuple, list)) and isinstance(b, (tuple, list)) and isinstance(op, ast.Add):
            return type(a)(list(a) + list(b))
        if isinstance(a, str) and isinstance(b, str) and isinstance(op, ast.Add):
            return a + b
        if isinstance(op, ast.Mult) and ((isinstance(a, (str, list, tuple)) and isinstance(b, int)) or (isinstance(b, (str, list, tuple)) and isinstance(a, int))):
            return a * b
        if isinstance(a, str) and isinstance(op, (ast.Add, ast.Mod)):
            return a
        if isinstance(a, (int, Fraction)) and isinstance(b, (int, Fraction)):
            if isinstance(op, ast.Add): return a + b
            if isinstance(op, ast.Sub): return a - b
            if isinstance(op, ast.Mult): return a * b
            if isinstance(op, ast.Div):
                if b == 0:
                    z_ = self.c_zero_division(e, fr)
                    if z_ is not None: return z_
                    raise AnalysisError('division by constant zero')
                r = Fraction(a) / Fraction(b)
                return X.const(r)
            if isinstance(op, ast.FloorDiv): return a // b
            if isinstance(op, ast.Mod): return a % b
            if isinstance(op, ast.Pow):
                if isinstance(b, int):
                    return a ** b if b >= 0 else X.const(Fraction(a) ** b)
            if isinstance(op, ast.LShift): return a << b
            if isinstance(op, ast.RShift): return a >> b
            if isinstance(op, ast.BitAnd): return a & b
            if isinstance(op, ast.BitOr): return a | b
        if isinstance(a, Opaque) or isinstance(b, Opaque):
            return Opaque('arith')
        if isinstance(a, Arr) or isinstance(b, Arr):
            h = self.hooks.get('array_binop')
            if h is not None:
                return h(self, op, a, b)
            na_ = arr_len(a) if isinstance(a, Arr) else None; nb_ = arr_len(b) if isinstance(b, Arr) else None
            n_ = na_ if na_ is not None else nb_
            if n_ is not None and (na_ in (None, n_)) and (nb_ in (None, n_)) and (not isinstance(a, Arr) or na_ is not None) and (not isinstance(b, Arr) or nb_ is not None):
                # element-wise arithmetic of 1-d arrays of known, equal length (or an array and a scalar): a fresh array
                out = Arr('tmp', shape=(n_,))
                for k_ in range(n_):
                    out.set(k_, self.binop(op, a.get(k_) if isinstance(a, Arr) else a, b.get(k_) if isinstance(b, Arr) else b, e, fr))
                out.writes.clear()
                return out
            raise AnalysisError('arithmetic on whole arrays is not modelled here')
        na, nb = to_node(a), to_node(b)
        if isinstance(op, ast.Add): return X.add(na, nb)
        if isinstance(op, ast.Sub): return X.add(na, X.neg(nb))
        if isinstance(op, ast.Mult): return X.mul(na, nb)
        if isinstance(op, ast.Div):
            if nb.op == 'const' and nb.val == 0:
                z_ = self.c_zero_division(e, fr)
                if z_ is not None: return z_
            return X.div(na, nb)
        if isinstance(op, ast.Pow): return X.power(na, nb)
        if isinstance(op, ast.FloorDiv):
            ca, cb = concrete(na), concrete(nb)
            if ca is not None and cb is not None:
                return ca // cb
        if isinstance(op, ast.Mod):
            ca, cb = concrete(na), concrete(nb)
            if ca is not None and cb is not None:
                return ca % cb
            return X.add(na, X.neg(X.mul(nb, X.fn('floor', X.div(na, nb)))))         # Python / numpy remainder: a - b floor(a / b)
        if isinstance(op, ast.FloorDiv):
            return X.fn('floor', X.div(na, nb))
        raise AnalysisError(f'unsupported operator {type(op).__name__} on symbolic values')

    def e_BoolOp(self, e, fr):
        if isinstance(e.op, ast.And):
            r = True
            for v in e.values:
                r = self.eval(v, fr)
                if isinstance(r, Node) and concrete(r) is None:
                    try:
                        if not self.truth(r, ast.If(test=v, body=[], orelse=[], lineno=getattr(v, 'lineno', 0)), fr):
                            return False
                        continue
                    except AnalysisError:
                        pass
                    # symbolic mask conjunction: product
                    rest = [self.eval(x, fr) for x in e.values[e.values.index(v) + 1:]]
                    out = r
                    for t in rest: out = X.mul(out, to_node(t))
                    return out
                if not self.truth(r, e, fr):
                    return r
            return r
        else:
            r = False
            for v in e.values:
                r = self.eval(v, fr)
                if isinstance(r, Node) and concrete(r) is None:
                    try:
                        if self.truth(r, ast.If(test=v, body=[], orelse=[], lineno=getattr(v, 'lineno', 0)), fr):
                            return True
                        r = False
                        continue
                    except AnalysisError:
                        raise AnalysisError(f'{fr.mod.where(e)}: symbolic `or`')
                if self.truth(r, e, fr):
                    return r
            return r

    def e_Compare(self, e, fr):
        left = self.eval(e.left, fr)
        result = True
        for op, rhs in zip(e.ops, e.comparators):
            right = self.eval(rhs, fr)
            r = self.compare(op, left, right, e, fr)
            if isinstance(r, Vec) and (isinstance(left, Vec) or isinstance(right, Vec)) and not isinstance(op, (ast.In, ast.NotIn, ast.Is, ast.IsNot)):
                if len(e.ops) > 1:
                    raise AnalysisError('chained comparison of arrays')
                return r                      # element-wise result (numpy)
            if isinstance(r, Node):
                c = concrete(r)
                if c is None:
                    if len(e.ops) > 1:
                        raise AnalysisError('chained symbolic comparison')
                    return r
                r = bool(c)
            if not r:
                return False
            left = right
        return result

    def compare(self, op, a, b, e, fr):
        if isinstance(op, (ast.Is, ast.IsNot)) and (isinstance(a, ArrBox) or isinstance(b, ArrBox)):
            same_ = a is b                  # identity of array OBJECTS: two arrays holding equal values are not the same object, an array is never a number
            return same_ if isinstance(op, ast.Is) else not same_
        a = unbox(a); b = unbox(b)
        if isinstance(a, TypeTag) or isinstance(b, TypeTag):
            if isinstance(op, (ast.Is, ast.Eq)): return a == b
            if isinstance(op, (ast.IsNot, ast.NotEq)): return not (a == b)
        if isinstance(op, ast.Is): return a is b or (a is None and b is None)
        if isinstance(op, ast.IsNot): return not (a is b or (a is None and b is None))
        if isinstance(op, ast.In): return a in b
        if isinstance(op, ast.NotIn): return a not in b
        if isinstance(a, Opaque) or isinstance(b, Opaque):
            return Opaque('cmp')
        if (isinstance(a, Vec) or isinstance(b, Vec)) and not isinstance(a, (str, tuple)) and not isinstance(b, (str, tuple)) and a is not None and b is not None:
            # numpy compares arrays element by element
            n_ = len(a) if isinstance(a, Vec) else len(b)
            if isinstance(a, Vec) and isinstance(b, Vec) and len(a) != len(b):
                raise AnalysisError('comparison of arrays of different lengths')
            return Vec([self.compare(op, a[i_] if isinstance(a, Vec) else a, b[i_] if isinstance(b, Vec) else b, e, fr) for i_ in range(n_)])
        if isinstance(op, (ast.Eq, ast.NotEq)) and (isinstance(a, (list, tuple)) or isinstance(b, (list, tuple)) or hasattr(a, 'nt_fields') or hasattr(b, 'nt_fields')) \
                and not isinstance(a, Vec) and not isinstance(b, Vec):
            # Python's structural equality of containers: a list never equals a tuple, a named tuple is a tuple, numbers compare by value
            r_ = self._struct_eq(a, b)
            return r_ if isinstance(op, ast.Eq) else not r_
        if isinstance(a, (str, type(None), tuple)) or isinstance(b, (str, type(None), tuple)):
            if isinstance(op, ast.Eq): return a == b
            if isinstance(op, ast.NotEq): return a != b
            raise AnalysisError('ordering comparison of non-numbers')
        sym = {ast.Lt: '<', ast.LtE: '<=', ast.Gt: '>', ast.GtE: '>=', ast.Eq: '==', ast.NotEq: '!='}[type(op)]
        ca, cb = concrete(a), concrete(b)
        if ca is not None and cb is not None:
            return {'<': ca < cb, '<=': ca <= cb, '>': ca > cb, '>=': ca >= cb, '==': ca == cb, '!=': ca != cb}[sym]
        return X.cmp(sym, to_node(a), to_node(b))

    def _struct_eq(self, a, b):
        def seq(v):
            if hasattr(v, 'nt_fields') and isinstance(getattr(v, 'attrs', {}).get('__iter__'), (list, tuple)): return ('tuple', list(v.attrs['__iter__']))
            if isinstance(v, Vec): return ('array', list(v))
            if isinstance(v, tuple): return ('tuple', list(v))
            if isinstance(v, list): return ('list', list(v))
            return None
        sa, sb = seq(a), seq(b)
        if sa is not None or sb is not None:
            if sa is None or sb is None or sa[0] != sb[0] or len(sa[1]) != len(sb[1]):
                return False
            return all(self._struct_eq(x_, y_) for x_, y_ in zip(sa[1], sb[1]))
        a = unbox(a); b = unbox(b)
        if isinstance(a, (str, type(None), bool)) or isinstance(b, (str, type(None), bool)):
            return a == b
        ca, cb = concrete(a) if isinstance(a, (Node, int, Fraction)) else None, concrete(b) if isinstance(b, (Node, int, Fraction)) else None
        if ca is not None and cb is not None:
            return ca == cb
        if isinstance(a, Node) and isinstance(b, Node):
            if a.uid == b.uid: return True
            raise AnalysisError('equality of containers holding different symbolic values')
        return a is b

    def e_IfExp(self, e, fr):
        c = self.truth(self.eval(e.test, fr), e, fr)
        return self.eval(e.body if c else e.orelse, fr)

    def _elts(self, elts, fr):
        out = []
        for x in elts:
            if isinstance(x, ast.Starred):
                v = self.eval(x.value, fr)
                if isinstance(v, Obj) and isinstance(v.attrs.get('__iter__'), (list, tuple)): v = v.attrs['__iter__']
                out.extend(list(v))
            else:
                out.append(self.eval(x, fr))
        return out

    def e_Tuple(self, e, fr): return tuple(self._elts(e.elts, fr))
    def e_List(self, e, fr): return self._elts(e.elts, fr)

    def e_Set(self, e, fr):
        out = []
        for v in self._elts(e.elts, fr):
            c = concrete(v) if isinstance(v, (Node, int, Fraction)) else None
            v = c if c is not None else v
            if not any(v is w or (not isinstance(v, Node) and not isinstance(w, Node) and v == w) for w in out):
                out.append(v)
        try:
            return set(out)
        except TypeError:
            return out            # unhashable members: kept as a duplicate-free list (membership tests and iteration behave alike)

    def e_NamedExpr(self, e, fr):
        v = self.eval(e.value, fr)
        self.assign(e.target, v, fr, e)
        return v

    def e_Dict(self, e, fr):
        d = {}
        for k, v in zip(e.keys, e.values):
            if k is None:                       # {**other, ...}
                other = self.eval(v, fr)
                if not isinstance(other, dict):
                    raise RaiseSignal(ast.copy_location(ast.Raise(exc=ast.Name(id='TypeError', ctx=ast.Load()), cause=None), e), f'TypeError: {type(other).__name__} object is not a mapping')
                d.update(other)
                continue
            kk = self.eval(k, fr)
            c = concrete(kk)
            if c is not None: kk = c
            if isinstance(kk, Node):
                raise AnalysisError('symbolic dict key')
            d[kk] = self.eval(v, fr)
        return d

    def e_Subscript(self, e, fr):
        if isinstance(e.value, ast.Name) and isinstance(fr.vars.get(e.value.id), Ref):
            ref = fr.vars[e.value.id]
            return ref.frame.vars[ref.name]
        base = self.eval(e.value, fr)
        if isinstance(base, Builtin) or (isinstance(base, tuple) and base and base[0] == 'class'):
            return base           # typing subscripts etc.
        idx = self.index(e.slice, fr)
        if isinstance(base, Arr):
            if base.dims and len(base.dims) > 1 and isinstance(idx, int):
                return base.sub(idx)
            if isinstance(idx, slice):
                return arr_slice(base, idx, fr.mod.where(e))
            return base.get(idx)
        if isinstance(base, (tuple, list, str)):
            try:
                return base[idx]
            except IndexError:
                raise RaiseSignal(ast.copy_location(ast.Raise(exc=ast.Name(id='IndexError', ctx=ast.Load()), cause=None), e), f'IndexError: {ast.unparse(e)[:60]}')
        if isinstance(base, Obj) and isinstance(base.attrs.get('__iter__'), (list, tuple)) and isinstance(idx, (int, slice)):
            return base.attrs['__iter__'][idx]
        if isinstance(base, dict):
            if idx not in base and self.hooks.get('keyerror_raises'):
                raise RaiseSignal(ast.copy_location(ast.Raise(exc=ast.Name(id='KeyError', ctx=ast.Load()), cause=None), e), f'KeyError: {idx!r}')
            if idx not in base:
                raise AnalysisError(f'{fr.mod.where(e)}: key {idx!r} not in dict literal')
            return base[idx]
        if isinstance(base, Ref):
            return base.frame.vars[base.name]
        if isinstance(base, ArrBox):
            base = base.v           # reading an element of an array that is represented by one generic element
        if isinstance(base, (Node, int, Fraction)):
            # numpy scalar-or-array polymorphism: indexing a symbolic "array" value -> same symbolic element
            h = self.hooks.get('index_scalar')
            if h is not None:
                return h(self, base, idx)
        raise AnalysisError(f'{fr.mod.where(e)}: subscript of {type(base).__name__}: {ast.unparse(e)[:60]}')

    def e_Slice(self, e, fr):
        return slice(self.eval(e.lower, fr) if e.lower else None, self.eval(e.upper, fr) if e.upper else None,
                     self.eval(e.step, fr) if e.step else None)

    def e_JoinedStr(self, e, fr):
        out = ''
        for v in e.values:
            if isinstance(v, ast.Constant):
                out += str(v.value)
            else:
                try:
                    val = self.eval(v.value, fr)
                except AnalysisError:
                    return '<fstring>'
                h = self.hooks.get('format')
                if h is not None:
                    spec = self.eval(v.format_spec, fr) if v.format_spec is not None else ''
                    out += h(self, val, spec, v.conversion)
                elif isinstance(val, (str, int)) and not isinstance(val, bool):
                    out += str(val)
                elif isinstance(val, tuple) and all(isinstance(t, int) for t in val):
                    out += str(val)
                else:
                    return '<fstring>'
        return out
    def e_Lambda(self, e, fr):
        # default values are evaluated when the lambda is created (early binding, `lambda layer=layer: ...`); free names are looked up in the live
        # defining frame when it is called (late binding)
        dflt = [self.eval(d_, fr) for d_ in e.args.defaults]
        return ('lambda', e, fr, dflt)

    def _iterable(self, it):
        if isinstance(it, range): return list(it)
        if isinstance(it, Obj) and isinstance(it.attrs.get('__iter__'), (list, tuple)): return list(it.attrs['__iter__'])
        if isinstance(it, dict): return list(it)
        return it

    def _comprehend(self, e, fr, emit):
        """generators left to right, each with its own conditions; the comprehension has its own scope that sees the enclosing frame"""
        sub = Frame(fr.mod, fr.fname, parent=fr.parent); sub.vars = dict(fr.vars)
        sub.cls = fr.cls; sub.self_obj = fr.self_obj

        def level(k):
            if k == len(e.generators):
                emit(sub); return
            g = e.generators[k]
            for v in self._iterable(self.eval(g.iter, sub)):
                self.assign(g.target, v, sub, e)
                if all(self.truth(self.eval(c, sub), ast.copy_location(ast.If(test=c, body=[], orelse=[]), e), sub) for c in g.ifs):
                    level(k + 1)
        level(0)

    def e_ListComp(self, e, fr):
        out = []
        self._comprehend(e, fr, lambda sub: out.append(self.eval(e.elt, sub)))
        return out

    def e_GeneratorExp(self, e, fr):
        return self.e_ListComp(e, fr)            # consumed once by every use the package makes of them (tuple(...), sum(...), join(...), any/all)

    def e_SetComp(self, e, fr):
        return set(self.e_ListComp(e, fr))

    def e_DictComp(self, e, fr):
        out = {}

        def emit(sub):
            k = self.eval(e.key, sub)
            c = concrete(k) if isinstance(k, Node) else None
            out[c if c is not None else k] = self.eval(e.value, sub)
        self._comprehend(e, fr, emit)
        return out

    # ------------------------------------------------------------ calls
    def e_Call(self, e, fr):
        f = self.eval(e.func, fr)
        args = []
        for a in e.args:
            if isinstance(a, ast.Starred):
                args.extend(self.eval(a.value, fr))
            else:
                args.append(self.eval(a, fr))
        kwargs = {}
        for k in e.keywords:
            if k.arg is None:
                kv = self.eval(k.value, fr)
                if not isinstance(kv, dict):
                    raise RaiseSignal(ast.copy_location(ast.Raise(exc=ast.Name(id='TypeError', ctx=ast.Load()), cause=None), e), f'TypeError: argument after ** must be a mapping, not {type(kv).__name__}')
                kwargs.update(kv)
            else:
                kwargs[k.arg] = self.eval(k.value, fr)
        return self.apply(f, args, kwargs, e, fr)

    def apply(self, f, args, kwargs, e, fr):
        h = self.hooks.get('call')
        if h is not None:
            r = h(self, f, args, kwargs, e, fr)
            if r is not NotImplemented:
                return r
        if isinstance(f, FuncRef) and f.node.name == 'cf_build_dblcmplx' and len(args) == 2:
            # type-punning constructor (re at slot 0, im at slot 1; checked structurally by C20): modelled as re + i*im
            if any(isinstance(a, Opaque) for a in args):
                return Opaque('complex(' + ','.join(a.name if isinstance(a, Opaque) else 'fin' for a in args) + ')')
            return X.add(to_node(args[0]), X.mul(to_node(args[1]), X.I))
        if isinstance(f, FuncRef):
            self.trace_calls.append((fr.mod.where(e) if e is not None else '', f.node.name))
            memo_deco = None
            for d_ in f.node.decorator_list:
                dn_ = ast.unparse(d_.func if isinstance(d_, ast.Call) else d_).split('.')[-1]
                if dn_ in ('lru_cache', 'cache'):
                    memo_deco = d_
            if memo_deco is not None:
                # functools memoisation is part of the function's behaviour: equal arguments give the very same object back
                def hk(v_):
                    c_ = concrete(v_)
                    if c_ is not None: return ('c', c_)
                    if isinstance(v_, Node): return ('n', v_.uid)
                    if isinstance(v_, (str, bool, type(None))): return ('v', v_)
                    if isinstance(v_, tuple): return ('t',) + tuple(hk(x_) for x_ in v_)
                    return ('id', id(v_))
                key_ = (id(f.node), tuple(hk(a_) for a_ in args), tuple(sorted((k_, hk(v_)) for k_, v_ in kwargs.items())))
                table = self.__dict__.setdefault('_functools_memo', {})
                maxsize = None
                if isinstance(memo_deco, ast.Call):
                    for kw_ in memo_deco.keywords:
                        if kw_.arg == 'maxsize' and isinstance(kw_.value, ast.Constant): maxsize = kw_.value.value
                    if memo_deco.args and isinstance(memo_deco.args[0], ast.Constant): maxsize = memo_deco.args[0].value
                elif ast.unparse(memo_deco).split('.')[-1] == 'lru_cache':
                    maxsize = 128
                if key_ in table:
                    return table[key_]
                r_ = self.call(f.mod, f.node, args, kwargs, self_obj=f.bound, owner=f.cls if f.bound is not None else None, closure=f.closure)
                if isinstance(maxsize, int):
                    mine = [k_ for k_ in table if k_[0] == id(f.node)]
                    while len(mine) >= max(maxsize, 1):
                        table.pop(mine.pop(0))
                table[key_] = r_
                return r_
            return self.call(f.mod, f.node, args, kwargs, self_obj=f.bound, owner=f.cls if f.bound is not None else None, closure=f.closure)
        if isinstance(f, Opaque):
            return Opaque(f.name + '()')
        if callable(f) and not isinstance(f, (FuncRef, Builtin)):
            return f(*args, **kwargs)
        if isinstance(f, Builtin):
            return self.builtin(f.name, args, kwargs, e, fr)
        if isinstance(f, tuple) and f and f[0] == 'dictmethod':
            d, a = f[1], f[2]
            if a == 'items': return list(d.items())
            if a == 'keys': return list(d.keys())
            if a == 'values': return list(d.values())
            if a == 'get': return d.get(args[0], args[1] if len(args) > 1 else None)
            if a == 'pop':
                if args[0] in d or len(args) > 1: return d.pop(*args)
                raise RaiseSignal(e, f'KeyError({args[0]!r})')
            if a == 'update':
                d.update(*args, **kwargs); return None
            if a == 'setdefault': return d.setdefault(*args)
            if a == 'copy': return dict(d)
        if isinstance(f, tuple) and f and f[0] == 'listmethod':
            f[1].append(args[0]); return None
        if isinstance(f, tuple) and f and f[0] == 'lambda':
            lam, lfr = f[1], f[2]
            sub = Frame(lfr.mod, '<lambda>', parent=lfr.parent); sub.vars = dict(lfr.vars)
            dflt = f[3] if len(f) > 3 else []
            params = lam.args.args
            for p, v in zip(params[len(params) - len(dflt):], dflt): sub.vars[p.arg] = v
            for p, v in zip(params, args): sub.vars[p.arg] = v
            for k_, v in kwargs.items(): sub.vars[k_] = v
            return self.eval(lam.body, sub)
        if isinstance(f, tuple) and f and f[0] == 'strmethod':
            s, a = f[1], f[2]
            if a == 'lower': return s.lower()
            if a == 'upper': return s.upper()
            if a == 'title': return s.title()
            if a == 'capitalize': return s.capitalize()
            if a == 'strip': return s.strip()
            if a == 'split': return s.split(*[x for x in args if isinstance(x, (str, int))])
            if a == 'startswith': return s.startswith(args[0])
            if a == 'endswith': return s.endswith(args[0])
            if a == 'replace': return s.replace(args[0], args[1])
            if a == 'join': return s.join(list(args[0]))
            if a in ('rstrip', 'lstrip'): return getattr(s, a)(*args)
            if a in ('isdigit', 'isalpha', 'isalnum', 'isspace'): return getattr(s, a)()
            if a in ('rsplit', 'partition', 'rpartition', 'splitlines', 'find', 'rfind', 'count', 'index', 'zfill', 'ljust', 'rjust', 'center'):
                return getattr(s, a)(*args)
            if a == 'format': return s.format(*args, **kwargs)
        if isinstance(f, tuple) and f and f[0] == 'class':
            hc = self.hooks.get('construct')
            if hc is not None:
                return hc(self, f, args, kwargs, e, fr)
            return self.construct(f, args, kwargs, e, fr)
        if isinstance(f, Obj) and isinstance(getattr(f, 'cls', None), tuple) and f.cls and f.cls[0] == 'class':
            m_ = self.find_method(f.cls, '__call__')          # an instance of a repository class that defines __call__
            if m_:
                return self.call(m_[0], m_[1], args, kwargs, self_obj=f, owner=m_[2])
        raise AnalysisError(f'{fr.mod.where(e) if (fr is not None and e is not None) else ""}: call of unsupported callee `{ast.unparse(e.func)[:60] if e is not None else f}` ({type(f).__name__})')

    def builtin(self, name, args, kwargs, e, fr):
        if args and isinstance(args[0], ArrBox) and name.split('.')[-1] in ('asarray', 'asanyarray', 'ascontiguousarray', 'atleast_1d', 'ravel', 'squeeze', 'reshape'):
            # numpy hands the very same array back (a view of it) unless a conversion is needed: no copy for an array that already has the requested type
            dt_ = kwargs.get('dtype', args[1] if len(args) > 1 and name.split('.')[-1].startswith('as') else None)
            if dt_ is None or 'complex' not in str(getattr(dt_, 'name', dt_)):
                return args[0]
        if any(isinstance(a_, ArrBox) for a_ in args) and name.split('.')[-1] not in ('type', 'isinstance', 'shape', 'ones_like', 'zeros_like', 'len'):
            args = [unbox(a_) for a_ in args]
        nm = name.split('.')[-1]
        if name.startswith('conj_of:'):
            return X.fn('conj', X.node_by_uid(int(name.split(':')[1])))
        if nm == '__carray__':
            dims = []
            for a in args[1:]:
                c = concrete(a)
                if not isinstance(c, int):
                    raise AnalysisError(f'{fr.mod.where(e)}: C array with a non-constant extent')
                dims.append(c)
            arr = Arr(f'carray<{args[0]}>{dims}')
            arr.dims = tuple(dims)
            ext = 1
            for dmn in dims: ext *= dmn
            arr.extent = ext
            return arr
        # ---- element-wise numpy / math functions that are plain arithmetic (scalars, or 1-d arrays element by element)
        if nm in _EW_FUNCS and args and all(is_num(a_) or isinstance(a_, (bool, Vec)) for a_ in args) and not isinstance(args[0], Arr):
            vecs = [a_ for a_ in args if isinstance(a_, Vec)]
            if vecs:
                n_ = len(vecs[0])
                if any(len(v_) != n_ for v_ in vecs):
                    raise AnalysisError(f'{fr.mod.where(e)}: array length mismatch in {nm}')
                return Vec([self.builtin(name, [a_[i_] if isinstance(a_, Vec) else a_ for a_ in args], kwargs, e, fr) for i_ in range(n_)])
            r_ = _EW_FUNCS[nm](self, [to_node(a_) if not isinstance(a_, bool) else X.const(int(a_)) for a_ in args], e, fr)
            if r_ is not NotImplemented:
                c_ = concrete(r_)
                return c_ if isinstance(c_, int) and all(isinstance(concrete(a_), int) for a_ in args) else r_
        if nm in ('isscalar',) and args:
            return is_num(args[0]) or isinstance(args[0], bool)
        if nm in ('ndim',) and args and (is_num(args[0]) or isinstance(args[0], Vec)):
            return 1 if isinstance(args[0], Vec) else 0
        if nm in ('atleast_1d', 'ravel', 'squeeze', 'flatten') and args and isinstance(args[0], Vec):
            return args[0]
        if nm == 'dot' and len(args) == 2 and all(isinstance(a_, Vec) for a_ in args) and len(args[0]) == len(args[1]):
            acc = 0
            for x_, y_ in zip(args[0], args[1]): acc = self.binop(ast.Add(), acc, self.binop(ast.Mult(), x_, y_, e, fr), e, fr)
            return acc
        if nm == 'fsum' and args and isinstance(args[0], (list, tuple)):
            acc = 0
            for x_ in args[0]: acc = self.binop(ast.Add(), acc, x_, e, fr)
            return acc
        if nm == 'full_like' and len(args) >= 2 and isinstance(args[0], Vec):
            return Vec([args[1] for _ in args[0]])
        if nm == 'full_like' and len(args) >= 2 and is_num(args[0]):
            return args[1]
        if nm == 'range':
            vals = []
            for a in args:
                c = concrete(a)
                if c is None or isinstance(c, Fraction):
                    raise AnalysisError(f'{fr.mod.where(e)}: range() with a non-constant bound')
                vals.append(int(c))
            return range(*vals)
        if nm == 'len':
            a = args[0]
            if isinstance(a, (tuple, list, dict, str, set, frozenset, range)): return len(a)
            if isinstance(a, Arr) and a.shape: return a.shape[0]
            raise AnalysisError('len of symbolic object')
        if nm == 'issubdtype' and len(args) == 2:
            d0 = args[0].name if isinstance(args[0], Opaque) else str(getattr(args[0], 'name', args[0]))
            k0 = str(getattr(args[1], 'name', args[1])).split('.')[-1]
            if d0.startswith('dtype:'):
                kind = d0.split(':')[1]
                table = {'number': True, 'inexact': True, 'floating': kind.startswith('float'), 'complexfloating': kind.startswith('complex'), 'integer': False, 'bool_': False,
                         'float64': kind == 'float64', 'complex128': kind == 'complex128'}
                if k0 in table: return table[k0]
            raise AnalysisError(f'np.issubdtype({d0}, {k0}) is not modelled')
        if nm in ('float', 'float64') and args and isinstance(unbox(args[0]), Node) and may_be_complex(unbox(args[0])):
            # float() raises TypeError for a complex number; np.float64(z) keeps the real part (and only warns)
            if nm == 'float':
                raise RaiseSignal(ast.copy_location(ast.Raise(exc=ast.Name(id='TypeError', ctx=ast.Load()), cause=None), e) if e is not None else ast.Raise(exc=ast.Name(id='TypeError', ctx=ast.Load()), cause=None),
                                  "TypeError: float() argument must be a string or a real number, not 'complex'")
            return X.fn('real', unbox(args[0]))
        if nm in ('float', 'complex128', 'float64', 'asarray', 'array', 'ascontiguousarray', 'copy', '__cast__'):
            if nm == '__cast__':
                return Builtin('__cast__')
            if nm in ('asarray', 'array') and isinstance(args[0], (list, tuple)) and not isinstance(args[0], Vec) and all(is_num(v) for v in args[0]):
                return Vec(args[0])
            return args[0]
        if nm == 'int':
            c = concrete(args[0])
            if c is None: raise AnalysisError('int() of symbolic value')
            return int(c)
        if nm == 'bool':
            return self.truth(args[0], e, fr)
        if nm == 'complex':
            re_ = to_node(args[0]); im = to_node(args[1]) if len(args) > 1 else X.ZERO
            return X.add(re_, X.mul(im, X.I))
        if nm in ('tuple', 'list'):
            if not args:
                return () if nm == 'tuple' else []
            return tuple(args[0]) if nm == 'tuple' else list(args[0])
        if nm == 'dict':
            return dict(kwargs) if not args else dict(args[0])
        if nm in ('set', 'frozenset'):
            if not args: return set()
            try:
                return set(self._iterable(seq(args[0])))
            except TypeError:
                raise AnalysisError(f'{nm}() of unhashable / symbolic elements')
        if nm in ('zeros_like', 'ones_like') and args and isinstance(args[0], Vec):
            return Vec([X.ZERO if nm == 'zeros_like' else X.ONE for _ in args[0]])
        if nm == 'linspace':
            n = args[2] if len(args) > 2 else kwargs.get('num')
            n = concrete(n)
            if not isinstance(n, int) or n < 2:
                raise AnalysisError('linspace with a non-constant point count')
            a0, a1 = to_node(args[0]), to_node(args[1])
            if kwargs.get('endpoint', True) is False:
                return Vec([X.add(a0, X.mul(X.const(Fraction(k, n)), X.add(a1, X.neg(a0)))) for k in range(n)])
            return Vec([X.add(a0, X.mul(X.const(Fraction(k, n - 1)), X.add(a1, X.neg(a0)))) for k in range(n)])
        if nm == 'concatenate':
            out = Vec()
            for v in args[0]:
                out.extend(v)
            return out
        if nm in ('asarray', 'array') and args and isinstance(args[0], (list, tuple)):
            return Vec(args[0])
        if nm == 'deepcopy':
            import copy as _copy
            return _deepcopy(args[0])
        if nm in ('zeros_like',):
            return X.ZERO if not isinstance(args[0], Arr) else Arr('zeros', default=lambda k: X.ZERO)
        if nm in ('ones_like',):
            return X.ONE
        if nm == 'empty_like' and args and isinstance(args[0], Arr):
            return Arr('empty_like', default=None, shape=args[0].shape)
        if nm in ('zeros', 'empty', 'full'):
            shp = args[0] if args else None
            if isinstance(shp, int): shp = (shp,)
            if isinstance(shp, list): shp = tuple(shp)
            if not (isinstance(shp, tuple) and all(isinstance(v, int) for v in shp)): shp = None
            return Arr(nm, default=(lambda k: X.ZERO) if nm == 'zeros' else None, shape=shp)
        if nm == 'prange':
            return self.builtin('range', args, kwargs, e, fr)
        if (nm in UNARY_FUNCS or nm in NP_ALIASES) and args and isinstance(args[0], Vec):
            return Vec([self.builtin(name, [v], kwargs, e, fr) for v in args[0]])
        if (nm in UNARY_FUNCS or nm in NP_ALIASES) and args and isinstance(args[0], Arr):
            base = args[0]
            t = NP_ALIASES.get(nm, nm)
            if t in ('real', 'imag'):
                return ArrPart(base, t)          # a view: stores through it reach the source array
            return Arr(f'{t}({base.name})', default=lambda k, b=base, t=t: X.fn(t, to_node(b.get(k))), shape=base.shape)
        if (nm in UNARY_FUNCS or nm in NP_ALIASES) and args and isinstance(args[0], Opaque) and args[0].name in ('inf', 'nan', 'arith'):
            return Opaque('arith')            # a function of an infinity / NaN / unknown stays unknown
        if nm in UNARY_FUNCS:
            return X.fn(nm, to_node(args[0]))
        if nm in NP_ALIASES:
            a = to_node(args[0])
            t = NP_ALIASES[nm]
            return X.fn(t, a)
        if nm in ('round', 'around', 'round_') and args and is_num(args[0]):
            # rounding to a fixed number of decimals: exact on concrete numbers, otherwise an uninterpreted function of its argument (it is NOT the identity: an absolute
            # rounding loses the digits of small values)
            c_ = concrete(args[0])
            nd_ = kwargs.get('decimals', args[1] if len(args) > 1 else 0)
            cn_ = concrete(nd_) if nd_ is not None else 0
            if c_ is not None and isinstance(cn_, int):
                return Fraction(round(Fraction(c_) * 10 ** cn_), 10 ** cn_) if cn_ != 0 else int(round(Fraction(c_)))
            r_ = X.fn('round', to_node(args[0]), to_node(nd_ if nd_ is not None else 0))
            return ArrBox(r_) if isinstance(args[0], ArrBox) else r_
        if nm == 'abs':
            a = args[0]
            if isinstance(a, (int, Fraction)): return abs(a)
            return X.fn('abs', to_node(a))
        if nm == 'pow':
            return X.power(to_node(args[0]), to_node(args[1]))
        if nm in ('mod', 'remainder') and len(args) == 2 and all(is_num(a_) for a_ in args):
            return self.binop(ast.Mod(), args[0], args[1], e, fr)
        if nm in ('max', 'min', 'amax', 'amin', 'nanmax', 'nanmin') and len(args) == 1 and isinstance(args[0], Vec) and len(args[0]) >= 1 and all(is_num(v_) for v_ in args[0]):
            # a reduction over a whole (small) array: the largest / smallest element
            acc = args[0][0]
            for v_ in list(args[0])[1:]:
                acc = self.builtin('max' if 'max' in nm else 'min', [acc, v_], {}, e, fr)
            return acc
        if nm in ('max', 'min', 'amax', 'amin') and len(args) == 1 and is_num(args[0]):
            return args[0]                  # np.max of a number (a 0-d array) is that number
        if nm in ('max', 'min', 'fmax', 'fmin', 'maximum', 'minimum') and len(args) >= 2 and all(is_num(a) for a in args):
            cs = [concrete(a) for a in args]
            if all(c is not None for c in cs):
                return (max if 'max' in nm else min)(cs)
            return X.fn('max' if 'max' in nm else 'min', *[to_node(a) for a in args])
        if nm == 'tgamma' or nm == 'gamma':
            return X.fn('gamma', to_node(args[0]))
        if nm in ('isnan', 'isinf', 'isfinite'):
            if args and concrete(args[0]) is not None:
                return nm == 'isfinite'
            return Opaque(nm)
        if nm == 'isinstance':
            if len(args) == 2 and (isinstance(args[0], ArrBox) or (getattr(self, 'array_mode', False) and isinstance(args[0], Node) and concrete(args[0]) is None)):
                names = [getattr(t_, 'name', '') for t_ in (args[1] if isinstance(args[1], (tuple, list)) else [args[1]])]
                if any(str(n_).split('.')[-1] == 'ndarray' for n_ in names):
                    return True
                if names and all(str(n_).split('.')[-1] in ('float', 'int', 'complex', 'bool', 'str', 'float64', 'floating', 'integer', 'Number', 'Real') for n_ in names):
                    return False          # an array is none of the scalar types
            if len(args) == 2 and args[0] is None:
                return False              # (NoneType is never among the types the repository tests for)
            if len(args) == 2 and not getattr(self, 'array_mode', False) and isinstance(args[0], (Node, Fraction)) and not isinstance(args[0], bool):
                # scalar mode: a symbolic number stands for a Python / numpy float
                names = [str(getattr(t_, 'name', t_)).split('.')[-1] for t_ in (args[1] if isinstance(args[1], (tuple, list)) else [args[1]])]
                if names and all(n_ in ('float', 'int', 'complex', 'bool', 'str', 'float64', 'floating', 'integer', 'Number', 'Real', 'ndarray', 'list', 'tuple', 'dict') for n_ in names):
                    return any(n_ in ('float', 'float64', 'floating', 'Number', 'Real') for n_ in names)
            if len(args) == 2 and isinstance(args[0], int) and not isinstance(args[0], bool):
                names = [str(getattr(t_, 'name', t_)).split('.')[-1] for t_ in (args[1] if isinstance(args[1], (tuple, list)) else [args[1]])]
                if names and all(n_ in ('float', 'int', 'complex', 'bool', 'str', 'float64', 'floating', 'integer', 'Number', 'Real', 'ndarray', 'list', 'tuple', 'dict') for n_ in names):
                    return any(n_ in ('int', 'integer', 'Number', 'Real') for n_ in names)
            if len(args) == 2 and isinstance(args[0], Obj) and isinstance(args[0].cls, tuple) and len(args[0].cls) == 3 and args[0].cls[0] == 'class':
                # an instance of a repository class (constructed by the interpreter or handed in by a harness with its class): decided by the class hierarchy
                cands = args[1] if isinstance(args[1], (tuple, list)) and not (len(args[1]) == 3 and args[1][0] == 'class') else [args[1]]
                if all(isinstance(c_, tuple) and len(c_) == 3 and c_[0] == 'class' for c_ in cands):
                    return any(self.is_subclass(args[0].cls, c_) for c_ in cands)
            if len(args) == 2 and (isinstance(args[0], (int, str, Fraction, Node, float)) or args[0] is None):
                cands = args[1] if isinstance(args[1], (tuple, list)) and not (len(args[1]) == 3 and args[1][0] == 'class') else [args[1]]
                if cands and all(isinstance(c_, tuple) and len(c_) == 3 and c_[0] == 'class' for c_ in cands):
                    return False          # a number, a string or None is not an instance of a repository class
            return Opaque('isinstance')
        if nm == 'type':
            a = args[0]
            if isinstance(a, int) and not isinstance(a, bool):
                return TypeTag('int')       # a concrete Python int (an index, a degree): `type(x) == int` holds; it is still not an array
            if isinstance(a, Obj) and isinstance(a.cls, tuple) and a.cls and a.cls[0] == 'class':
                return a.cls                # an instance of a repository class: its class
            if isinstance(a, ArrBox) or (getattr(self, 'array_mode', False) and isinstance(a, Node) and concrete(a) is None):
                return TypeTag('ndarray')   # array mode: every symbolic input stands for a numpy array (one generic element of it)
            return TypeTag('scalar' if isinstance(a, (Node, Fraction)) else type(a).__name__)
        if nm == 'print':
            return None
        if nm in ('any', 'all') and (isinstance(args[0], ArrBox) or is_num(args[0]) or isinstance(args[0], bool)):
            # one generic element stands for the array: any(x) / all(x) is `x != 0` for it (decided, or forked like any data-dependent test)
            a_ = unbox(args[0])
            if isinstance(a_, bool): return a_
            c_ = concrete(to_node(a_))
            if c_ is not None: return c_ != 0
            return self.truth(X.cmp('!=', to_node(a_), X.ZERO), e, fr)
        if nm in ('any', 'all') and args and isinstance(args[0], Arr):
            # a whole array of known (small) shape: element by element, short-circuiting like any / all do (each undecided element test is a fork)
            a_ = args[0]
            if a_.shape is None or not all(isinstance(n_, int) for n_ in a_.shape):
                raise AnalysisError(f'{fr.mod.where(e)}: np.{nm} of an array of unknown extent')
            import itertools as _it
            for idx in _it.product(*[range(n_) for n_ in a_.shape]):
                v_ = a_.get(idx if len(idx) > 1 else idx[0])
                if isinstance(v_, bool): t_ = v_
                else:
                    c_ = concrete(to_node(v_))
                    t_ = (c_ != 0) if c_ is not None else self.truth(X.cmp('!=', to_node(v_), X.ZERO), e, fr)
                if nm == 'any' and t_: return True
                if nm == 'all' and not t_: return False
            return nm == 'all'
        if nm in ('any', 'all'):
            vals = [self.truth(v, e, fr) for v in args[0]]
            return any(vals) if nm == 'any' else all(vals)
        def seq(v):
            # an object whose class defines __iter__ over a stored sequence iterates that sequence
            return list(v.attrs['__iter__']) if isinstance(v, Obj) and isinstance(v.attrs.get('__iter__'), (list, tuple)) else v
        if nm == 'where' and len(args) == 3 and all(is_num(a_) or isinstance(a_, bool) for a_ in args):
            c_ = args[0]
            cc = concrete(to_node(c_))
            if cc is not None:
                return args[1] if cc else args[2]
            cn = to_node(c_)
            return X.add(X.mul(cn, to_node(args[1])), X.mul(X.add(X.ONE, X.neg(cn)), to_node(args[2])))        # mask form: c a + (1 - c) b
        if nm in ('log10', 'log2') and len(args) == 1 and is_num(args[0]):
            return X.div(X.fn('log', to_node(args[0])), X.fn('log', X.const(10 if nm == 'log10' else 2)))
        if nm == 'square' and len(args) == 1 and is_num(args[0]):
            return X.mul(to_node(args[0]), to_node(args[0]))
        if nm in ('power', 'float_power') and len(args) == 2 and all(is_num(a_) for a_ in args):
            return self.binop(ast.Pow(), args[0], args[1], e, fr)
        if nm == 'clip' and len(args) == 3 and all(is_num(a_) for a_ in args):
            lo_ = X.fn('max', to_node(args[0]), to_node(args[1]))
            return X.fn('min', lo_, to_node(args[2]))
        if nm in ('mean', 'average') and len(args) == 1 and isinstance(args[0], (list, tuple)) and args[0]:
            tot = 0
            for v_ in args[0]: tot = self.binop(ast.Add(), tot, v_)
            return self.binop(ast.Div(), tot, len(args[0]))
        if nm == 'diff' and len(args) == 1 and isinstance(args[0], (list, tuple)):
            return Vec([self.binop(ast.Sub(), b_, a_) for a_, b_ in zip(list(args[0]), list(args[0])[1:])])
        if nm in ('allclose', 'isclose', 'array_equal', 'array_equiv') and len(args) >= 2:
            if args[0] is args[1]:
                return True
            ua_, ub_ = unbox(args[0]), unbox(args[1])
            if isinstance(ua_, Node) and isinstance(ub_, Node) and ua_.uid == ub_.uid:
                return True               # two arrays (or numbers) holding the same expression
            ca, cb = (concrete(a_) if isinstance(a_, (Node, int, Fraction)) and not isinstance(a_, bool) else None for a_ in args[:2])
            if ca is not None and cb is not None and ca == cb:
                return True
            if nm in ('array_equal', 'array_equiv'):
                return False              # exact equality of values that are not identically equal: generic position
            if nm == 'isclose' and all(is_num(a_) or isinstance(a_, ArrBox) for a_ in args[:2]):
                # element-wise by definition: |a - b| <= atol + rtol |b| (numpy's defaults 1e-5, 1e-8) -- a mask like any other comparison
                rtol = kwargs.get('rtol', args[2] if len(args) > 2 else Fraction(1, 10 ** 5)); atol = kwargs.get('atol', args[3] if len(args) > 3 else Fraction(1, 10 ** 8))
                if is_num(rtol) and is_num(atol):
                    a_, b_ = to_node(args[0]), to_node(args[1])
                    r_ = X.cmp('<=', X.fn('abs', X.add(a_, X.neg(b_))), X.add(to_node(atol), X.mul(to_node(rtol), X.fn('abs', b_))))
                    return ArrBox(r_) if any(isinstance(x_, ArrBox) for x_ in args[:2]) else r_
            return Opaque('tolerance test ' + nm)
        if nm in ('logical_not', 'logical_and', 'logical_or') and args and all(is_num(a_) or isinstance(a_, (bool, ArrBox)) for a_ in args):
            boxed = any(isinstance(a_, ArrBox) for a_ in args)
            vs = [unbox(a_) for a_ in args]
            if all(isinstance(v_, bool) for v_ in vs):
                return (not vs[0]) if nm == 'logical_not' else ((vs[0] and vs[1]) if nm == 'logical_and' else (vs[0] or vs[1]))
            ns = [to_node(v_) for v_ in vs]
            if nm == 'logical_not': r_ = X.add(X.ONE, X.neg(ns[0]))
            elif nm == 'logical_and': r_ = X.mul(ns[0], ns[1])
            else: r_ = X.add(X.add(ns[0], ns[1]), X.neg(X.mul(ns[0], ns[1])))
            return ArrBox(r_) if boxed else r_
        if nm == 'shape' and len(args) == 1:
            a_ = args[0]
            if isinstance(a_, ArrBox): return ('N',)           # array mode: every array lives on the one generic grid
            if a_ is None: return ()
            if isinstance(a_, Vec): return (len(a_),)
            if isinstance(a_, Arr) and a_.shape is not None: return tuple(a_.shape)
            if isinstance(a_, (Node, int, Fraction, float)): return ()
            if isinstance(a_, (list, tuple)): return (len(a_),)
        if nm in ('cumsum', 'cumprod') and args and isinstance(args[0], (list, tuple)):
            out = []; acc = 0 if nm == 'cumsum' else 1
            ints = isinstance(args[0], IntVec) or (bool(args[0]) and all(isinstance(v_, int) and not isinstance(v_, bool) for v_ in args[0]))
            for v in args[0]:
                acc = self.binop(ast.Add() if nm == 'cumsum' else ast.Mult(), acc, v)
                if ints: acc = IntVec.wrap(acc)            # integer input: the running value is an int64
                out.append(acc)
            return IntVec(out) if ints else Vec(out)
        if nm == 'prod' and args and isinstance(args[0], (list, tuple)):
            acc = 1
            ints = isinstance(args[0], IntVec) or (bool(args[0]) and all(isinstance(v_, int) and not isinstance(v_, bool) for v_ in args[0]))
            for v in args[0]:
                acc = self.binop(ast.Mult(), acc, v)
                if ints: acc = IntVec.wrap(acc)
            return acc
        if nm == 'arange' and args and all(isinstance(concrete(a_), int) for a_ in args) and not kwargs.get('dtype'):
            return IntVec(list(range(*[concrete(a_) for a_ in args])))
        if nm in ('getattr', 'hasattr') and len(args) >= 2 and isinstance(args[0], ModuleRef) and isinstance(args[1], str):
            m_ = self.repo.module(args[0].dotted)
            try:
                if m_ is None:
                    v = self.external(args[0].dotted, args[1])
                else:
                    v = self.global_name(m_, args[1])
                return True if nm == 'hasattr' else v
            except AnalysisError:
                if nm == 'hasattr': return False
                if len(args) > 2: return args[2]
                raise RaiseSignal(ast.copy_location(ast.Raise(exc=ast.Name(id='AttributeError', ctx=ast.Load()), cause=None), e), f'AttributeError: module {args[0].dotted} has no attribute {args[1]!r}')
        if nm in ('getattr', 'hasattr') and len(args) >= 2 and isinstance(args[0], FuncRef) and isinstance(args[1], str):
            # attributes every function object has
            table = {'__name__': args[0].node.name, '__qualname__': args[0].node.name, '__doc__': ast.get_docstring(args[0].node), '__module__': args[0].mod.name, '__wrapped__': None}
            if args[1] in table and (args[1] != '__wrapped__'):
                return True if nm == 'hasattr' else table[args[1]]
            if nm == 'hasattr': return False
            if len(args) > 2: return args[2]
            raise RaiseSignal(ast.copy_location(ast.Raise(exc=ast.Name(id='AttributeError', ctx=ast.Load()), cause=None), e), f'AttributeError: function has no attribute {args[1]!r}')
        if nm in ('setattr', 'getattr', 'hasattr') and args and isinstance(args[0], Obj) and isinstance(args[1], str):
            o, a_ = args[0], args[1]
            if nm == 'setattr':
                o.attrs[a_] = args[2]; return None
            try:
                probe = ast.copy_location(ast.Attribute(value=ast.Name(id='__obj__', ctx=ast.Load()), attr=a_, ctx=ast.Load()), e) if e is not None else ast.Attribute(value=ast.Name(id='__obj__', ctx=ast.Load()), attr=a_, ctx=ast.Load())
                sub = Frame(fr.mod, fr.fname, parent=fr); sub.vars['__obj__'] = o
                v = self.e_Attribute(probe, sub)
                return True if nm == 'hasattr' else v
            except AnalysisError:
                if nm == 'hasattr': return False
                if len(args) > 2: return args[2]
                raise
        if nm == 'iter':
            v = seq(args[0])
            return v if isinstance(v, PyIter) else PyIter(self._iterable(v))
        if nm == 'next':
            try:
                return next(args[0])
            except StopIteration:
                if len(args) > 1: return args[1]
                raise RaiseSignal(ast.copy_location(ast.Raise(exc=ast.Name(id='StopIteration', ctx=ast.Load()), cause=None), e), 'StopIteration')
        if nm in ('sorted', 'reversed'):
            v = list(self._iterable(seq(args[0])))
            if nm == 'reversed': return list(reversed(v))
            keyf = kwargs.get('key')
            def kf(x):
                y = self.apply(keyf, [x], {}, e, fr) if keyf is not None else x
                if isinstance(y, Opaque) and y.name in ('inf', 'nan'):
                    return float('inf')
                c = concrete(y) if isinstance(y, Node) else y
                if c is None and isinstance(y, Node):
                    raise AnalysisError(f'{fr.mod.where(e)}: sorting by a symbolic key')
                return c if c is not None else y
            return sorted(v, key=kf, reverse=bool(kwargs.get('reverse', False)))
        if nm == 'map':
            return [self.apply(args[0], list(t) if len(args) > 2 else [t], {}, e, fr) for t in (zip(*[self._iterable(seq(a)) for a in args[1:]]) if len(args) > 2 else self._iterable(seq(args[1])))]
        if nm == 'filter':
            return [t for t in self._iterable(seq(args[1])) if self.truth(self.apply(args[0], [t], {}, e, fr) if args[0] is not None else t, e, fr)]
        if nm == 'enumerate':
            return list(enumerate(seq(args[0]), *args[1:]))
        if nm == 'zip':
            return list(zip(*[seq(a_) for a_ in args]))
        if nm == 'sum':
            out = 0
            if isinstance(args[0], Arr) and arr_len(args[0]) is not None and kwargs.get('axis', args[1] if len(args) > 1 else 0) in (0, None, -1):
                args = [[args[0].get(k_) for k_ in range(arr_len(args[0]))]]
            for v in args[0]:
                out = self.binop(ast.Add(), out, v)
            return out
        if nm == 'finfo':
            return Obj(name='finfo', attrs={'eps': X.atom('float_eps', 'pos'), 'max': X.atom('float_max', 'pos'),
                                            'min': X.atom('float_min_neg', 'real'), 'tiny': X.atom('float_tiny', 'pos')})
        if nm == 'sizeof':
            t_ = args[0] if args and isinstance(args[0], str) else None
            sz = c_sizeof(t_) if t_ is not None else None
            return sz if sz is not None else Opaque('sizeof')
        if nm in ('floor', 'ceil'):
            c = concrete(args[0])
            if c is not None:
                import math
                return math.floor(c) if nm == 'floor' else math.ceil(c)
            if isinstance(args[0], Node):
                return X.fn(nm, args[0])          # an uninterpreted real function of its argument: nothing cancels against it unless it is the same term
            return Opaque(nm)
        if nm in ('isnan', 'isinf', 'isfinite') and args and concrete(args[0]) is not None:
            return nm == 'isfinite'
        if nm == 'log1p' and args and is_num(args[0]):
            return X.fn('log', X.ONE + to_node(args[0]))
        if nm == 'ldexp' and len(args) == 2 and is_num(args[0]) and is_num(args[1]):
            return to_node(args[0]) * X.fn('exp', to_node(args[1]) * X.fn('log', X.const(2)))
        if nm == 'frexp' and len(args) == 2 and is_num(args[0]) and isinstance(args[1], Ref):
            self._frexp_n = getattr(self, '_frexp_n', 0) + 1
            ex = X.atom(f'frexp_exponent_{self._frexp_n}')
            args[1].frame.vars[args[1].name] = ex
            return to_node(args[0]) * X.fn('exp', -ex * X.fn('log', X.const(2)))
        if nm == 'atan2' and len(args) == 2 and is_num(args[0]) and is_num(args[1]):
            return X.fn('atan2', to_node(args[0]), to_node(args[1]))
        if nm == 'copysign' and len(args) == 2 and is_num(args[0]) and is_num(args[1]):
            b_ = to_node(args[1])
            cb_ = concrete(b_)
            if cb_ is not None and not isinstance(cb_, complex):
                return X.fn('abs', to_node(args[0])) * (X.const(-1) if cb_ < 0 else X.ONE)       # copysign(a, 0.0) is +|a| (the zero of a difference is +0.0)
            # sign(b) away from zero; at b == 0 the sign bit decides, +0.0 for every zero that arithmetic produces: +|a| there (np.sign gives 0)
            return X.fn('abs', to_node(args[0])) * X.add(X.fn('sign', b_), X.cmp('==', b_, X.ZERO))
        if nm in ('spherical_jn', 'spherical_yn') and args and isinstance(concrete(args[0]), int) and len(args) >= 2 and is_num(args[1]):
            dflag = kwargs.get('derivative', args[2] if len(args) > 2 else False)
            if dflag in (True, False, 0, 1):
                return sph_bessel(nm, int(concrete(args[0])), to_node(args[1]), bool(dflag))
        if nm in ('spherical_jn', 'spherical_yn', 'jv', 'yv', 'erf', 'erfc', 'lgamma') and all(is_num(a) for a in args):
            return X.fn(nm, *[to_node(a) for a in args])        # uninterpreted special function
        raise AnalysisError(f'{fr.mod.where(e)}: unmodelled builtin `{name}`')


def sph_bessel(name, n, x, derivative=False):
    """spherical Bessel function of concrete integer order, written canonically over the two uninterpreted base functions f_0(x), f_1(x) through the three-term
    recurrence f_(k+1) = (2k+1)/x f_k - f_(k-1); the derivative through f_n' = (n/x) f_n - f_(n+1).  Expressions that are equal by the recurrences therefore have
    equal values in the identity test."""
    if n < 0 or n > 60:
        raise AnalysisError(f'{name} of order {n}')
    f0 = X.fn(name, X.const(0), x); f1 = X.fn(name, X.const(1), x)

    def order(k):
        a, b = f0, f1
        if k == 0: return a
        for j in range(1, k):
            a, b = b, (2 * j + 1) / x * b - a
        return b
    if derivative:
        return (n / x) * order(n) - order(n + 1) if n > 0 else -order(1)
    return order(n)


def _deepcopy(v):
    if isinstance(v, dict): return {k: _deepcopy(x) for k, x in v.items()}
    if isinstance(v, Vec): return Vec([_deepcopy(x) for x in v])
    if isinstance(v, list): return [_deepcopy(x) for x in v]
    if isinstance(v, tuple): return tuple(_deepcopy(x) for x in v)
    return v


def literal_fraction(mod, e, v):
    """exact decimal value of a float literal as typed in the source (all typed digits kept)"""
    try:
        lines = mod.parsed_lines
        if e.lineno == e.end_lineno:
            txt = lines[e.lineno - 1][e.col_offset:e.end_col_offset].replace('_', '')
            if txt and txt[-1] in 'jJ':
                txt = txt[:-1]
            fr_ = Fraction(txt)
            if float(fr_) == abs(v) or float(fr_) == v:
                return fr_
    except Exception:
        pass
    return Fraction(repr(v))


def _as_load(t):
    import copy
    t2 = copy.deepcopy(t)
    for n in ast.walk(t2):
        if hasattr(n, 'ctx'):
            n.ctx = ast.Load()
    return t2



class PathExplorer:
    """Depth-first enumeration of the outcomes of data-dependent branches (conditions neither constant nor decided by the sign domain).
    `run(fn)` calls fn(fork_hook) once per path; fork_hook is installed as the interpreter's 'fork' hook.  Each result is (trace, value) with
    trace = [(condition node, 'file:line', source text, outcome)].  A strict-inequality region of real-analytic quantities and its complement
    both have non-empty interior, so an algebraic identity demanded "for all inputs" must hold identically on each explored arm."""

    def __init__(self, max_paths=32):
        self.max_paths = max_paths

    def run(self, fn):
        pending = [[]]
        results = []
        while pending:
            prefix = pending.pop()
            trace = []

            def fork(it, st, v, fr, prefix=prefix, trace=trace):
                i = len(trace)
                where = fr.mod.where(st); txt = ast.unparse(st.test)[:80] if hasattr(st, 'test') else ast.unparse(st)[:80]
                if i < len(prefix):
                    out = prefix[i]
                else:
                    out = True
                    pending.append([t[3] for t in trace] + [False])
                trace.append((v, where, txt, out))
                return out
            val = fn(fork)
            results.append((trace, val))
            if len(results) > self.max_paths:
                raise AnalysisError(f'more than {self.max_paths} paths through data-dependent branches')
        return results

    @staticmethod
    def arm(v, outcome):
        """('open', None) for an arm with non-empty interior; ('equality', pins | None) for a measure-zero arm (x == 0, or the
        complement of |x| > 0): pins name the atoms that vanish there when that can be read off, else None (arm not decidable by PIT)."""
        from .regions import sign_of, NONNEG, NONPOS
        if isinstance(v, Node) and v.op != 'cmp' and concrete(v) is None:
            v = X.cmp('!=', v, X.ZERO)            # the truth value of a number: `if x:` is `if x != 0:`
        if not isinstance(v, Node) or v.op != 'cmp':
            return ('open', None)
        dlt = X.add(v.args[0], X.neg(v.args[1]))
        sg = sign_of(dlt)
        eqarm = (v.val == '==' and outcome) or (v.val == '!=' and not outcome) or \
                (sg == NONNEG and ((v.val == '>' and not outcome) or (v.val == '<=' and outcome))) or \
                (sg == NONPOS and ((v.val == '<' and not outcome) or (v.val == '>=' and outcome)))
        if not eqarm:
            return ('open', None)
        t = dlt
        while t.op == 'fn' and t.val in ('abs', 'abs2', 'sqrt') and len(t.args) == 1:
            t = t.args[0]
        if t.op == 'atom':
            return ('equality', {t.val[0]: 0})
        return ('equality', None)

    @staticmethod
    def label(trace):
        return '' if not trace else ' [path: ' + ' and '.join(f'{"" if o else "not "}({t})' for (_, _, t, o) in trace) + ']'
