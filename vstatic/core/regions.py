"""Region analysis for mask-sum (piecewise) kernels and a small sign domain.

A *ghost* assignment gives exact rational values to a few atoms ONLY for deciding comparisons (which region we are in);
the algebra stays symbolic in those atoms, so an identity shown with a ghost point holds on the whole region the ghost
point represents (all comparisons that involve only ghost atoms have constant truth value on that region).
"""
from __future__ import annotations
from fractions import Fraction as F
from . import expr as X
from .report import AnalysisError


def rat_eval(node, ghost, memo=None):
    """exact rational value of node when it depends only on ghost atoms; None otherwise"""
    memo = {} if memo is None else memo
    def ev(n):
        if n.uid in memo: return memo[n.uid]
        op = n.op; r = None
        if op == 'const': r = n.val
        elif op == 'atom': r = ghost.get(n.val[0])
        elif op in ('add', 'mul', 'div'):
            a, b = ev(n.args[0]), ev(n.args[1])
            if op == 'mul' and ((a is not None and a == 0) or (b is not None and b == 0)):
                r = F(0)
            elif a is not None and b is not None:
                if op == 'add': r = a + b
                elif op == 'mul': r = a * b
                elif b != 0: r = a / b
        elif op == 'powi':
            a = ev(n.args[0])
            if a is not None and (a != 0 or n.val > 0): r = a ** n.val
        elif op == 'fn' and n.val == 'abs':
            a = ev(n.args[0])
            if a is not None: r = abs(a)
        memo[n.uid] = r if r is None else F(r)
        return memo[n.uid]
    return ev(node)


def ghost_mask(ghost, fallback=None):
    """mask hook: comparisons whose two sides are rational under the ghost assignment are decided exactly;
    others go to fallback(node) -> 0/1/None"""
    def hook(node, pt=None):
        a = rat_eval(node.args[0], ghost); b = rat_eval(node.args[1], ghost)
        if a is not None and b is not None:
            return int({'<': a < b, '<=': a <= b, '>': a > b, '>=': a >= b, '==': a == b, '!=': a != b}[node.val])
        if fallback is not None:
            return fallback(node)
        return None
    return hook


def masks_in(node):
    out = []; seen = set(); st = [node]
    while st:
        x = st.pop()
        if x.uid in seen: continue
        seen.add(x.uid)
        if x.op == 'cmp': out.append(x)
        st.extend(x.args)
    return out


# ------------------------------------------------------------------ sign domain
POS, NEG, ZERO, NONNEG, NONPOS, UNK = '+', '-', '0', '>=0', '<=0', '?'


def _neg(s):
    return {POS: NEG, NEG: POS, ZERO: ZERO, NONNEG: NONPOS, NONPOS: NONNEG, UNK: UNK}[s]


def _add(a, b):
    if a == ZERO: return b
    if b == ZERO: return a
    if a == UNK or b == UNK: return UNK
    pa = a in (POS, NONNEG); pb = b in (POS, NONNEG)
    if pa and pb: return POS if POS in (a, b) else NONNEG
    if not pa and not pb: return NEG if NEG in (a, b) else NONPOS
    return UNK


def _mul(a, b):
    if a == ZERO or b == ZERO: return ZERO
    if a == UNK or b == UNK: return UNK
    strict = a in (POS, NEG) and b in (POS, NEG)
    pos = (a in (POS, NONNEG)) == (b in (POS, NONNEG))
    if pos: return POS if strict else NONNEG
    return NEG if strict else NONPOS


def _inv(a):
    return a if a in (POS, NEG) else UNK


def sign_of(node, facts=None, mask_hook=None, memo=None):
    """sign of a real-valued node given that 'pos' atoms are positive and facts {atom name: sign}"""
    facts = facts or {}; memo = {} if memo is None else memo
    def sg(n):
        if n.uid in memo: return memo[n.uid]
        op = n.op; r = UNK
        if op == 'const': r = POS if n.val > 0 else (NEG if n.val < 0 else ZERO)
        elif op == 'atom':
            r = facts.get(n.val[0], POS if n.val[1] == 'pos' else UNK)
        elif op == 'add': r = _add(sg(n.args[0]), sg(n.args[1]))
        elif op == 'mul': r = _mul(sg(n.args[0]), sg(n.args[1]))
        elif op == 'div': r = _mul(sg(n.args[0]), _inv(sg(n.args[1])))
        elif op == 'powi':
            b = sg(n.args[0])
            if n.val % 2 == 0:
                r = POS if b in (POS, NEG) else (ZERO if b == ZERO and n.val > 0 else NONNEG)
                if n.val < 0 and b not in (POS, NEG): r = UNK
            else:
                r = b if n.val > 0 else _inv(b)
        elif op == 'cmp':
            v = mask_hook(n) if mask_hook else None
            r = (POS if v else ZERO) if v is not None else NONNEG
        elif op == 'fn':
            nm = n.val
            if nm == 'exp': r = POS
            elif nm in ('sqrt', 'abs', 'abs2'):
                a = sg(n.args[0])
                r = POS if a in (POS, NEG) and nm != 'sqrt' else (POS if a == POS else (ZERO if a == ZERO else NONNEG))
            elif nm == 'cbrt': r = sg(n.args[0])
            elif nm == 'gamma': r = POS if sg(n.args[0]) == POS else UNK
            elif nm in facts: r = facts[nm]
        memo[n.uid] = r
        return r
    return sg(node)
