"""Expression DAG (the abstract value domain of the AlgAI interpreter) and its deciders.

A value is a hash-consed node over named atoms:  const | atom | add | mul | div | powi | fn(name, args) | cmp.
Equality of two values is decided by exact evaluation in GF(p^2) = GF(p)[I]/(I^2+1), p = 11 mod 12
(polynomial identity testing, Schwartz-Zippel): never flags a true identity of the modelled algebra, misses a
false one with probability <= deg/p per point.  Modelled algebra:
  * atoms declared real take values in GF(p); complex atoms take values in GF(p^2); I*I = -1, conj/real/imag
    act on the pair representation;
  * sqrt on "real" values uses the multiplicative square root x^((p+1)/4) on quadratic residues ("positive"),
    I*sqrt(-x) on non-residues ("negative"); abs/sign use the Legendre character; sampling is by rejection until
    every declared-positive expression is a residue;
  * cbrt is the unique cube root (p = 2 mod 3);
  * exp/sin/cos/tan take their argument as a Laurent polynomial over atoms; each monomial m gets a random base
    value for exp(m/D) (real) / exp(I m/D) (unit norm), so exp(a+b) = exp(a)exp(b) and all trigonometric
    identities hold automatically; pinned atoms (e.g. e := 0) are substituted into the argument first;
  * x**y with symbolic y is exp(y*log x) with log x an opaque atom of the canonical x.
A float evaluator over the same DAG gives human-readable residuals for diagnostics only.
"""
from __future__ import annotations
import cmath, math, os, random, time, zlib
from fractions import Fraction
from .report import AnalysisError

P = 2305843009213693967          # prime, = 11 mod 12
DEN = 5040                       # exp-monomial base is exp(m/DEN); coefficients must be multiples of 1/DEN

_table: dict = {}


class Node:
    __slots__ = ('op', 'args', 'val', 'uid', '_poly')

    def __init__(self, op, args, val, uid):
        self.op = op; self.args = args; self.val = val; self.uid = uid; self._poly = None

    def __repr__(self):
        return show(self)

    # arithmetic sugar
    def __add__(a, b): return add(a, lift(b))
    def __radd__(a, b): return add(lift(b), a)
    def __sub__(a, b): return add(a, neg(lift(b)))
    def __rsub__(a, b): return add(lift(b), neg(a))
    def __mul__(a, b): return mul(a, lift(b))
    def __rmul__(a, b): return mul(lift(b), a)
    def __truediv__(a, b): return div(a, lift(b))
    def __rtruediv__(a, b): return div(lift(b), a)
    def __neg__(a): return neg(a)
    def __pow__(a, n): return power(a, lift(n))


def _mk(op, args=(), val=None):
    key = (op, tuple(x.uid for x in args), val)
    n = _table.get(key)
    if n is None:
        n = Node(op, tuple(args), val, len(_table))
        _table[key] = n
    return n


def const(v):
    if isinstance(v, bool):
        v = int(v)
    if isinstance(v, float):
        v = Fraction(repr(v)) if math.isfinite(v) else v
    if isinstance(v, (int, Fraction)):
        return _mk('const', (), Fraction(v))
    if isinstance(v, complex):
        return add(const(v.real), mul(const(v.imag), I))
    raise AnalysisError(f'cannot lift constant {v!r}')


def lift(v):
    if type(v).__name__ == 'ArrBox':          # the interpreter's mutable array cell (array mode): its current content
        v = v.v
    return v if isinstance(v, Node) else const(v)


def atom(name, kind='real'):
    """kind: 'real' | 'complex' | 'pos' (real and positive: sampled as a quadratic residue)"""
    return _mk('atom', (), (name, kind))


I = _mk('I')
ZERO = const(0); ONE = const(1)


def is_const(n, v=None):
    return n.op == 'const' and (v is None or n.val == v)


def add(a, b):
    if a.op == 'const' and b.op == 'const':
        return const(a.val + b.val)
    if is_const(a, 0): return b
    if is_const(b, 0): return a
    return _mk('add', (a, b))


def neg(a):
    if a.op == 'const': return const(-a.val)
    return mul(const(-1), a)


def mul(a, b):
    if a.op == 'const' and b.op == 'const':
        return const(a.val * b.val)
    if is_const(a, 0) or is_const(b, 0): return ZERO
    if is_const(a, 1): return b
    if is_const(b, 1): return a
    return _mk('mul', (a, b))


def div(a, b):
    if b.op == 'const':
        if b.val == 0:
            raise AnalysisError('division by literal zero')
        return mul(a, const(1 / b.val))
    return _mk('div', (a, b))


def powi(a, n: int):
    if n == 0: return ONE
    if n == 1: return a
    if a.op == 'const' and (a.val != 0 or n > 0):
        return const(a.val ** n)
    if a.op == 'fn' and a.val == 'abs' and n % 2 == 0:
        return powi(_mk('fn', (a.args[0],), 'abs2'), n // 2)      # |z|^2 = z conj(z), valid for complex z
    return _mk('powi', (a,), int(n))


def fn(name, *args):
    args = tuple(lift(x) for x in args)
    if name in ('abs', 'sign', 'real', 'conj') and len(args) == 1:
        a = args[0]
        if a.op == 'const':
            if name == 'abs': return const(abs(a.val))
            if name == 'sign': return const((a.val > 0) - (a.val < 0))
            return a
        if a.op == 'atom' and a.val[1] == 'pos':
            return ONE if name == 'sign' else a
        if a.op == 'atom' and a.val[1] == 'real' and name in ('real', 'conj'):
            return a
    if name == 'imag' and len(args) == 1 and (args[0].op == 'const' or (args[0].op == 'atom' and args[0].val[1] in ('pos', 'real'))):
        return ZERO
    if name in ('real', 'imag') and len(args) == 1 and args[0].op in ('add', 'mul', 'I'):
        # x + i y written out with real atoms: its parts are x and y (so that `imag(mu) == 0` is a statement about the atom y)
        sp = _split_re_im(args[0], 0)
        if sp is not None:
            return sp[0] if name == 'real' else sp[1]
    return _mk('fn', args, name)


def _split_re_im(n, depth):
    """(real part, imaginary part) of an expression built from real atoms, constants and the imaginary unit with + and * only; None for anything else (small expressions only)"""
    if depth > 6: return None
    if n.op == 'const': return (n, ZERO)
    if n.op == 'I': return (ZERO, ONE)
    if n.op == 'atom': return (n, ZERO) if n.val[1] in ('pos', 'real') else None
    if n.op == 'add':
        a = _split_re_im(n.args[0], depth + 1); b = _split_re_im(n.args[1], depth + 1)
        if a is None or b is None: return None
        return (add(a[0], b[0]), add(a[1], b[1]))
    if n.op == 'mul':
        a = _split_re_im(n.args[0], depth + 1); b = _split_re_im(n.args[1], depth + 1)
        if a is None or b is None: return None
        return (add(mul(a[0], b[0]), neg(mul(a[1], b[1]))), add(mul(a[0], b[1]), mul(a[1], b[0])))
    return None


def cmp(op, a, b):
    """0/1 indicator of a comparison (mask idiom)."""
    a = lift(a); b = lift(b)
    if a.op == 'const' and b.op == 'const':
        r = {'<': a.val < b.val, '<=': a.val <= b.val, '>': a.val > b.val, '>=': a.val >= b.val,
             '==': a.val == b.val, '!=': a.val != b.val}[op]
        return const(int(r))
    return _mk('cmp', (a, b), op)


def power(a, b):
    a = lift(a); b = lift(b)
    if b.op == 'const':
        q = b.val
        if q.denominator == 1:
            return powi(a, int(q))
        if q.denominator == 2:
            return powi(fn('sqrt', a), int(q.numerator))
        if q.denominator == 3:
            return powi(fn('cbrt', a), int(q.numerator))
    return fn('exp', mul(b, fn('log', a)))


def sqrt(a): return fn('sqrt', lift(a))


# ------------------------------------------------------------------ printing
def show(n, depth=0):
    if depth > 6: return '…'
    if n.op == 'const':
        return str(n.val)
    if n.op == 'atom': return n.val[0]
    if n.op == 'I': return 'I'
    if n.op == 'add': return f'({show(n.args[0], depth + 1)} + {show(n.args[1], depth + 1)})'
    if n.op == 'mul': return f'{show(n.args[0], depth + 1)}*{show(n.args[1], depth + 1)}'
    if n.op == 'div': return f'({show(n.args[0], depth + 1)})/({show(n.args[1], depth + 1)})'
    if n.op == 'powi': return f'{show(n.args[0], depth + 1)}**{n.val}'
    if n.op == 'fn': return f'{n.val}(' + ', '.join(show(a, depth + 1) for a in n.args) + ')'
    if n.op == 'cmp': return f'[{show(n.args[0], depth + 1)} {n.val} {show(n.args[1], depth + 1)}]'
    return n.op


def atoms_of(n, acc=None, seen=None):
    acc = set() if acc is None else acc; seen = set() if seen is None else seen
    stack = [n]
    while stack:
        x = stack.pop()
        if x.uid in seen: continue
        seen.add(x.uid)
        if x.op == 'atom': acc.add(x)
        stack.extend(x.args)
    return acc


def size(n):
    seen = set(); stack = [n]
    while stack:
        x = stack.pop()
        if x.uid in seen: continue
        seen.add(x.uid); stack.extend(x.args)
    return len(seen)


# ------------------------------------------------------------------ Laurent polynomials over atoms (for fn arguments)
# poly: dict{ monomial: Fraction-or-(re,im) } ; monomial = tuple(sorted((atomkey, exp))) ; coefficient = (Fraction re, Fraction im)
def _padd(a, b):
    out = dict(a)
    for m, c in b.items():
        if m in out:
            r = (out[m][0] + c[0], out[m][1] + c[1])
            if r == (0, 0): del out[m]
            else: out[m] = r
        else:
            out[m] = c
    return out


def _mmul(m1, m2):
    d = dict(m1)
    for k, e in m2:
        d[k] = d.get(k, 0) + e
        if d[k] == 0: del d[k]
    return tuple(sorted(d.items()))


def _pmul(a, b):
    out = {}
    for m1, c1 in a.items():
        for m2, c2 in b.items():
            m = _mmul(m1, m2)
            c = (c1[0] * c2[0] - c1[1] * c2[1], c1[0] * c2[1] + c1[1] * c2[0])
            if m in out:
                r = (out[m][0] + c[0], out[m][1] + c[1])
                if r == (0, 0): del out[m]
                else: out[m] = r
            elif c != (0, 0):
                out[m] = c
    return out


def to_poly(n, budget=4000):
    """Node -> Laurent polynomial over atoms and opaque sub-nodes (keyed ('node', uid))."""
    if n._poly is not None:
        return n._poly
    if n.op == 'const':
        r = {(): (n.val, Fraction(0))} if n.val != 0 else {}
    elif n.op == 'I':
        r = {(): (Fraction(0), Fraction(1))}
    elif n.op == 'atom':
        r = {((('a', n.uid), 1),): (Fraction(1), Fraction(0))}
    elif n.op == 'add':
        r = _padd(to_poly(n.args[0]), to_poly(n.args[1]))
    elif n.op == 'mul':
        r = _pmul(to_poly(n.args[0]), to_poly(n.args[1]))
    elif n.op == 'powi' and abs(n.val) <= 12:
        b = to_poly(n.args[0])
        if n.val < 0:
            if len(b) != 1:
                b = None
            else:
                (m, c), = b.items()
                d = c[0] * c[0] + c[1] * c[1]
                b = {tuple((k, -e) for k, e in m): (c[0] / d, -c[1] / d)}
        if b is None:
            r = {((('n', n.uid), 1),): (Fraction(1), Fraction(0))}
        else:
            r = {(): (Fraction(1), Fraction(0))}
            for _ in range(abs(n.val)):
                r = _pmul(r, b)
    elif n.op == 'div':
        d = to_poly(n.args[1])
        if len(d) == 1:
            (m, c), = d.items()
            dd = c[0] * c[0] + c[1] * c[1]
            inv = {tuple((k, -e) for k, e in m): (c[0] / dd, -c[1] / dd)}
            r = _pmul(to_poly(n.args[0]), inv)
        else:
            r = {((('n', n.uid), 1),): (Fraction(1), Fraction(0))}
    else:
        r = {((('n', n.uid), 1),): (Fraction(1), Fraction(0))}
    if len(r) > budget:
        raise AnalysisError('argument polynomial too large')
    n._poly = r
    return r


_by_uid: dict = {}


def node_by_uid(uid):
    if len(_by_uid) != len(_table):
        for nd in _table.values():
            _by_uid[nd.uid] = nd
    return _by_uid[uid]


# ------------------------------------------------------------------ GF(p^2) arithmetic on pairs
def _inv(a):
    return pow(a, P - 2, P)


def c_mul(x, y):
    return ((x[0] * y[0] - x[1] * y[1]) % P, (x[0] * y[1] + x[1] * y[0]) % P)


def c_inv(x):
    d = (x[0] * x[0] + x[1] * x[1]) % P
    if d == 0:
        raise ZeroDivisionError
    di = _inv(d)
    return (x[0] * di % P, (-x[1]) * di % P)


def c_pow(x, n):
    if n < 0:
        x = c_inv(x); n = -n
    r = (1, 0)
    while n:
        if n & 1: r = c_mul(r, x)
        x = c_mul(x, x); n >>= 1
    return r


def legendre(a):
    a %= P
    if a == 0: return 0
    return 1 if pow(a, (P - 1) // 2, P) == 1 else -1


def frac_mod(q: Fraction):
    return q.numerator % P * _inv(q.denominator % P) % P


class Resample(Exception):
    """the sample point hit a pole / a declared-positive expression came out negative: draw another"""


class Point:
    """One sample point: lazily assigns values to atoms, exp-monomials and opaque nodes."""

    def __init__(self, seed, pins=None, mask_hook=None):
        self.rng = random.Random(seed)
        self.mask_hook = mask_hook
        self.atomv: dict = {}
        self.expbase: dict = {}
        self.memo: dict = {}
        self.pins = pins or {}          # atom name -> Fraction
        self.fmemo: dict = {}
        self.fatom: dict = {}
        self.fexp: dict = {}

    # ---- modular
    def atom_value(self, n):
        name, kind = n.val
        if name in self.pins:
            return (frac_mod(Fraction(self.pins[name])), 0)
        v = self.atomv.get(name)
        if v is None:
            a = self.rng.randrange(2, P)
            if kind == 'complex':
                v = (a, self.rng.randrange(2, P))
            elif kind == 'pos':
                v = (a * a % P, 0)
            else:
                v = (a, 0)
            self.atomv[name] = v
        return v

    def exp_base(self, mono, imag):
        key = (mono, imag)
        v = self.expbase.get(key)
        if v is None:
            if imag:     # unit-norm element w/conj(w)
                w = (self.rng.randrange(2, P), self.rng.randrange(2, P))
                v = c_mul(w, c_inv((w[0], (-w[1]) % P)))
            else:        # positive real: a quadratic residue
                a = self.rng.randrange(2, P)
                v = (a * a % P, 0)
            self.expbase[key] = v
        return v

    def reduce_arg(self, n):
        """argument node -> dict{monomial(with pinned atoms substituted): (re, im) Fraction coefficient}"""
        poly = to_poly(n)
        out = {}
        for m, c in poly.items():
            cf = c; mm = []
            dead = False
            for (k, e) in m:
                if k[0] == 'a':
                    nd = node_by_uid(k[1])
                    nm = nd.val[0]
                    if nm in self.pins:
                        pv = Fraction(self.pins[nm])
                        if pv == 0:
                            if e > 0: dead = True; break
                            raise Resample()
                        cf = (cf[0] * pv ** e, cf[1] * pv ** e)
                        continue
                mm.append((k, e))
            if dead: continue
            mm = tuple(mm)
            if mm in out:
                out[mm] = (out[mm][0] + cf[0], out[mm][1] + cf[1])
            else:
                out[mm] = cf
        return {m: c for m, c in out.items() if c != (0, 0)}

    def canon_mono(self, m):
        """monomial key for exp bases: opaque log(x) factors are keyed by the VALUE of x (so equal arguments share a logarithm)"""
        out = []
        for k, e in m:
            if k[0] == 'n':
                nd = node_by_uid(k[1])
                if nd.op == 'fn' and nd.val == 'log':
                    out.append((('logval', self.ev(nd.args[0])), e)); continue
                if nd.op == 'fn' and nd.val == 'atan2':
                    yv = self.ev(nd.args[0]); xv = self.ev(nd.args[1])
                    if yv[1] != 0 or xv[1] != 0:
                        raise AnalysisError('atan2 of non-real values')
                    h2 = (xv[0] * xv[0] + yv[0] * yv[0]) % P
                    if legendre(h2) != 1:
                        raise Resample()
                    hinv = _inv(pow(h2, (P + 1) // 4, P))
                    out.append((('argval', (xv[0] * hinv % P, yv[0] * hinv % P)), e)); continue
                if nd.op == 'fn' and nd.val not in ('exp', 'cexp', 'sin', 'cos', 'tan') or nd.op in ('div', 'powi', 'cmp'):
                    out.append((('val', self.ev(nd)), e)); continue
            if len(m) == 1 and e == 1 and (k[0] == 'a' or (k[0] == 'n' and node_by_uid(k[1]).op == 'fn' and node_by_uid(k[1]).val in ('real', 'imag'))):
                # a lone real quantity: keyed by its value, so that exp(x) and exp(real(x + i y)) share one base
                vv = self.ev(node_by_uid(k[1]))
                if vv[1] == 0:
                    out.append((('val', vv), e)); continue
            out.append((k, e))
        return tuple(sorted(out, key=repr))

    def ev_exp(self, argnode, times_i=False):
        """exp(arg) (or exp(I*arg) when times_i) in GF(p^2)."""
        terms = self.reduce_arg(argnode)
        r = (1, 0)
        for m, (cr, ci) in terms.items():
            if times_i:
                cr, ci = -ci, cr
            if m == ():
                if cr != 0 or ci != 0:
                    # exp of a non-zero pure number: transcendental constant, keep as named base
                    pass
            mk = self.canon_mono(m)
            if any(k_[0] == 'val' and k_[1] == (0, 0) and e_ > 0 for k_, e_ in mk if isinstance(k_, tuple) and len(k_) == 2):
                continue        # a factor of this monomial is zero at the point (|I| with I pinned to 0, floor(0)): the monomial vanishes, exp gives 1
            if len(mk) == 1 and mk[0][0][0] == 'logval' and mk[0][1] == 1 and ci == 0 and cr.denominator == 1 and not times_i:
                # exp(k log x) = x^k for integer k
                try:
                    r = c_mul(r, c_pow(mk[0][0][1], int(cr)))
                except ZeroDivisionError:
                    raise Resample()
                continue
            if len(mk) == 1 and mk[0][0][0] == 'logval' and mk[0][1] == 1 and ci == 0 and cr.denominator == 2 and not times_i:
                # exp((k/2) log x) = sqrt(x)^k: the principal root of a "positive" (quadratic-residue) real value
                xv = mk[0][0][1]
                if xv[1] != 0 or legendre(xv[0]) != 1:
                    raise Resample()
                try:
                    r = c_mul(r, c_pow((pow(xv[0], (P + 1) // 4, P), 0), int(cr.numerator)))
                except ZeroDivisionError:
                    raise Resample()
                continue
            if len(mk) == 1 and mk[0][0][0] == 'argval' and mk[0][1] == 1 and cr == 0 and ci.denominator == 1:
                # exp(i k atan2(y, x)) = ((x + i y)/|x + i y|)^k for integer k
                r = c_mul(r, c_pow(mk[0][0][1], int(ci)))
                continue
            for part, imag in ((cr, False), (ci, True)):
                if part == 0: continue
                k = part * DEN
                if k.denominator != 1 and mk == ():
                    # exp of a pure number whose denominator the common base cannot express (a margin such as 1e-6): a transcendental constant of its own, keyed by the number
                    key_ = ('expconst', part, imag)
                    if key_ not in self.expbase:
                        if imag:
                            w_ = (self.rng.randrange(2, P), self.rng.randrange(2, P)); self.expbase[key_] = c_mul(w_, c_inv((w_[0], (-w_[1]) % P)))
                        else:
                            a_ = self.rng.randrange(2, P); self.expbase[key_] = (a_ * a_ % P, 0)
                    r = c_mul(r, self.expbase[key_])
                    continue
                if k.denominator != 1:
                    raise AnalysisError(f'exp coefficient {part} not a multiple of 1/{DEN}')
                r = c_mul(r, c_pow(self.exp_base(mk, imag), int(k)))
        return r

    def ev(self, n):
        memo = self.memo
        v = memo.get(n.uid)
        if v is not None:
            return v
        # iterative post-order to avoid recursion limits on deep DAGs
        stack = [n]
        while stack:
            x = stack[-1]
            if x.uid in memo:
                stack.pop(); continue
            if x.op == 'fn' and x.val in ('exp', 'sin', 'cos', 'tan', 'cexp'):
                pending = []      # argument handled through its polynomial, not its value
            elif x.op == 'cmp' and x.val in ('<', '<=', '>', '>='):
                pending = []      # an order comparison is decided on the real valuation; its operands need no value in the field (|z| of a complex z has one at every other point only)
            else:
                pending = [a for a in x.args if a.uid not in memo]
            if pending:
                stack.extend(pending); continue
            stack.pop()
            memo[x.uid] = self._ev1(x)
        return memo[n.uid]

    def _opaque_args(self, x):
        # make sure opaque sub-nodes inside fn-argument polynomials have values (they are bases by identity)
        return None

    def _ev1(self, x):
        op = x.op; memo = self.memo
        if op == 'const':
            return (frac_mod(x.val), 0)
        if op == 'I':
            return (0, 1)
        if op == 'atom':
            return self.atom_value(x)
        if op == 'add':
            a = memo[x.args[0].uid]; b = memo[x.args[1].uid]
            return ((a[0] + b[0]) % P, (a[1] + b[1]) % P)
        if op == 'mul':
            return c_mul(memo[x.args[0].uid], memo[x.args[1].uid])
        if op == 'div':
            try:
                return c_mul(memo[x.args[0].uid], c_inv(memo[x.args[1].uid]))
            except ZeroDivisionError:
                raise Resample()
        if op == 'powi':
            try:
                return c_pow(memo[x.args[0].uid], x.val)
            except ZeroDivisionError:
                raise Resample()
        if op == 'cmp':
            # indicator of a comparison between symbolic values: an opaque 0/1 atom keyed by (op, canonical a-b)
            return self.mask_value(x)
        if op == 'fn':
            return self.ev_fn(x)
        raise AnalysisError(f'cannot evaluate node {op}')

    def mask_value(self, x):
        if self.mask_hook is not None:
            r = self.mask_hook(x, self)
            if r is not None:
                return (int(bool(r)), 0)
        if not hasattr(self, 'free_masks'): self.free_masks = set()
        self.free_masks.add(x.uid)
        # An order comparison nobody decides: every sample point carries, next to its field values, one real valuation of the atoms (positive atoms log-uniform over
        # 18 decades, the others of either sign); all comparisons at this point are decided on that one real point, so they are consistent with each other
        # (x < 1 and x > 2 never hold together) while the arms are still compared as identities in the field.
        if x.val in ('<', '<=', '>', '>=') and getattr(self, 'order_ok', True):
            try:
                fa = self.order_eval(x.args[0]); fb = self.order_eval(x.args[1])
                if fa == fa and fb == fb and abs(fa.imag) < 1e-300 and abs(fb.imag) < 1e-300 and abs(fa.real) != float('inf') and abs(fb.real) != float('inf') and fa.real != fb.real:
                    dlt = fa.real - fb.real
                    return (int({'<': dlt < 0, '<=': dlt <= 0, '>': dlt > 0, '>=': dlt >= 0}[x.val]), 0)
            except (AnalysisError, OverflowError, ValueError, ZeroDivisionError, RecursionError):
                pass
        # fallback: the Legendre character as the sign of (a - b)
        a = self.ev(x.args[0]); b = self.ev(x.args[1])
        if x.val in ('==', '!='):
            same_ = (a[0] - b[0]) % P == 0 and (a[1] - b[1]) % P == 0          # equality is defined for complex values too
            return (int(same_ if x.val == '==' else not same_), 0)
        if a[1] != 0 or b[1] != 0:
            raise AnalysisError('comparison of complex values')
        d = (a[0] - b[0]) % P
        s = legendre(d)
        opn = x.val
        r = {'<': s < 0, '<=': s <= 0, '>': s > 0, '>=': s >= 0, '==': s == 0, '!=': s != 0}[opn]
        return (int(r), 0)

    def ev_fn(self, x):
        name = x.val; memo = self.memo
        if name in ('max', 'min') and len(x.args) == 2:
            # the larger / smaller operand, chosen by the same decision an `if a >= b` on these operands gets at this point (so that max(a, b) and a branch on a < b agree)
            ge = self.ev(cmp('>=', x.args[0], x.args[1]))
            first = (ge == (1, 0)) == (name == 'max')
            return memo[x.args[0].uid] if first else memo[x.args[1].uid]
        if name == 'exp':
            return self.ev_exp(x.args[0])
        if name == 'cexp':      # exp(I*arg)
            return self.ev_exp(x.args[0], times_i=True)
        if name in ('sin', 'cos', 'tan'):
            u = self.ev_exp(x.args[0], times_i=True)
            ui = c_inv(u)
            half = _inv(2)
            c = ((u[0] + ui[0]) * half % P, (u[1] + ui[1]) * half % P)
            d = ((u[0] - ui[0]) * half % P, (u[1] - ui[1]) * half % P)   # (u - 1/u)/2 = I sin
            s = (d[1], (-d[0]) % P)                                        # divide by I
            if name == 'cos': return c
            if name == 'sin': return s
            try:
                return c_mul(s, c_inv(c))
            except ZeroDivisionError:
                raise Resample()
        a = memo[x.args[0].uid] if x.args else None
        if name == 'sqrt':
            if a[1] != 0:
                # complex argument: any root s with s*s = a (branch-agnostic; identities that hold for both branches are decided)
                N = (a[0] * a[0] + a[1] * a[1]) % P
                if legendre(N) != 1:
                    raise Resample()
                nrm = pow(N, (P + 1) // 4, P)
                half = _inv(2)
                xx = (a[0] + nrm) * half % P
                if legendre(xx) != 1:
                    xx = (a[0] - nrm) * half % P
                if legendre(xx) != 1:
                    raise Resample()
                s0 = pow(xx, (P + 1) // 4, P)
                s1 = a[1] * _inv(2 * s0 % P) % P
                return (s0, s1)
            s = legendre(a[0])
            if s == 0: return (0, 0)
            if s > 0: return (pow(a[0], (P + 1) // 4, P), 0)
            return (0, pow((-a[0]) % P, (P + 1) // 4, P))
        if name == 'cbrt':
            if a[1] != 0:
                raise AnalysisError('cbrt of a non-real value')
            return (pow(a[0], (2 * P - 1) // 3, P), 0)
        if name == 'abs':
            if a[1] != 0:
                # |z| = sqrt(re^2 + im^2): the positive root of a positive real quantity (a quadratic residue at the sample point, else another point is drawn)
                n2 = (a[0] * a[0] + a[1] * a[1]) % P
                if legendre(n2) != 1:
                    raise Resample()
                r_ = pow(n2, (P + 1) // 4, P)
                return (r_ if legendre(r_) == 1 else (-r_) % P, 0)
            return (a[0] * self.real_sign(x.args[0], a) % P, 0)
        if name == 'sign':
            if a[1] != 0:
                raise AnalysisError('sign of a non-real value')
            return (self.real_sign(x.args[0], a) % P, 0)
        if name == 'real': return (a[0], 0)
        if name == 'imag': return (a[1], 0)
        if name == 'conj': return (a[0], (-a[1]) % P)
        if name == 'abs2': return ((a[0] * a[0] + a[1] * a[1]) % P, 0)
        if name == 'log':
            # opaque: keyed by the VALUE of the argument so that equal arguments give equal logs
            return self.opaque(('log', a), real=(a[1] == 0))
        if name in ('floor', 'ceil') and a == (0, 0):
            return (0, 0)          # floor(0) = ceil(0) = 0 (a pinned argument); any other value stays uninterpreted
        # uninterpreted function: opaque value keyed by name and argument values
        vals = tuple(memo[t.uid] for t in x.args)
        return self.opaque((name,) + vals, real=all(v[1] == 0 for v in vals))

    def opaque(self, key, real=True):
        v = self.atomv.get(key)
        if v is None:
            v = (self.rng.randrange(2, P), 0 if real else self.rng.randrange(2, P))
            self.atomv[key] = v
        return v

    def real_sign(self, node, gf_value):
        """sign of a real quantity at this point: that of the point's real valuation (so that |x|, sign(x) and the comparisons agree with each other); the Legendre
        character of the field value where the real valuation cannot be evaluated"""
        if gf_value == (0, 0): return 0
        if not getattr(self, 'order_ok', True):
            return legendre(gf_value[0])
        try:
            f = self.order_eval(node)
            if f == f and abs(f.imag) < 1e-300 and f.real != 0 and abs(f.real) != float('inf'):
                return 1 if f.real > 0 else -1
        except (AnalysisError, OverflowError, ValueError, ZeroDivisionError, RecursionError):
            pass
        return legendre(gf_value[0])

    def order_eval(self, n):
        """value of n at this point's real valuation (wide log-uniform sampling); separate from the narrow valuation used for diagnostics"""
        if not hasattr(self, 'omemo'):
            self.omemo = {}; self.oatom = {}
        saved = (self.fmemo, self.fatom, getattr(self, '_wide', False))
        self.fmemo, self.fatom, self._wide = self.omemo, self.oatom, True
        try:
            return self.fev(n)
        finally:
            self.fmemo, self.fatom, self._wide = saved

    # ---- float evaluation for diagnostics
    def fev(self, n):
        memo = self.fmemo
        stack = [n]
        while stack:
            x = stack[-1]
            if x.uid in memo:
                stack.pop(); continue
            pending = [a for a in x.args if a.uid not in memo]
            if pending:
                stack.extend(pending); continue
            stack.pop()
            memo[x.uid] = self._fev1(x)
        return memo[n.uid]

    def _fev1(self, x):
        op = x.op; memo = self.fmemo
        if op == 'const': return complex(float(x.val))
        if op == 'I': return 1j
        if op == 'atom':
            name, kind = x.val
            if name in self.pins: return complex(float(self.pins[name]))
            v = self.fatom.get(name)
            if v is None:
                r = self.rng
                if getattr(self, '_wide', False):
                    # (crc32, not hash(): str hashes differ from process to process, and a check must give the same verdict on every run)
                    orng = random.Random((zlib.crc32(str(name).encode()) ^ self.__dict__.setdefault('_oseed', r.randrange(1 << 30))) & 0xffffffff)
                    if name == 'pi': v = complex(math.pi)
                    elif name == 'float_eps': v = complex(2.220446049250313e-16)
                    elif name.startswith('float_lognat'): v = complex(709.0)
                    else:
                        # magnitudes: a mixture of ordinary values and of very small / very large ones, so that guards on extreme values (<= float_eps, >= 1e8, ...)
                        # are entered at a fair share of the sample points and not once in a blue moon
                        u_ = orng.random()
                        mag = 10 ** (orng.uniform(-3, 3) if u_ < 0.4 else (orng.uniform(-20, -3) if u_ < 0.7 else orng.uniform(3, 20)))
                        if name in getattr(self, 'omag', ()):
                            mag = self.omag[name]          # a magnitude placed next to a threshold by Decider.directed (threshold-directed sampling)
                        if kind == 'pos':
                            sgn = 1.0
                        else:
                            gv = self.atom_value(x)
                            sgn = float(legendre(gv[0])) if (gv[1] == 0 and gv[0] != 0) else orng.choice((1.0, -1.0))       # the same sign the field value carries
                            if gv == (0, 0): mag = 0.0
                        v = complex(sgn * mag, (orng.choice((1.0, -1.0)) * mag * 10 ** orng.uniform(-2, 2)) if kind == 'complex' else 0.0)
                else:
                    v = complex(r.uniform(0.3, 1.7), r.uniform(0.2, 0.9) if kind == 'complex' else 0.0)
                self.fatom[name] = v
            return v
        a = [memo[t.uid] for t in x.args]
        try:
            if op == 'add': return a[0] + a[1]
            if op == 'mul': return a[0] * a[1]
            if op == 'div': return a[0] / a[1]
            if op == 'powi': return a[0] ** x.val
            if op == 'cmp':
                if self.mask_hook is not None:
                    r = self.mask_hook(x, None)
                    if r is not None:
                        return complex(int(bool(r)))
                d = (a[0] - a[1]).real
                return complex({'<': d < 0, '<=': d <= 0, '>': d > 0, '>=': d >= 0, '==': d == 0, '!=': d != 0}[x.val])
            if op == 'fn':
                nm = x.val
                if nm == 'exp': return cmath.exp(a[0]) if a[0].real != float('-inf') else 0j
                if nm == 'cexp': return cmath.exp(1j * a[0])
                if nm == 'sin': return cmath.sin(a[0])
                if nm == 'cos': return cmath.cos(a[0])
                if nm == 'tan': return cmath.tan(a[0])
                if nm == 'sqrt': return cmath.sqrt(a[0])
                if nm == 'cbrt': return complex(math.copysign(abs(a[0].real) ** (1 / 3), a[0].real))
                if nm == 'abs': return complex(abs(a[0]))
                if nm == 'sign': return complex((a[0].real > 0) - (a[0].real < 0))
                if nm == 'real': return complex(a[0].real)
                if nm == 'imag': return complex(a[0].imag)
                if nm == 'conj': return a[0].conjugate()
                if nm == 'abs2': return complex(abs(a[0]) ** 2)
                if nm == 'log': return cmath.log(a[0]) if a[0] != 0 else complex(float('-inf'), 0.0)      # (numpy: log(0) = -inf, so that 0 ** b = exp(b log 0) = 0 for b > 0)
                if nm == 'gamma' and a[0].imag == 0: return complex(math.gamma(a[0].real))
                if nm in ('floor', 'ceil') and a[0].imag == 0: return complex(math.floor(a[0].real) if nm == 'floor' else math.ceil(a[0].real))
                if nm in ('max', 'min') and all(v_.imag == 0 for v_ in a): return complex((max if nm == 'max' else min)(v_.real for v_ in a))
                key = ('fo', nm) + tuple(a)
                if key not in self.fatom:
                    self.fatom[key] = complex(self.rng.uniform(0.3, 1.7), self.rng.uniform(0.2, 0.9))
                return self.fatom[key]
        except (ZeroDivisionError, OverflowError, ValueError):
            return complex('nan')
        raise AnalysisError(f'float eval: {op}')


def memo_get(pt, n):
    return pt.memo[n.uid]


# ------------------------------------------------------------------ deciding identities
DIRECTED_STATS = {'seconds': 0.0, 'identities': 0, 'evals': 0, 'scans': 0}


class Decider:
    """Decides E == 0 at K sample points; `positive` = nodes that must sample as quadratic residues."""

    def __init__(self, seed=0, k=3, positive=(), pins=None, nonzero=(), mask_hook=None):
        self.seed = seed; self.k = k; self.positive = list(positive); self.pins = pins or {}
        self.nonzero = list(nonzero)
        self._mask_hook = mask_hook
        self.points: list[Point] = []
        tries = 0
        while len(self.points) < k:
            tries += 1
            if tries > 4000 + 200 * k:
                raise AnalysisError('could not draw a sample point meeting the positivity declarations')
            pt = Point(seed * 1000003 + tries, pins=self.pins, mask_hook=mask_hook)
            try:
                ok = True
                for pn in self.positive:
                    v = pt.ev(pn)
                    if v[1] != 0 or legendre(v[0]) != 1:
                        ok = False; break
                if ok and self.positive:
                    self._align(pt)
                for nz in self.nonzero:
                    if pt.ev(nz) == (0, 0):
                        ok = False; break
                if ok:
                    self.points.append(pt)
            except Resample:
                continue

    def _align(self, pt):
        """A region declared through `positive` is imposed on the field values (quadratic residues).  If the point's real valuation happens to lie in the region too, comparisons
        and |x| are decided on it (consistent with each other); otherwise this point decides every sign through the Legendre character, which agrees with the declared
        region by construction.  (A region of several narrow inequalities is rarely hit by a random real point; the field has no such difficulty.)"""
        try:
            pt.order_ok = True
            pt.memo_backup = None
            good = all(pt.real_sign(pn, pt.ev(pn)) == 1 for pn in self.positive)
        except Exception:
            good = False
        if not good:
            pt.order_ok = False
            pt.memo = {k_: v_ for k_, v_ in pt.memo.items() if False}        # signs may have been used while probing: re-evaluate from scratch in Legendre mode

    def values(self, e):
        out = []
        for pt in self.points:
            try:
                out.append(pt.ev(e))
            except Resample:
                out.append(None)
        # points where e has a pole / an unmodelled branch: draw replacements (they also serve later queries)
        tries = 0
        while sum(v is not None for v in out) < self.k and tries < 600:
            tries += 1
            pt = self.extra_point()
            if pt is None: continue
            try:
                out.append(pt.ev(e))
            except Resample:
                continue
        return out

    def extra_point(self):
        self._extra = getattr(self, '_extra', 0) + 1
        pt = Point(self.seed * 1000003 + 500000 + self._extra, pins=self.pins, mask_hook=getattr(self, '_mask_hook', None))
        try:
            for pn in self.positive:
                v = pt.ev(pn)
                if v[1] != 0 or legendre(v[0]) != 1:
                    return None
            if self.positive:
                self._align(pt)
            for nz in self.nonzero:
                if pt.ev(nz) == (0, 0):
                    return None
        except Resample:
            return None
        self.points.append(pt)
        return pt

    def is_zero(self, e):
        """True / False; raises AnalysisError when no point could evaluate e."""
        e = lift(e)
        vals = [v for v in self.values(e) if v is not None]
        if not vals:
            # every standing point hit a pole or a non-residue under a root (each root halves the chance of a point): draw further points before giving up
            tries = 0
            while len(vals) < max(2, min(len(self.points), 3)) and tries < 400:
                tries += 1
                pt = self.extra_point()
                if pt is None: continue
                try:
                    vals.append(pt.ev(e))
                except Resample:
                    continue
        if not vals:
            raise AnalysisError('expression has a pole at every sample point: ' + show(e)[:200])
        if not all(v == (0, 0) for v in vals):
            return False
        # comparisons that nobody decides are sampled as pseudo-random signs: an identity that fails only on some arms needs more points to be seen; draw 8 more per free mask (at most 40)
        m = self._free_masks(e)
        if m:
            want = min(40, len(vals) + 8 * m); tries = 0
            while len(vals) < want and tries < 4 * want:
                tries += 1
                pt = self.extra_point()
                if pt is None: continue
                try:
                    v = pt.ev(e)
                except Resample:
                    continue
                if v != (0, 0):
                    return False
                vals.append(v)
            if not self._directed_check(e):
                return False
        return True

    # ---- threshold-directed sampling -------------------------------------------------------------------------------------------------------------------------
    # A comparison nobody decides splits the domain.  Random real valuations enter a narrow side of it (|x| <= 2.2e-16, w * eta / mu <= eps, T > 2303) rarely or never, so an
    # identity that fails only there is missed.  For every free order comparison in e and every atom it depends on (a "lever"), the lever's magnitude is swept over
    # DIRECTED_DECADES at one sample point, the magnitudes where the comparison changes its truth value are located by bisection, and e is evaluated at fresh points whose real
    # valuation places the lever just below, just above and between those thresholds (all other atoms as drawn; field values as drawn).  A directed point is an ordinary
    # sample point: it lies in the declared region (checked) and decides all its comparisons on one real valuation, so a true identity of the modelled algebra is never flagged.
    DIRECTED_DECADES = (-30, 30)
    DIRECTED_BUDGET = 36            # directed evaluations of e per identity

    def _free_cmp_nodes(self, e):
        cache = self.__dict__.setdefault('_free_cmp_cache', {})
        if e.uid in cache: return cache[e.uid]
        seen = set(); stack = [e]; out = []
        while stack:
            x = stack.pop()
            if x.uid in seen: continue
            seen.add(x.uid)
            if x.op == 'cmp' and x.val in ('<', '<=', '>', '>='):
                decided = None
                if self._mask_hook is not None:
                    try: decided = self._mask_hook(x, None)
                    except Exception: decided = None
                if decided is None: out.append(x)
            stack.extend(x.args)
            if len(seen) > 20000: break
        out.sort(key=lambda n_: n_.uid)
        cache[e.uid] = out
        return out

    def _lever_atoms(self, n):
        seen = set(); stack = [n]; out = []
        while stack:
            x = stack.pop()
            if x.uid in seen: continue
            seen.add(x.uid)
            if x.op == 'atom':
                nm = x.val[0]
                if nm not in self.pins and nm != 'pi' and not str(nm).startswith('float_') and x.val[1] != 'complex':
                    out.append(nm)
            stack.extend(x.args)
            if len(seen) > 4000: break
        return sorted(set(out), key=str)

    def _blank_point(self):
        self._extra = getattr(self, '_extra', 0) + 1
        pt = Point(self.seed * 1000003 + 500000 + self._extra, pins=self.pins, mask_hook=getattr(self, '_mask_hook', None))
        return pt

    def _admit(self, pt):
        """the region / non-vanishing declarations of this decider, on a point that is not (yet) one of its standing points; True when the point's real valuation lies in the region"""
        try:
            for pn in self.positive:
                v = pt.ev(pn)
                if v[1] != 0 or legendre(v[0]) != 1:
                    return False
            if self.positive:
                self._align(pt)
            for nz in self.nonzero:
                if pt.ev(nz) == (0, 0):
                    return False
        except Resample:
            return False
        return getattr(pt, 'order_ok', True)

    @staticmethod
    def _truth(pt, c):
        fa = pt.order_eval(c.args[0]); fb = pt.order_eval(c.args[1])
        if fa != fa or fb != fb or abs(fa.imag) > 1e-300 or abs(fb.imag) > 1e-300 or abs(fa.real) == float('inf') or abs(fb.real) == float('inf') or fa.real == fb.real:
            return None
        d_ = fa.real - fb.real
        return {'<': d_ < 0, '<=': d_ <= 0, '>': d_ > 0, '>=': d_ >= 0}[c.val]

    @staticmethod
    def _set_lever(pt, lever, mag):
        if not hasattr(pt, 'omemo'):
            pt.omemo = {}; pt.oatom = {}
        pt.omag = {lever: mag}
        pt.omemo.clear(); pt.oatom.pop(lever, None)

    def _scan(self, base, c, lever, lo, hi):
        """magnitudes of `lever` (in decades lo..hi) at which comparison c changes its truth value at base's real valuation: list of (just on one side, just on the other)"""
        grid = [10.0 ** (k / 2.0) for k in range(2 * lo, 2 * hi + 1)]
        known = []
        for m in grid:
            self._set_lever(base, lever, m)
            t_ = self._truth(base, c)
            if t_ is not None: known.append((m, t_))          # (a magnitude exactly on a threshold has no truth value)
        cuts = []
        for i in range(len(known) - 1):
            if known[i][1] == known[i + 1][1]: continue
            a_, b_ = known[i][0], known[i + 1][0]; ta = known[i][1]
            for _ in range(24):
                mid = math.sqrt(a_ * b_)
                self._set_lever(base, lever, mid)
                tm = self._truth(base, c)
                if tm is None:
                    mid *= 1.0 + 1e-9
                    self._set_lever(base, lever, mid)
                    tm = self._truth(base, c)
                    if tm is None: break
                if tm == ta: a_ = mid
                else: b_ = mid
            cuts.append((a_, b_))
        return cuts

    def _directed_check(self, e):
        if getattr(self, 'no_directed', False) or os.environ.get('VERIF_NO_DIRECTED'):
            return True
        done = self.__dict__.setdefault('_directed_done', {})
        if e.uid in done: return done[e.uid]
        t0_ = time.perf_counter()
        try:
            return self._directed_check1(e, done)
        finally:
            DIRECTED_STATS['seconds'] += time.perf_counter() - t0_; DIRECTED_STATS['identities'] += 1

    def _directed_check1(self, e, done):
        cmps = self._free_cmp_nodes(e)
        budget = self.DIRECTED_BUDGET; verdict = True
        self.directed_evals = getattr(self, 'directed_evals', 0)
        lo, hi = self.DIRECTED_DECADES
        for c in cmps[:8]:
            if budget <= 0 or not verdict: break
            for lever in self._lever_atoms(c)[:3]:
                if budget <= 0 or not verdict: break
                base = None; cuts = []
                for _attempt in range(4):          # an atom of either sign flips a one-sided comparison only on one sign: try a few base points
                    base = None
                    for _ in range(6):
                        cand = self._blank_point()
                        if self._admit(cand):
                            base = cand; break
                    if base is None: break
                    DIRECTED_STATS['scans'] += 1
                    try:
                        cuts = self._scan(base, c, lever, lo, hi)
                    except (AnalysisError, OverflowError, ValueError, ZeroDivisionError, RecursionError):
                        cuts = []
                    if cuts: break
                if not cuts: continue
                mags = []
                for i, (a_, b_) in enumerate(cuts[:3]):
                    mags += [a_, b_]
                    if i + 1 < len(cuts): mags.append(math.sqrt(b_ * cuts[i + 1][0]))
                for m in mags:
                    if budget <= 0: break
                    pt = Point(base.rng.randrange(1 << 60), pins=self.pins, mask_hook=getattr(self, '_mask_hook', None))
                    pt.atomv = dict(base.atomv); pt.expbase = dict(base.expbase)
                    pt._oseed = base.__dict__.get('_oseed', 0)
                    pt.omemo = {}; pt.oatom = {}; pt.omag = {lever: m}
                    if not self._admit(pt): continue
                    try:
                        v = pt.ev(e)
                    except Resample:
                        continue
                    budget -= 1; self.directed_evals += 1; DIRECTED_STATS['evals'] += 1
                    if v != (0, 0):
                        self.directed_witness = f'{lever} ~ {m:.3g} (next to a threshold of `{show(c)[:120]}`)'
                        verdict = False; break
        done[e.uid] = verdict
        return verdict

    def _free_masks(self, e):
        """number of distinct comparison nodes in e that no mask hook decides (they are sampled through the Legendre character)"""
        cache = self.__dict__.setdefault('_mask_count_cache', {})
        if e.uid in cache: return cache[e.uid]
        seen = set(); stack = [e]; n = 0
        while stack:
            x = stack.pop()
            if x.uid in seen: continue
            seen.add(x.uid)
            if x.op == 'cmp':
                decided = None
                if self._mask_hook is not None:
                    try: decided = self._mask_hook(x, None)
                    except Exception: decided = None
                if decided is None: n += 1
            stack.extend(x.args)
            if len(seen) > 20000: break
        cache[e.uid] = n
        return n

    def equal(self, a, b):
        return self.is_zero(add(lift(a), neg(lift(b))))

    def residual(self, a, b=None):
        """float residual |a-b| and scale max(|a|,|b|) at the first point (diagnostics only)."""
        pt = self.points[0]
        fa = pt.fev(lift(a)); fb = pt.fev(lift(b)) if b is not None else 0j
        return abs(fa - fb), max(abs(fa), abs(fb))

    def close(self, a, b, rtol=1e-10):
        """both expressions evaluate, at every sample point, to floating-point values that agree to rtol of their scale: for comparisons that must tolerate constants typed
        as rounded decimals (a value tabulated twice to 16-25 digits); never a substitute for `equal` where an identity is claimed."""
        a = lift(a); b = lift(b)
        n_ok = 0
        for pt in self.points:
            try:
                fa = pt.fev(a); fb = pt.fev(b)
            except (AnalysisError, OverflowError, ZeroDivisionError, ValueError):
                continue
            if fa != fa or fb != fb:
                continue
            if abs(fa - fb) > rtol * max(abs(fa), abs(fb), 1e-300):
                return False
            n_ok += 1
        return n_ok > 0

    def describe(self, a, b):
        r, s = self.residual(a, b)
        w = getattr(self, 'directed_witness', None)
        return f'float residual {r:.6g} on scale {s:.6g}' + (f'; fails at a point placed by threshold-directed sampling: {w}' if w else '')


# ------------------------------------------------------------------ differentiation
DIFF_RULES = {}      # function-atom name -> rule(node, d) returning d(node)/dx, d = derivative of a sub-node


def diff(n, x, memo=None):
    """d n / d x  for atom x (by name)."""
    memo = {} if memo is None else memo
    xname = x.val[0] if isinstance(x, Node) else x

    def d(n):
        r = memo.get(n.uid)
        if r is not None: return r
        op = n.op
        if op in ('const', 'I'): r = ZERO
        elif op == 'atom': r = ONE if n.val[0] == xname else ZERO
        elif op == 'add': r = add(d(n.args[0]), d(n.args[1]))
        elif op == 'mul':
            a, b = n.args
            r = add(mul(d(a), b), mul(a, d(b)))
        elif op == 'div':
            a, b = n.args
            da, db = d(a), d(b)
            if is_const(db, 0):
                r = div(da, b)
            else:
                r = div(add(mul(da, b), neg(mul(a, db))), mul(b, b))
        elif op == 'powi':
            a = n.args[0]
            da = d(a)
            r = ZERO if is_const(da, 0) else mul(mul(const(n.val), powi(a, n.val - 1)), da)
        elif op == 'cmp':
            r = ZERO
        elif op == 'fn':
            nm = n.val; a = n.args[0] if n.args else None
            da = d(a) if a is not None else ZERO
            if all(is_const(d(t), 0) for t in n.args):
                r = ZERO
            elif nm == 'exp': r = mul(n, da)
            elif nm == 'cexp': r = mul(mul(I, n), da)
            elif nm == 'sin': r = mul(fn('cos', a), da)
            elif nm == 'cos': r = mul(neg(fn('sin', a)), da)
            elif nm == 'tan': r = div(da, powi(fn('cos', a), 2))
            elif nm == 'sqrt': r = div(da, mul(const(2), n))
            elif nm == 'cbrt': r = div(da, mul(const(3), powi(n, 2)))
            elif nm == 'log': r = div(da, a)
            elif nm == 'abs': r = mul(fn('sign', a), da)
            elif nm in ('sign', 'floor', 'ceil'): r = ZERO          # piecewise constant: derivative zero almost everywhere
            elif nm in DIFF_RULES:
                r = DIFF_RULES[nm](n, d)
            else:
                raise AnalysisError(f'no derivative rule for {nm}')
        else:
            raise AnalysisError(f'diff: {op}')
        memo[n.uid] = r
        return r
    return d(n)


def subst(n, mapping, memo=None):
    """replace atoms (by name) with nodes."""
    memo = {} if memo is None else memo

    def s(n):
        r = memo.get(n.uid)
        if r is not None: return r
        op = n.op
        if op == 'atom':
            r = mapping.get(n.val[0], n)
            r = lift(r)
        elif not n.args:
            r = n
        else:
            a = [s(t) for t in n.args]
            if op == 'add': r = add(*a)
            elif op == 'mul': r = mul(*a)
            elif op == 'div': r = div(*a)
            elif op == 'powi': r = powi(a[0], n.val)
            elif op == 'cmp': r = cmp(n.val, *a)
            elif op == 'fn': r = fn(n.val, *a)
            else: raise AnalysisError(op)
        memo[n.uid] = r
        return r
    return s(n)


def specialize(n, hook, memo=None):
    """replace every comparison mask the hook decides (hook(node) -> 0/1/None) by that constant and re-simplify"""
    memo = {} if memo is None else memo

    def s(n):
        r = memo.get(n.uid)
        if r is not None: return r
        op = n.op
        if op == 'cmp':
            a = [s(t) for t in n.args]
            nn = cmp(n.val, *a)
            v = hook(nn) if nn.op == 'cmp' else None
            r = const(int(bool(v))) if v is not None else nn
        elif not n.args:
            r = n
        else:
            a = [s(t) for t in n.args]
            if op == 'add': r = add(*a)
            elif op == 'mul': r = mul(*a)
            elif op == 'div': r = div(*a) if not is_const(a[0], 0) else ZERO
            elif op == 'powi': r = powi(a[0], n.val)
            elif op == 'fn': r = fn(n.val, *a)
            else: raise AnalysisError(op)
        memo[n.uid] = r
        return r
    return s(n)


def rewrite(n, hook, memo=None):
    """bottom-up reconstruction: every rebuilt node is offered to hook(node) -> replacement | None"""
    memo = {} if memo is None else memo

    def s(n):
        r = memo.get(n.uid)
        if r is not None: return r
        op = n.op
        if not n.args:
            r = n
        else:
            a = [s(t) for t in n.args]
            if op == 'add': r = add(*a)
            elif op == 'mul': r = mul(*a)
            elif op == 'div': r = div(*a) if not is_const(a[0], 0) else ZERO
            elif op == 'powi': r = powi(a[0], n.val)
            elif op == 'fn': r = fn(n.val, *a)
            elif op == 'cmp': r = cmp(n.val, *a)
            else: raise AnalysisError(op)
        h = hook(r)
        if h is not None: r = h
        memo[n.uid] = r
        return r
    return s(n)


# ------------------------------------------------------------------ linear algebra over GF(p^2) at sample points
def rank_gf(rows):
    """rank of a matrix given as list of rows of (re, im) pairs mod P"""
    M = [list(r) for r in rows]
    rk = 0
    ncol = len(M[0]) if M else 0
    for c in range(ncol):
        piv = None
        for r in range(rk, len(M)):
            if M[r][c] != (0, 0):
                piv = r; break
        if piv is None: continue
        M[rk], M[piv] = M[piv], M[rk]
        inv = c_inv(M[rk][c])
        M[rk] = [c_mul(v, inv) for v in M[rk]]
        for r in range(len(M)):
            if r != rk and M[r][c] != (0, 0):
                f = M[r][c]
                M[r] = [((v[0] - c_mul(f, w)[0]) % P, (v[1] - c_mul(f, w)[1]) % P) for v, w in zip(M[r], M[rk])]
        rk += 1
        if rk == len(M): break
    return rk



def float_eval(node, env, seed=0):
    """floating-point value of an extracted expression at the given atom values (masks decided by the actual comparison); atoms not in env
    get a reproducible value in (0.3, 1.7).  Used only to exhibit concrete witnesses (a violation found this way names its inputs)."""
    pt = Point(seed)
    pt.fatom = {k: complex(v) for k, v in env.items()}
    return pt.fev(node)
