"""Reporting, evidence and known-findings plumbing shared by every check.

Exit codes: 0 = held on everything analysed (known findings echoed), 1 = unlisted violation,
2 = ANALYSIS-ERROR (the checker could not analyse what it must; neither pass nor violation).
"""
from __future__ import annotations
import json, os, re, sys, time, traceback

VERIF = os.path.dirname(os.path.dirname(os.path.dirname(os.path.abspath(__file__))))
KNOWN_FILE = os.path.join(VERIF, 'known_findings.json')
# self-tests redirect evidence so that runs against scratch copies never overwrite the evidence of /repo
EVID_DIR = os.environ.get('VERIF_EVIDENCE_DIR') or os.path.join(VERIF, 'evidence')


class AnalysisError(Exception):
    """The checker met something it cannot analyse soundly (fail closed, exit 2)."""


def norm_key(s: str) -> str:
    return re.sub(r'\s+', ' ', str(s)).strip()


class Obligation:
    __slots__ = ('rule', 'instance', 'ok', 'detail', 'where', 'key', 'method')

    def __init__(self, rule, instance, ok, detail='', where='', key=None, method=''):
        self.rule = rule; self.instance = instance; self.ok = bool(ok)
        self.detail = detail; self.where = where
        self.key = norm_key(key if key is not None else f'{rule}|{instance}')
        self.method = method

    def as_dict(self):
        return {'rule': self.rule, 'instance': self.instance, 'ok': self.ok, 'detail': self.detail,
                'where': self.where, 'key': self.key, 'method': self.method}


class Check:
    def __init__(self, pid, tier='quick', repo='/repo', seed=0, level='other'):
        self.pid = pid; self.tier = tier; self.repo = repo; self.seed = seed; self.level = level
        self.obls: list[Obligation] = []
        self.analysed: dict[str, list] = {}
        self.floors: dict[str, int] = {}
        self.assumptions: list[str] = []
        self.notes: list[str] = []
        self.undecided: list[dict] = []
        self.t0 = time.time()
        self.explanation = ''
        self.trusted_base = ['vstatic front-ends (ast + own Cython-subset rewriter)',
                             'real/complex-number reading of source expressions (no rounding)']

    # ---- recording
    def ob(self, rule, instance, ok, detail='', where='', key=None, method=''):
        o = Obligation(rule, instance, ok, detail, where, key, method)
        self.obls.append(o)
        return o.ok

    def note_analysed(self, kind, item):
        self.analysed.setdefault(kind, []).append(item)

    def floor(self, rule, n):
        """Rule `rule` must have produced at least n obligations (instances confirmed by hand)."""
        self.floors[rule] = n

    def assume(self, text):
        if text not in self.assumptions:
            self.assumptions.append(text)

    def undecide(self, rule, instance, why):
        self.undecided.append({'rule': rule, 'instance': instance, 'why': why})

    # ---- finishing
    def finish(self) -> int:
        known = load_known()
        counts: dict[str, int] = {}
        for o in self.obls:
            counts[o.rule] = counts.get(o.rule, 0) + 1
        short = [(rule, counts.get(rule, 0), n) for rule, n in self.floors.items() if counts.get(rule, 0) < n]
        bad = [o for o in self.obls if not o.ok]
        kn = {norm_key(e['key']): e for e in known if e.get('property') == self.pid and e.get('status') == 'known'}
        # a rule that matched fewer instances than were confirmed by hand makes the run an analysis error -- unless an unlisted violation was found
        # anyway: a violation that is in hand is reported as such (the shortfall is printed with it), never masked by the shortfall
        if short and not any(o.key not in kn for o in bad):
            rule, got, n = short[0]
            raise AnalysisError(f'rule {rule}: only {got} instances matched, floor is {n} (anchor vanished or front-end lost sight of it)')
        for rule, got, n in short:
            print(f'NOTE: rule {rule} matched {got} instances, fewer than the {n} confirmed on the reference tree (the changed code took part of the analysis out of its reach)')
        unlisted = []; listed = []
        seen_keys = set()
        for o in bad:
            if o.key in kn:
                if o.key not in seen_keys:
                    listed.append(o)
                seen_keys.add(o.key)
            else:
                unlisted.append(o)
        for o in listed:
            print(f'KNOWN-FINDING: property={self.pid} {o.rule} {o.where} {o.instance}: {kn[o.key].get("what", o.detail)}')
        # a listed finding that no longer reproduces is reported (informational), not an error
        for k, e in kn.items():
            if k not in seen_keys:
                print(f'NOTE: known finding no longer reproduces (tree repaired?): {k}')
        replay_dir = os.path.join(EVID_DIR, 'replay')
        if os.path.isdir(replay_dir):
            for fn in os.listdir(replay_dir):
                if fn.startswith(self.pid + '-'):
                    os.remove(os.path.join(replay_dir, fn))
        if unlisted:
            os.makedirs(replay_dir, exist_ok=True)
        for i, o in enumerate(unlisted):
            path = os.path.join(replay_dir, f'{self.pid}-{i}.json')
            with open(path, 'w') as f:
                json.dump({'property': self.pid, **o.as_dict(), 'repo': self.repo}, f, indent=1)
            print(f'VIOLATION property={self.pid} replay={path}')
            print(f'  {o.where} rule={o.rule} instance={o.instance} :: {o.detail}')
        self.write_evidence(len(unlisted), listed)
        n_ok = sum(1 for o in self.obls if o.ok)
        print(f'[{self.pid}] tier={self.tier} obligations={len(self.obls)} discharged={n_ok} '
              f'known={len(listed)} violations={len(unlisted)} undecided={len(self.undecided)} '
              f'wall={time.time() - self.t0:.1f}s')
        for r in sorted(counts):
            print(f'    {r}: {counts[r]} instances')
        return 1 if unlisted else 0

    def write_evidence(self, nviol, listed):
        n_ok = sum(1 for o in self.obls if o.ok)
        by_rule: dict[str, dict] = {}
        for o in self.obls:
            d = by_rule.setdefault(o.rule, {'instances': 0, 'held': 0, 'methods': {}})
            d['instances'] += 1; d['held'] += int(o.ok)
            if o.method:
                d['methods'][o.method] = d['methods'].get(o.method, 0) + 1
        distinct = len({o.key for o in self.obls})
        # samples: first obligation of every rule, written out
        samples = []; seen = set()
        for o in self.obls:
            if o.rule not in seen:
                seen.add(o.rule)
                samples.append({'rule': o.rule, 'instance': o.instance, 'where': o.where, 'held': o.ok,
                                'detail': o.detail[:300], 'method': o.method})
        ev = {
            'property_id': self.pid, 'tier': self.tier, 'seed': int(self.seed), 'level': self.level,
            'coverage': {
                'obligations': len(self.obls), 'discharged': n_ok,
                'evaluations': len(self.obls), 'distinct_nontrivial': distinct,
                'rule': 'one obligation per (rule, instance) found in /repo source by the front-ends; distinct = distinct '
                        'normalised construct keys; every obligation is non-trivial in the sense that it names a construct of the tree',
                'samples': samples[:40],
                'checker_cmd': f'/verif/check {self.pid} --tier {self.tier}',
                'trusted_base': self.trusted_base,
                'explanation': self.explanation,
                'per_rule': by_rule,
                'analysed': {k: (v if len(v) <= 60 else v[:60] + [f'... {len(v) - 60} more']) for k, v in self.analysed.items()},
                'analysed_counts': {k: len(v) for k, v in self.analysed.items()},
                'floors': self.floors,
                'known_findings_echoed': [o.as_dict() for o in listed],
                'undecided': self.undecided[:50],
                'exhaustive': False,
            },
            'assumptions': self.assumptions,
            'wall_s': round(time.time() - self.t0, 3),
            'violations': nviol,
        }
        os.makedirs(EVID_DIR, exist_ok=True)
        with open(os.path.join(EVID_DIR, f'{self.pid}.json'), 'w') as f:
            json.dump(ev, f, indent=1, default=str)


def load_known():
    if not os.path.exists(KNOWN_FILE):
        return []
    with open(KNOWN_FILE) as f:
        return json.load(f).get('findings', [])


def run_guarded(pid, fn):
    """Run fn() -> exit code; tracebacks become ANALYSIS-ERROR (exit 2), never exit 1."""
    try:
        return fn()
    except AnalysisError as e:
        if os.environ.get('VERIF_TRACE'):
            traceback.print_exc()
        print(f'ANALYSIS-ERROR property={pid} {e}')
        return 2
    except SystemExit:
        raise
    except BaseException as e:  # noqa
        traceback.print_exc()
        print(f'ANALYSIS-ERROR property={pid} {type(e).__name__}: {e}')
        return 2
