"""Module table for /repo: parses .py with ast and .pyx with the Cython-subset rewriter, resolves imports.

Nothing from /repo is imported or executed.
"""
from __future__ import annotations
import ast, os, re
from ..core.report import AnalysisError
from . import pyxfront


class _CastPrecedence(ast.NodeTransformer):
    """The front-end writes the Cython cast `<T> e` as `__cast__('T') * e` and address-of `&e` as `__addr__ * e`.  A cast binds tighter than any binary operator, so
    `a / <double> n` must read a / (cast * n), not (a / cast) * n as Python's left-associative parse of the rewritten text gives: re-associate."""
    def visit_BinOp(self, node):
        self.generic_visit(node)
        l = node.left
        if isinstance(node.op, ast.Mult) and isinstance(l, ast.BinOp) and isinstance(l.op, (ast.Div, ast.Mult, ast.FloorDiv, ast.Mod)) and _is_cast_marker(l.right):
            inner = ast.copy_location(ast.BinOp(left=l.right, op=ast.Mult(), right=node.right), node)
            return ast.copy_location(ast.BinOp(left=l.left, op=l.op, right=inner), node)
        return node


def _is_cast_marker(n):
    return (isinstance(n, ast.Call) and isinstance(n.func, ast.Name) and n.func.id == '__cast__') or (isinstance(n, ast.Name) and n.id == '__addr__')


class Mod:
    def __init__(self, repo, name, path, is_pkg):
        self.repo = repo; self.name = name; self.path = path; self.is_pkg = is_pkg
        self.is_pyx = path.endswith('.pyx')
        with open(path, encoding='utf-8') as f:
            self.src = f.read()
        self.src_lines = self.src.split('\n')
        self.facts = None
        # compiler directives of a Cython source: `# cython: name=value, ...` comment lines before any code (the build sets none besides language_level)
        self.directives = {}
        if self.is_pyx:
            for ln in self.src_lines:
                ls = ln.strip()
                if not ls: continue
                if not ls.startswith('#'): break
                m_ = re.match(r'#\s*cython\s*:\s*(.*)$', ls)
                if m_:
                    for part in m_.group(1).split(','):
                        if '=' in part:
                            k_, v_ = part.split('=', 1)
                            self.directives[k_.strip()] = v_.strip()
        if self.is_pyx:
            try:
                py, self.facts = pyxfront.convert(self.src)
                self.tree = _CastPrecedence().visit(ast.parse(py))
                ast.fix_missing_locations(self.tree)
                self.parsed_lines = py.split('\n')
            except SyntaxError as e:
                raise AnalysisError(f'{path}: Cython front-end could not parse line {e.lineno}: {e.msg}')
            self.pxd = None
            pxd = path[:-4] + '.pxd'
            if os.path.exists(pxd):
                self.pxd_src = open(pxd, encoding='utf-8').read()
                # names cimported by the .pxd are visible in the .pyx as well
                for ln in self.pxd_src.split('\n'):
                    ls = ln.strip()
                    if re.match(r'(from\s+[\w.]+\s+)?cimport\s', ls) and ls not in self.facts.cimports:
                        self.facts.cimports.append(ls)
            else:
                self.pxd_src = ''
        else:
            try:
                self.tree = ast.parse(self.src)
                self.parsed_lines = self.src_lines
            except SyntaxError as e:
                raise AnalysisError(f'{path}: syntax error line {e.lineno}')
        self.defs: dict[str, ast.AST] = {}
        self.ambiguous: set[str] = set()
        self.imports: dict[str, tuple] = {}
        self._index()

    def rel(self):
        return os.path.relpath(self.path, self.repo.root)

    def where(self, node):
        return f'{self.rel()}:{getattr(node, "lineno", "?")}'

    def _abs_module(self, level, module):
        if level == 0:
            return module
        parts = self.name.split('.')
        if not self.is_pkg:
            parts = parts[:-1]
        if level > 1:
            parts = parts[:-(level - 1)]
        return '.'.join(parts + ([module] if module else []))

    def _index(self):
        def static_test(t):
            # The package defines some names twice, `if use_numba: <numba-compiled> else: <interpreted>`.  The analysis follows the interpreted reference
            # branch (numba is trusted to preserve the semantics of what it compiles), whichever way round the `if` is written.
            if isinstance(t, ast.Name) and t.id == 'use_numba':
                return False
            if isinstance(t, ast.UnaryOp) and isinstance(t.op, ast.Not):
                v = static_test(t.operand)
                return None if v is None else (not v)
            return None

        def visit(body):
            for st in body:
                if isinstance(st, (ast.FunctionDef, ast.ClassDef)):
                    self.defs[st.name] = st
                elif isinstance(st, ast.Assign):
                    for t in st.targets:
                        if isinstance(t, ast.Name):
                            self.defs[t.id] = st
                elif isinstance(st, ast.AnnAssign) and isinstance(st.target, ast.Name) and st.value is not None:
                    self.defs[st.target.id] = st
                elif isinstance(st, ast.Import):
                    for a in st.names:
                        self.imports[a.asname or a.name.split('.')[0]] = ('mod', a.name if a.asname else a.name.split('.')[0])
                elif isinstance(st, ast.ImportFrom):
                    base = self._abs_module(st.level, st.module)
                    for a in st.names:
                        self.imports[a.asname or a.name] = ('from', base, a.name)
                elif isinstance(st, ast.If):
                    # `if TYPE_CHECKING:` blocks only carry typing imports
                    t = ast.unparse(st.test)
                    if 'TYPE_CHECKING' in t:
                        continue
                    live = static_test(st.test)
                    if live is True:
                        visit(st.body)
                    elif live is False:
                        visit(st.orelse)
                    else:
                        # undecidable test: names bound differently in both branches are ambiguous (resolving one is an analysis error, never an
                        # order-dependent guess); names bound in one branch only are taken from it
                        before = dict(self.defs)
                        visit(st.body)
                        a = {k for k, v in self.defs.items() if before.get(k) is not v}
                        mid = dict(self.defs)
                        visit(st.orelse)
                        b = {k for k, v in self.defs.items() if mid.get(k) is not v}
                        self.ambiguous |= (a & b)
                elif isinstance(st, ast.Try):
                    visit(st.body)
        visit(self.tree.body)
        if self.facts is not None:
            for line in self.facts.cimports:
                m = re.match(r'from\s+([\w .]+?)\s+cimport\s+(.*)', line)
                if m:
                    base = m.group(1).replace(' ', '')
                    lvl = len(base) - len(base.lstrip('.'))
                    base = self._abs_module(lvl, base.lstrip('.')) if lvl else base
                    names = m.group(2).replace('(', ' ').replace(')', ' ')
                    for part in names.split(','):
                        toks = part.split()
                        if not toks: continue
                        if 'as' in toks:
                            self.imports.setdefault(toks[-1], ('from', base, toks[0]))
                        else:
                            self.imports.setdefault(toks[0], ('from', base, toks[0]))
                else:
                    m = re.match(r'cimport\s+([\w .]+?)(?:\s+as\s+(\w+))?$', line)
                    if m:
                        nm = m.group(1).replace(' ', '')
                        self.imports.setdefault(m.group(2) or nm.split('.')[0], ('mod', nm))


class Repo:
    def __init__(self, root='/repo'):
        self.root = root
        self.mods: dict[str, Mod | None] = {}

    def find(self, dotted):
        rel = dotted.replace('.', '/')
        for cand, pkg in ((rel + '.py', False), (rel + '.pyx', False), (rel + '/__init__.py', True)):
            p = os.path.join(self.root, cand)
            if os.path.exists(p):
                return p, pkg
        return None, False

    def module(self, dotted) -> Mod | None:
        if dotted in self.mods:
            return self.mods[dotted]
        p, pkg = self.find(dotted)
        m = Mod(self, dotted, p, pkg) if p else None
        self.mods[dotted] = m
        return m

    def need(self, dotted) -> Mod:
        m = self.module(dotted)
        if m is None:
            raise AnalysisError(f'anchor module {dotted} not found under {self.root}')
        return m

    def by_path(self, relpath) -> Mod:
        if not os.path.exists(os.path.join(self.root, relpath)):
            raise AnalysisError(f'anchor file {relpath} not found under {self.root}')
        dotted = re.sub(r'(/__init__)?\.pyx?$', '', relpath).replace('/', '.')
        return self.need(dotted)

    def resolve(self, mod: Mod, name: str, depth=0, skip_defs=False):
        """-> ('def', Mod, node) | ('module', dotted) | ('external', dotted, name) | None.  skip_defs: what the name is bound to by the module's import statements only
        (the value an assignment `name = wrap(name)` reads on its right-hand side when `name` was imported above it)"""
        if depth > 12:
            raise AnalysisError(f'import cycle resolving {name} from {mod.name}')
        if name in mod.defs and not skip_defs:
            if name in mod.ambiguous:
                raise AnalysisError(f'{mod.rel()}: `{name}` is bound differently in both branches of a module-level `if` whose test cannot be decided statically')
            return ('def', mod, mod.defs[name])
        imp = mod.imports.get(name)
        if imp is None:
            return None
        if imp[0] == 'mod':
            return ('module', imp[1])
        _, base, nm = imp
        if not base.split('.')[0] == 'TidalPy':
            return ('external', base, nm)
        target = self.module(base)
        if target is None:
            return ('external', base, nm)
        r = None
        if nm in target.defs or (target is not mod and nm in target.imports and target.imports[nm] != imp):
            r = self.resolve(target, nm, depth + 1)
        if r is not None:
            return r
        sub = self.module(base + '.' + nm)
        if sub is not None:
            return ('module', base + '.' + nm)
        return ('external', base, nm)

    def functions(self, mod: Mod):
        """all FunctionDefs (top level and methods) with their qualified names"""
        out = []
        for st in mod.tree.body:
            if isinstance(st, ast.FunctionDef):
                out.append((st.name, st, None))
            elif isinstance(st, ast.ClassDef):
                for s2 in st.body:
                    if isinstance(s2, ast.FunctionDef):
                        out.append((f'{st.name}.{s2.name}', s2, st))
        return out

    def all_modules(self, pkg='TidalPy'):
        base = os.path.join(self.root, pkg)
        for dp, dn, fn in os.walk(base):
            dn[:] = [d for d in dn if d != '__pycache__']
            for f in sorted(fn):
                if f.endswith('.py') or f.endswith('.pyx'):
                    rel = os.path.relpath(os.path.join(dp, f), self.root)
                    dotted = re.sub(r'(/__init__)?\.pyx?$', '', rel).replace('/', '.')
                    if os.path.getsize(os.path.join(dp, f)) == 0:
                        continue
                    yield dotted
