"""Statement-level control-flow graph of one function (networkx DiGraph).

Nodes are integers; G.nodes[n]['stmt'] is the ast statement (compound statements are represented by their header:
the test of an if/while, the iterable of a for, the `with` items, the `try` marker).  Special nodes: ENTRY, EXIT (normal
return / fall-through), RAISE (exception leaves the function).  Edge attribute kind in {'next','true','false','exc','loop','break','continue','return'}.
Exceptional edges leave every statement that `may_raise(stmt)` says may raise (default: explicit raise, any call, any subscript/attribute on
objects) and go to the innermost enclosing handler / finally, else to RAISE.
"""
from __future__ import annotations
import ast
import networkx as nx

ENTRY, EXIT, RAISE = 'ENTRY', 'EXIT', 'RAISE'


def default_may_raise(st):
    if isinstance(st, ast.Raise):
        return True
    for n in ast.walk(st) if not isinstance(st, (ast.If, ast.While, ast.For, ast.With, ast.Try)) else ast.walk(_header(st)):
        if isinstance(n, (ast.Call, ast.Subscript, ast.Attribute, ast.BinOp)):
            return True
    return False


def _header(st):
    if isinstance(st, (ast.If, ast.While)): return st.test
    if isinstance(st, ast.For): return st.iter
    if isinstance(st, ast.With): return ast.Tuple(elts=[i.context_expr for i in st.items], ctx=ast.Load())
    return ast.Constant(value=None)


class CFG:
    def __init__(self, func, may_raise=default_may_raise):
        self.func = func; self.may_raise = may_raise
        self.G = nx.DiGraph()
        self.G.add_node(ENTRY, stmt=None); self.G.add_node(EXIT, stmt=None); self.G.add_node(RAISE, stmt=None)
        self.n = 0
        self.node_of = {}        # id(stmt) -> node
        ends = self.block(func.body, [(ENTRY, 'next')], handlers=[], loops=[], finals=[])
        for (p, k) in ends:
            self.G.add_edge(p, EXIT, kind=k)

    def new(self, st):
        self.n += 1
        self.G.add_node(self.n, stmt=st)
        self.node_of[id(st)] = self.n
        return self.n

    def connect(self, preds, node):
        for (p, k) in preds:
            self.G.add_edge(p, node, kind=k)

    def exc_target(self, handlers):
        return handlers[-1] if handlers else RAISE

    def block(self, body, preds, handlers, loops, finals):
        for st in body:
            if not preds:
                # unreachable code: still give it nodes (no incoming edges)
                pass
            preds = self.stmt(st, preds, handlers, loops, finals)
        return preds

    def stmt(self, st, preds, handlers, loops, finals):
        G = self.G
        if isinstance(st, ast.If):
            n = self.new(st); self.connect(preds, n)
            if self.may_raise(st): G.add_edge(n, self.exc_target(handlers), kind='exc')
            t = self.block(st.body, [(n, 'true')], handlers, loops, finals)
            f = self.block(st.orelse, [(n, 'false')], handlers, loops, finals) if st.orelse else [(n, 'false')]
            return t + f
        if isinstance(st, (ast.While, ast.For)):
            n = self.new(st); self.connect(preds, n)
            if self.may_raise(st): G.add_edge(n, self.exc_target(handlers), kind='exc')
            brk = []
            loops.append((n, brk))
            body_end = self.block(st.body, [(n, 'true')], handlers, loops, finals)
            loops.pop()
            for (p, k) in body_end:
                G.add_edge(p, n, kind='loop')
            infinite = isinstance(st, ast.While) and isinstance(st.test, ast.Constant) and bool(st.test.value)
            out = [] if infinite else [(n, 'false')]
            if st.orelse and out:
                out = self.block(st.orelse, out, handlers, loops, finals)
            return out + brk
        if isinstance(st, ast.Break):
            n = self.new(st); self.connect(preds, n)
            loops[-1][1].append((n, 'break'))
            return []
        if isinstance(st, ast.Continue):
            n = self.new(st); self.connect(preds, n)
            G.add_edge(n, loops[-1][0], kind='continue')
            return []
        if isinstance(st, ast.Return):
            n = self.new(st); self.connect(preds, n)
            if self.may_raise(st): G.add_edge(n, self.exc_target(handlers), kind='exc')
            if finals:
                # run the innermost finally, then leave (approximated: finally body then EXIT)
                finals[-1]['returns'].append((n, 'return'))
            else:
                G.add_edge(n, EXIT, kind='return')
            return []
        if isinstance(st, ast.Raise):
            n = self.new(st); self.connect(preds, n)
            G.add_edge(n, self.exc_target(handlers), kind='exc')
            return []
        if isinstance(st, ast.With):
            n = self.new(st); self.connect(preds, n)
            if self.may_raise(st): G.add_edge(n, self.exc_target(handlers), kind='exc')
            return self.block(st.body, [(n, 'next')], handlers, loops, finals)
        if isinstance(st, ast.Try):
            n = self.new(st); self.connect(preds, n)
            # dispatch node: where exceptions raised in the body land
            disp = self.new(ast.Pass()); G.nodes[disp]['role'] = 'except-dispatch'
            fin_info = {'returns': []}
            has_fin = bool(st.finalbody)
            if has_fin: finals.append(fin_info)
            handlers.append(disp)
            body_end = self.block(st.body, [(n, 'next')], handlers, loops, finals)
            handlers.pop()
            body_end = self.block(st.orelse, body_end, handlers, loops, finals) if st.orelse else body_end
            h_ends = []
            outer = self.exc_target(handlers)
            catch_all = False
            fin_exc_entry = None
            if has_fin:
                # exceptional copy of the finally body: executed, then the exception propagates outward
                fin_exc_entry = self.new(ast.Pass()); G.nodes[fin_exc_entry]['role'] = 'finally-exc'
                fe = self.block(st.finalbody, [(fin_exc_entry, 'next')], handlers, loops, finals[:-1])
                for (p, k) in fe:
                    G.add_edge(p, outer, kind='exc')
            for h in st.handlers:
                hn = self.new(h); G.nodes[hn]['role'] = 'handler'
                G.add_edge(disp, hn, kind='exc')
                if h.type is None or (isinstance(h.type, ast.Name) and h.type.id in ('Exception', 'BaseException')):
                    catch_all = True
                inner_h = handlers + ([fin_exc_entry] if has_fin else [])
                h_ends += self.block(h.body, [(hn, 'next')], inner_h, loops, finals)
            if not catch_all:
                G.add_edge(disp, fin_exc_entry if has_fin else outer, kind='exc')
            ends = body_end + h_ends
            if has_fin:
                finals.pop()
                fn_entry_preds = ends
                f_end = self.block(st.finalbody, fn_entry_preds, handlers, loops, finals)
                if fin_info['returns']:
                    # return inside try: finally body runs then function exits
                    r_end = self.block(st.finalbody, fin_info['returns'], handlers, loops, finals)
                    for (p, k) in r_end:
                        if finals: finals[-1]['returns'].append((p, 'return'))
                        else: G.add_edge(p, EXIT, kind='return')
                return f_end
            return ends
        if isinstance(st, (ast.FunctionDef, ast.ClassDef)):
            n = self.new(st); self.connect(preds, n)
            return [(n, 'next')]
        n = self.new(st); self.connect(preds, n)
        if self.may_raise(st): G.add_edge(n, self.exc_target(handlers), kind='exc')
        return [(n, 'next')]

    # ------------------------------------------------------------------ queries
    def nodes_where(self, pred):
        return [n for n, d in self.G.nodes(data=True) if d.get('stmt') is not None and pred(d['stmt'])]

    def reachable(self):
        return nx.descendants(self.G, ENTRY) | {ENTRY}

    def dominators(self):
        return nx.immediate_dominators(self.G, ENTRY)

    def dominates(self, a, b, idom=None):
        idom = idom or self.dominators()
        x = b
        while True:
            if x == a: return True
            if x == ENTRY or x not in idom or idom[x] == x: return x == a
            x = idom[x]

    def paths_avoiding(self, src, targets, avoid):
        """is some node in `targets` reachable from src without passing through any node in `avoid`? returns a witness path or None"""
        H = self.G.copy()
        H.remove_nodes_from([a for a in avoid if a != src])
        for t in targets:
            if t in H and src in H and nx.has_path(H, src, t):
                return nx.shortest_path(H, src, t)
        return None

    def describe_path(self, path, mod):
        out = []
        for n in path:
            st = self.G.nodes[n].get('stmt')
            if st is None: out.append(str(n))
            else: out.append(f'L{getattr(st, "lineno", "?")}')
        return ' -> '.join(out)
