"""Prototype: rewrite the Cython subset used by TidalPy into plain Python that ast.parse accepts,
keeping line numbers, and recording C-level facts (types, array sizes, noexcept/nogil) in a side table."""
import io, re, sys, tokenize, ast, glob

CTYPE_WORDS = {'double','float','int','long','short','char','unsigned','signed','complex','size_t','ssize_t','Py_ssize_t',
               'bint','void','const','str','tuple','list','dict','object','bool','double_numeric','public','readonly','inline'}

def tokens_of(src):
    return list(tokenize.generate_tokens(io.StringIO(src).readline))

def logical_lines(toks):
    cur = []
    for t in toks:
        if t.type in (tokenize.NL, tokenize.COMMENT):
            continue
        cur.append(t)
        if t.type in (tokenize.NEWLINE, tokenize.ENDMARKER):
            yield cur; cur = []
    if cur: yield cur

def untok(toks):
    # rebuild text preserving relative line structure (we only need ast.parse-able text with same first line numbers)
    out = []; line = None
    for t in toks:
        if t.type in (tokenize.NEWLINE, tokenize.ENDMARKER, tokenize.INDENT, tokenize.DEDENT): continue
        out.append(t.string)
    return ' '.join(out)

class Facts:
    def __init__(self): self.funcs = {}; self.vars = {}; self.cimports = []; self.arrays = {}

def split_top(toks, sep=','):
    parts=[[]]; depth=0
    for t in toks:
        if t.string in '([{': depth+=1
        elif t.string in ')]}': depth-=1
        if t.string == sep and depth==0: parts.append([])
        else: parts[-1].append(t)
    return parts

def is_type_start(tok, known_types):
    return tok.type == tokenize.NAME and (tok.string in CTYPE_WORDS or tok.string in known_types)

def strip_decl(toks, known_types):
    """toks: a declarator like  'double complex * * name [3][3] = expr'  or '(double, double) t_span' or 'self' or 'name=3'.
    returns (ctype_str, name, dims, default_toks)"""
    i = 0; ctype = []
    if toks and toks[0].string == '(':
        # ctuple type
        d=0
        while i < len(toks):
            if toks[i].string=='(' : d+=1
            if toks[i].string==')' : d-=1
            ctype.append(toks[i].string); i+=1
            if d==0: break
    # split off default
    eq = None; depth=0
    for j,t in enumerate(toks):
        if t.string in '([{': depth+=1
        elif t.string in ')]}': depth-=1
        elif t.string=='=' and depth==0: eq=j; break
    head = toks[i:eq] if eq is not None else toks[i:]
    default = toks[eq+1:] if eq is not None else None
    # name is the last NAME in head that is followed only by [...] groups
    k = len(head)-1; dims=[]
    while k>=0 and head[k].string==']':
        d=0; end=k
        while k>=0:
            if head[k].string==']': d+=1
            if head[k].string=='[': d-=1
            if d==0: break
            k-=1
        dims.insert(0, ' '.join(t.string for t in head[k+1:end])); k-=1
    if k < 0: raise ValueError('no name in decl: %r' % untok(toks))
    name = head[k].string
    tparts = head[:k]
    # memoryview types like double[::1] name : dims belong to type if they precede the name
    ctype += [t.string for t in tparts]
    return ' '.join(ctype), name, dims, default

def rewrite_expr_tokens(toks, known_types):
    """rewrite casts <T> x  -> __cast__('T', x) is hard at token level; instead delete the <T> and keep x (record nothing);
    rewrite unary & -> nothing (address-of) but wrap: __addr__(x) is not needed for our analyses: we keep a marker name.
    sizeof(T) -> sizeof('T')"""
    out=[]; i=0; n=len(toks)
    def prev_sig():
        return out[-1] if out else None
    while i<n:
        t=toks[i]
        p = prev_sig()
        unary_pos = (p is None) or (p in ('(', ',', '=', '[', 'return', '+','-','*','/','==','<','>','<=','>=','and','or','not','if','else',':','+=','-=','*=','/=','in'))
        if t.string=='<' and unary_pos:
            # cast: scan to matching '>' at depth 0 of []()
            j=i+1; d=0; typ=[]
            while j<n and not (toks[j].string=='>' and d==0):
                if toks[j].string in '([': d+=1
                if toks[j].string in ')]': d-=1
                typ.append(toks[j].string); j+=1
            out.append('__cast__'); out.append('('); out.append(repr(' '.join(typ))); out.append(')'); out.append('*')  # __cast__('T') * x  keeps precedence roughly (unary-level ~ multiplicative)
            i=j+1; continue
        if t.string=='&' and unary_pos:
            out.append('__addr__'); out.append('*'); i+=1; continue
        if t.string=='sizeof' and i+1<n and toks[i+1].string=='(':
            j=i+2; d=1; typ=[]
            while j<n and d>0:
                if toks[j].string=='(': d+=1
                if toks[j].string==')': d-=1
                if d>0: typ.append(toks[j].string)
                j+=1
            out += ['sizeof','(',repr(' '.join(typ)),')']; i=j; continue
        if t.type == tokenize.STRING and '\n' in t.string:
            try:
                out.append(repr(ast.literal_eval(t.string)))
            except Exception:
                out.append(repr(t.string))
        else:
            out.append(t.string)
        i+=1
    return out

def preprocess(src):
    """line-preserving text pre-pass for block forms the token rewriter does not know:
    `cdef:` blocks (each line of the block becomes its own `cdef ...` declaration), `cdef struct/enum/union/extern ...:` blocks (dropped: declarations only),
    and the legacy integer loop `for i from a <= i < b:` (-> `for i in range(a, b):`)."""
    lines = src.split('\n')
    out = list(lines)
    i = 0
    while i < len(lines):
        ln = lines[i]
        m = re.match(r'^(\s*)c(p?)def\s*:\s*(#.*)?$', ln)
        m2 = re.match(r'^(\s*)cdef\s+(packed\s+)?(struct|enum|union|extern)\b.*:\s*(#.*)?$', ln)
        if m or m2:
            ind = len((m or m2).group(1))
            out[i] = (m or m2).group(1) + 'pass'
            j = i + 1
            while j < len(lines):
                lj = lines[j]
                if lj.strip() == '' or lj.lstrip().startswith('#'):
                    j += 1; continue
                indj = len(lj) - len(lj.lstrip())
                if indj <= ind: break
                if m:
                    out[j] = ' ' * ind + 'cdef ' + lj.strip()
                else:
                    out[j] = ' ' * ind + 'pass'
                j += 1
            i = j; continue
        m3 = re.match(r'^(\s*)for\s+(\w+)\s+from\s+(.+?)\s*(<=|<)\s*\2\s*(<=|<)\s*(.+?)\s*:\s*(#.*)?$', ln)
        if m3:
            lo = m3.group(3) if m3.group(4) == '<=' else f'({m3.group(3)}) + 1'
            hi = m3.group(6) if m3.group(5) == '<' else f'({m3.group(6)}) + 1'
            out[i] = f'{m3.group(1)}for {m3.group(2)} in range({lo}, {hi}):'
        i += 1
    return '\n'.join(out)


def convert(src):
    src = preprocess(src)
    facts = Facts(); known_types=set()
    # pre-scan cdef class names as types
    for m in re.finditer(r'^\s*cdef\s+class\s+(\w+)', src, re.M): known_types.add(m.group(1))
    for m in re.finditer(r'cimport\s+(.*)', src):
        for nm in re.findall(r'\w+', m.group(1)):
            if nm[:1].isupper(): known_types.add(nm)
    toks = tokens_of(src)
    out_lines = {}
    indent_of = {}
    # indentation: compute from first token col
    res=[]
    for ll in logical_lines(toks):
        body=[t for t in ll if t.type not in (tokenize.INDENT, tokenize.DEDENT, tokenize.NEWLINE, tokenize.ENDMARKER)]
        if not body: continue
        lineno=body[0].start[0]; col=body[0].start[1]
        first=body[0].string
        strs=[t.string for t in body]
        text=None
        if first in ('cimport',) or (first=='from' and 'cimport' in strs):
            facts.cimports.append(' '.join(strs)); text='pass  # '+' '.join(strs)
            for nm in strs[strs.index('cimport')+1:]:
                if nm[:1].isupper() and nm.isidentifier(): known_types.add(nm)
        elif first=='ctypedef':
            text='pass  # ctypedef'
        elif first in ('cdef','cpdef'):
            rest=body[1:]
            if rest and rest[0].string=='class':
                text=' '.join(t.string for t in rest)
            else:
                # function if there is a '(' at depth0 followed eventually by ':' at end
                is_func = strs[-1]==':' and '(' in strs
                if is_func:
                    # find the '(' that starts params: the first '(' preceded by NAME that's not a type word... take last NAME before first top-level '(' not at index 0
                    j=None
                    for k,t in enumerate(rest):
                        if t.string=='(' and k>0 and rest[k-1].type==tokenize.NAME and rest[k-1].string not in CTYPE_WORDS: j=k;break
                    name=rest[j-1].string; rtype=' '.join(t.string for t in rest[:j-1])
                    # find matching ')'
                    d=0; e=None
                    for k in range(j,len(rest)):
                        if rest[k].string=='(':d+=1
                        if rest[k].string==')':
                            d-=1
                            if d==0: e=k;break
                    params=split_top(rest[j+1:e]); quals=[t.string for t in rest[e+1:-1]]
                    pnames=[]; ptypes={}
                    for p in params:
                        if not p: continue
                        ct,nm,dims,default=strip_decl(p, known_types)
                        ptypes[nm]=ct
                        if default is not None:
                            dtxt=' '.join(rewrite_expr_tokens(default, known_types))
                            if dtxt.strip()=='*': dtxt='None'
                            pnames.append(f'{nm}={dtxt}')
                        else: pnames.append(nm)
                    facts.funcs[(name,lineno)]={'ret':rtype,'params':ptypes,'quals':quals,'c':True}
                    text=f"def {name}({', '.join(pnames)}):"
                elif strs[-1]==':' :
                    text='if 1:  # cdef block'
                else:
                    # variable declaration(s)
                    # type is shared; split by commas
                    parts=split_top(rest)
                    stmts=[]; base=None
                    for pi,p in enumerate(parts):
                        if pi==0:
                            ct,nm,dims,default=strip_decl(p, known_types)
                            base=ct
                        else:
                            ct2,nm,dims,default=strip_decl(p, known_types); ct=base
                        # leading [N] dims (cdef double[15] arr) are in ctype
                        facts.vars[(nm,lineno)]=ct+(''.join('[%s]'%d for d in dims))
                        if default is not None:
                            stmts.append(f"{nm} = {' '.join(rewrite_expr_tokens(default, known_types))}")
                        else:
                            full = ct+(''.join('[%s]'%d for d in dims))
                            ext = re.findall(r'\[\s*([^\]\[:]+?)\s*\]', full)
                            if ext and '::' not in full and ':' not in full and '*' not in full:
                                base_t = full.split('[')[0].strip()
                                stmts.append(f"{nm} = __carray__({base_t!r}, {', '.join(ext)})")
                    text='; '.join(stmts) if stmts else 'pass'
        elif first=='def' or first=='async':
            # python def with typed params
            j=strs.index('(')
            d=0;e=None
            for k in range(j,len(body)):
                if body[k].string=='(':d+=1
                if body[k].string==')':
                    d-=1
                    if d==0:e=k;break
            params=split_top(body[j+1:e]); pn=[]; ptypes={}
            for p in params:
                if not p: continue
                if p[0].string in ('*','**'):
                    pn.append(''.join(t.string for t in p)); continue
                ct,nm,dims,default=strip_decl(p, known_types); ptypes[nm]=ct
                pn.append(nm if default is None else f"{nm}={' '.join(rewrite_expr_tokens(default, known_types))}")
            facts.funcs[(strs[1],lineno)]={'ret':'object','params':ptypes,'quals':[],'c':False}
            text=f"def {strs[1]}({', '.join(pn)}):"
        else:
            text=' '.join(rewrite_expr_tokens(body, known_types))
        res.append((lineno,col,text))
    # emit with original line numbers
    if not res:
        return '\n', facts
    maxl=max(l for l,_,_ in res)
    lines=['']*(maxl+1)
    for l,c,t in res: lines[l]=' '*c+t
    return '\n'.join(lines[1:])+'\n', facts

if __name__=='__main__':
    ok=0
    for f in sorted(glob.glob('/repo/TidalPy/**/*.pyx', recursive=True)):
        src=open(f).read()
        try:
            py,facts=convert(src)
            tree=ast.parse(py)
            nfun=sum(isinstance(n,(ast.FunctionDef)) for n in ast.walk(tree))
            nsrc=len(re.findall(r'^\s*(?:cdef|cpdef|def)\s[^=\n]*\(', src, re.M))
            print('OK ', f.replace('/repo/TidalPy/',''), 'funcs', nfun, 'src-def-lines', nsrc); ok+=1
        except Exception as e:
            print('ERR', f.replace('/repo/TidalPy/',''), type(e).__name__, e)
            if isinstance(e, SyntaxError):
                print('    ', py.split('\n')[e.lineno-1])
    print(ok)

