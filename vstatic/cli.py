"""Command line: /verif/check <ID> [--tier quick|thorough] [--repo /repo] [--replay file]"""
from __future__ import annotations
import argparse, importlib, json, os, sys
from .core.report import Check, run_guarded, AnalysisError

ALL = [f'C{i:02d}' for i in range(1, 21)]


def run_one(pid, tier, repo, seed, replay=None):
    def body():
        try:
            mod = importlib.import_module(f'vstatic.props.{pid.lower()}')
        except ModuleNotFoundError as e:
            if e.name and e.name.endswith(pid.lower()):
                raise AnalysisError(f'no checker built for {pid}')
            raise
        chk = Check(pid, tier=tier, repo=repo, seed=seed, level=getattr(mod, 'LEVEL', 'other'))
        chk.explanation = getattr(mod, 'EXPLANATION', '')
        try:
            mod.run(chk)
        except AnalysisError as ex:
            # the analysis could not be completed -- but obligations that already failed (and are not listed findings) are violations whatever comes after them:
            # they are reported (exit 1); only a run without any unlisted failure is "analysis broken" (exit 2)
            from .core.report import load_known, norm_key
            known = {norm_key(e_['key']) for e_ in load_known() if e_.get('property') == pid and e_.get('status') == 'known'}
            if not any((not o.ok) and o.key not in known for o in chk.obls):
                raise
            print(f'NOTE: the analysis stopped early ({str(ex)[:160]}); the violations found before that point are reported')
            chk.floors = {}
        rc = chk.finish()
        if tier == 'thorough' and not os.environ.get('VERIF_NO_SELFTEST'):
            selftest(pid, repo)
        return rc
    return run_guarded(pid, body)


def selftest(pid, repo):
    """thorough tier only, informational: run this property's catalogue of mutants (must be reported) and refactor twins (must stay silent) against scratch copies of
    the tree under analysis and record the outcome in the evidence file.  The exit code of the check is that of the property on the tree itself."""
    import subprocess, tempfile
    from .core import report as R
    here = os.path.dirname(os.path.dirname(os.path.abspath(__file__)))
    out = tempfile.NamedTemporaryFile(prefix='vselftest_', suffix='.json', delete=False); out.close()
    try:
        env = dict(os.environ); env['VERIF_REPO'] = repo; env['VERIF_TIER'] = 'quick'
        r = subprocess.run([sys.executable, '-B', os.path.join(here, 'selftest', 'run.py'), '--only', pid, '--jobs', str(min(16, os.cpu_count() or 4)), '--json', out.name],
                           capture_output=True, text=True, env=env, timeout=3600)
        try:
            res = json.load(open(out.name))
        except Exception:
            res = {'error': (r.stdout + r.stderr)[-400:]}
        summary = {k: res.get(k) for k in ('variants', 'mutants', 'twins', 'unexpected')}
        summary['not_as_expected'] = [row for row in res.get('rows', []) if row.get('status') != 'OK'][:20]
        print(f'SELFTEST {pid}: {summary.get("variants")} variants ({summary.get("mutants")} mutants, {summary.get("twins")} refactor twins), {summary.get("unexpected")} not as expected')
        ev = os.path.join(R.EVID_DIR, f'{pid}.json')
        if os.path.exists(ev):
            d = json.load(open(ev))
            d['coverage']['checker_selftest'] = summary
            json.dump(d, open(ev, 'w'), indent=1, default=str)
    except Exception as e:          # informational only
        print(f'SELFTEST {pid}: could not be run ({type(e).__name__}: {e})')
    finally:
        try: os.unlink(out.name)
        except OSError: pass


import sys as _sys
_sys.setrecursionlimit(50000)      # the interpreter recurses once per interpreted frame and expression level; the repository recurses too


def main(argv=None):
    try:
        import signal
        signal.signal(signal.SIGPIPE, signal.SIG_DFL)      # `check ... | head` must not turn into a traceback
    except Exception:
        pass
    ap = argparse.ArgumentParser()
    ap.add_argument('pid')
    ap.add_argument('--tier', default=os.environ.get('VERIF_TIER', 'quick'), choices=['quick', 'thorough'])
    ap.add_argument('--repo', default=os.environ.get('VERIF_REPO', '/repo'))
    ap.add_argument('--replay', default=None)
    a = ap.parse_args(argv)
    seed = int(os.environ.get('VERIF_SEED', '0') or 0)
    if a.replay:
        with open(a.replay) as f:
            rec = json.load(f)
        print(f'replaying {rec.get("rule")} {rec.get("instance")} by re-running the {rec["property"]} check')
        a.pid = rec['property']
    pids = ALL if a.pid.lower() == 'all' else [a.pid.upper()]
    rc = 0
    for p in pids:
        r = run_one(p, a.tier, a.repo, seed)
        rc = max(rc, r)
    if os.environ.get('VERIF_DIRECTED_STATS'):
        from .core.expr import DIRECTED_STATS
        print('directed sampling:', DIRECTED_STATS)
    sys.stdout.flush()
    os._exit(rc)


if __name__ == '__main__':
    main()
