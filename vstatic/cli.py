"""Command line: /verif/check <ID> [--tier quick|thorough] [--repo /repo] [--replay file]"""
from __future__ import annotations
import argparse, importlib, json, os, sys
from .core.report import Check, run_guarded, AnalysisError

ALL = [f'C{i:02d}' for i in range(1, 21)]


def run_one(pid, tier, repo, seed, replay=None):
    def body():
        try:
            mod = importlib.import_module(f'vstatic.props.{pid.lower()}')
        except ModuleNotFoundError as e:
            if e.name and e.name.endswith(pid.lower()):
                raise AnalysisError(f'no checker built for {pid}')
            raise
        chk = Check(pid, tier=tier, repo=repo, seed=seed, level=getattr(mod, 'LEVEL', 'other'))
        chk.explanation = getattr(mod, 'EXPLANATION', '')
        mod.run(chk)
        return chk.finish()
    return run_guarded(pid, body)


def main(argv=None):
    ap = argparse.ArgumentParser()
    ap.add_argument('pid')
    ap.add_argument('--tier', default=os.environ.get('VERIF_TIER', 'quick'), choices=['quick', 'thorough'])
    ap.add_argument('--repo', default=os.environ.get('VERIF_REPO', '/repo'))
    ap.add_argument('--replay', default=None)
    a = ap.parse_args(argv)
    seed = int(os.environ.get('VERIF_SEED', '0') or 0)
    if a.replay:
        with open(a.replay) as f:
            rec = json.load(f)
        print(f'replaying {rec.get("rule")} {rec.get("instance")} by re-running the {rec["property"]} check')
        a.pid = rec['property']
    pids = ALL if a.pid.lower() == 'all' else [a.pid.upper()]
    rc = 0
    for p in pids:
        r = run_one(p, a.tier, a.repo, seed)
        rc = max(rc, r)
    sys.stdout.flush()
    os._exit(rc)


if __name__ == '__main__':
    main()
