"""C13 — object-oriented world/orbit state is history-independent (abstract object graph, symbolic values)."""
from __future__ import annotations
import ast, itertools
from ..core import expr as X
from ..core.interp import PathExplorer, Interp, Obj, FuncRef, Opaque, RaiseSignal, Frame, ArrBox
from ..core.report import AnalysisError
from ..frontend.pyfront import Repo
from .common import need_class, need_func, methods

LEVEL = 'other'
TECHNIQUE = 'abstract interpretation of the real mutator / update methods (world, orbit, tides classes; super() and properties resolved through the class table) on a symbolic object graph; for every enumerated mutator sequence the exposed derived quantities are compared, as polynomial identities in the symbolic state, with those of a freshly built graph placed in the final state; tolerance / equality tests on the state are forked and histories re-send the current value after a deferred change; plus a late-binding-closure lint and a cache guard-implication rule over update routines; the same comparison on a three-layer LayeredWorld (model holders stubbed as pure functions of their live inputs) and on a host-only system (tidal host + orbiting body without tides, real world_signature_to_index)'
LEVEL_TEXT = ('Histories are unbounded; decided is history-independence for all mutator sequences up to length 2 (quick: 1 and selected 2) over {eccentricity, obliquity, spin, semi-major axis / orbital frequency / period, '
              'fixed Q, fixed dt, batched set_state} on the global-approximation (CPL and CTL) tidal model, for ALL numeric values of the state at once, using the repository\'s own methods for every step of the update cascade; '
              'together with two structural rules that cover the layered model: cached fields must be recomputed whenever a field they were computed from is recomputed, and stored closures must not capture loop variables.')
LEVEL_NOTE = ('Trusted: front-end, interpreter (class table, properties, super()), the harness-built object graph (state attributes named by the harness; configuration-dependent state of the global-approximation tides set by the class\'s own reinit from a configuration dictionary, other classes as their __init__ / reinit do). Not decided: sequences longer than 2, array aliasing effects, '
              'the numerical laws inside the rheology model holders of the layered model (uninterpreted pure functions; the holder classes themselves -- calculate, _calculate, live-argument getters, properties -- are interpreted in the second pass of R13.7), the cooling / radiogenic holders (stubs).')
EXPLANATION = ('R13.3 history independence on the abstract object graph (single mutators and pairs) for CPL and CTL; R13.2 guard implication in update routines of the tidal classes; '
               'R13.4 flag plumbing: each mutator reaches the tides update with the flag of what it changed; R13.5 late-binding closures; R13.6 a fully updated world equals the functional API at that state; R13.7 history independence of a three-layer LayeredWorld incl. temperature changes; R13.8 per-layer heating equals the functional API on the inputs of that layer; R13.9 host-only dissipation: changes routed through the orbit, the orbiting body or the host leave the tidal quantities of the host and the cached da/dt, de/dt, dn/dt of the orbit equal to a fresh system. R13.10 two tidal worlds on one orbit updated by one OrbitBase.set_states call with per-world None entries: both worlds equal fresh worlds in their final states. The tidal object of every scenario is initialised by the class\'s own reinit from a configuration dictionary (CTL laws linear_simple and linear_simple_with_q).')
EXPLANATION += ' R13.3 is decided a second time with array-valued state (arrays as mutable cells): the arrays the driver handed over come back intact and the exposed quantities equal those of a fresh world.'

QUANT = ('_tidal_heating_global', '_dUdM', '_dUdw', '_dUdO', '_tidal_susceptibility')


class Sys:
    pass


def build(repo, it, st, use_ctl, obliq_on, sync=False, ctl_law='linear_simple'):
    """symbolic object graph: orbit (PhysicsOrbit) with [host, world]; world (TidalWorld) with GlobalApproxTides"""
    mw = repo.by_path('TidalPy/structures/world_types/tidal.py'); mo = repo.by_path('TidalPy/structures/orbit/physics.py'); mt = repo.by_path('TidalPy/tides/methods/global_approx.py')
    mm = repo.by_path('TidalPy/tides/modes/mode_manipulation.py')
    Wc = ('class', mw, need_class(mw, 'TidalWorld')); Oc = ('class', mo, need_class(mo, 'PhysicsOrbit')); Tc = ('class', mt, need_class(mt, 'GlobalApproxTides'))
    s = Sys()
    noop = lambda *a, **k: None
    s.host = Obj(name='host', attrs={'mass': st['M_host'], 'tides': None, 'tides_on': False, 'dUdM': None, 'dUdw': None, 'dUdO': None, 'orbit_spin_changed': noop, 'name': 'host', 'force_spin_sync': False,
                                    'is_spin_sync': False, '__index__': 0})
    fm = it.call(mm, need_func(mm, 'find_mode_manipulators'), [2, 2, obliq_on])
    s.tides = Obj(cls=Tc, name='tides', attrs={
        '_fixed_q': st['Q'], '_fixed_dt': st['dt'], '_fixed_k2': st['k2'], '_tidal_susceptibility': None, '_tidal_susceptibility_reduced': None, '_unique_tidal_frequencies': None,
        '_tidal_terms_by_frequency': None, '_tidal_heating_global': None, '_dUdM': None, '_dUdw': None, '_dUdO': None, '_effective_q_by_orderl': None, '_global_negative_imk_by_orderl': None,
        '_global_love_by_orderl': None, '_need_to_collapse_modes': False, '_new_tidal_frequencies': False, '_eccentricity_truncation_lvl': 2, '_max_tidal_order_lvl': 2, '_use_obliquity_tides': obliq_on,
        '_multiply_modes_by_sign': True, '_eccentricity_results': None, '_obliquity_results': None, 'calculate_modes_func': fm[0], 'collapse_modes_func': fm[1], 'eccentricity_func': fm[2], 'obliquity_func': fm[3],
        '_tidal_inputs': None, '_ctl_complex_love_by_unique_freq': None, '_cpl_complex_love_by_unique_freq': None, '_use_ctl': use_ctl, '_ctl_calc_method': None, '_ctl_calc_input_getter': None, 'model': 'global_approx'})
    # the configuration-dependent part of the state (the CTL law and the getter of its inputs, whatever else the class derives from its configuration) is set up by the
    # class's own reinit, not by this harness
    s.tides.attrs['config'] = {'use_ctl': use_ctl, 'fixed_q': st['Q'], 'static_k2': st['k2'], 'fixed_dt': st['dt'], 'ctl_calc_method': ctl_law, 'eccentricity_truncation_lvl': 2,
                               'max_tidal_order_l': 2, 'obliquity_tides_on': obliq_on, 'multiply_modes_by_sign': True}
    s.world = Obj(cls=Wc, name='world', attrs={
        '_spin_frequency': (None if sync else st['spin']), '_spin_period': None, '_obliquity': st['obl'], '_tides': s.tides, '_is_spin_sync': sync, '_tides_on': True, '_force_spin_sync': sync, 'mass': st['M_world'], 'moi': st['C'],
        'radius': st['R'], 'tidal_scale': st['tscale'], 'density_bulk': st['rho'], 'gravity_surface': st['g'], 'name': 'world', 'world_class': 'simple_tidal', '_time': None, '_spin_time_derivative': None,
        '_tidal_polar_torque': None, 'update_surface_temperature': noop, '__index__': 1})
    s.tides.attrs['world'] = s.world; s.tides.attrs['_world'] = s.world
    s.orbit = Obj(cls=Oc, name='orbit', attrs={
        '_eccentricities': [None, st['e']], '_semi_major_axes': [None, st['a']], '_orbital_frequencies': [None, None], '_orbital_periods': [None, None],
        '_tidal_objects': [s.host, s.world], '_tidal_host': s.host, '_star': None, '_host_tide_raiser': s.world, '_star_host': False, '_all_objects': [s.host, s.world],
        '_eccentricity_time_derivatives': [None, None], '_semi_major_axis_time_derivatives': [None, None], '_orbital_motion_time_derivatives': [None, None], '_last_calc_used_dual_body': False})
    s.world.attrs['orbit'] = s.orbit
    for o in (s.tides, s.world, s.orbit):
        constructor_defaults(it, o)
    call(it, s.tides, 'reinit', initial_init=True)
    return s


def add_world(repo, it, s, st2, use_ctl, obliq_on):
    """a second tidal world on the same orbit (index 2): the same classes, its own state"""
    s2 = build(repo, it, st2, use_ctl, obliq_on)
    s.world2, s.tides2 = s2.world, s2.tides
    s.world2.name = 'world2'; s.world2.attrs['name'] = 'world2'; s.world2.attrs['__index__'] = 2; s.world2.attrs['orbit'] = s.orbit
    oa = s.orbit.attrs
    oa['_eccentricities'].append(st2['e']); oa['_semi_major_axes'].append(st2['a'])
    for k_ in ('_orbital_frequencies', '_orbital_periods', '_eccentricity_time_derivatives', '_semi_major_axis_time_derivatives', '_orbital_motion_time_derivatives'):
        oa[k_].append(None)
    oa['_tidal_objects'].append(s.world2); oa['_all_objects'].append(s.world2)
    return s


def exposed_of(s, tides, idx):
    out = {q: tides.attrs.get(q) for q in QUANT}
    uf = tides.attrs.get('_unique_tidal_frequencies')
    if isinstance(uf, dict):
        for sig, v in uf.items(): out[f'unique_frequency{sig}'] = v
    out['de/dt'] = s.orbit.attrs['_eccentricity_time_derivatives'][idx]
    out['da/dt'] = s.orbit.attrs['_semi_major_axis_time_derivatives'][idx]
    out['n'] = s.orbit.attrs['_orbital_frequencies'][idx]
    return out


BATCHED = {
    # name -> per-world (eccentricity, semi-major axis, orbital frequency, orbital period) sent through OrbitBase.set_states; None = that world's value is left alone
    'set_states(e for the first world, a for the second)': (('e', None, None, None), (None, 'a', None, None)),
    'set_states(a for the first world, e for the second)': ((None, 'a', None, None), ('e', None, None, None)),
    'set_states(e and a for the first world, nothing for the second)': (('e', 'a', None, None), (None, None, None, None)),
    'set_states(nothing for the first world, e and a for the second)': ((None, None, None, None), ('e', 'a', None, None)),
    'set_states(e and a for both worlds)': (('e', 'a', None, None), ('e', 'a', None, None)),
}


def batched_two_worlds(chk, repo, d, rule):
    """two tidal worlds on one orbit, updated in one OrbitBase.set_states call with per-world None entries: each world must end up as a fresh world in its own final state"""
    mo = repo.by_path('TidalPy/structures/orbit/base.py')
    d = X.Decider(seed=chk.seed + 5, k=2, positive=[X.atom('M_host', 'pos') + X.atom('M_world', 'pos'), X.atom('M_host', 'pos') + X.atom('M_worldB', 'pos')])
    for use_ctl in (False, True):
        model = 'CTL' if use_ctl else 'CPL'
        for name, spec in BATCHED.items():
            sts = [state_atoms('0'), {k_: (X.atom(k_ + 'B0', 'pos' if k_ in ('Q', 'dt', 'e', 'a') else 'real') if k_ in ('Q', 'dt', 'spin', 'obl', 'e', 'a') else v_) for k_, v_ in state_atoms('0').items()}]
            sts[1]['M_world'] = X.atom('M_worldB', 'pos'); sts[1]['R'] = X.atom('RB', 'pos')
            finals = [dict(sts[0]), dict(sts[1])]
            lists = {'e': [None, None], 'a': [None, None]}
            for w_, sp_ in enumerate(spec):
                for k_ in sp_[:2]:
                    if k_ is not None:
                        lists[k_][w_] = finals[w_][k_] = X.atom(f'{k_}{"AB"[w_]}1', 'pos')

            def prime(it, s):
                for w_ in (s.world, s.world2):
                    call(it, s.orbit, 'set_semi_major_axis', w_, s.orbit.attrs['_semi_major_axes'][w_.attrs['__index__']], called_from_orbit=False)
                for w_ in (s.world, s.world2):
                    call(it, w_, 'orbit_spin_changed', orbital_freq_changed=True, spin_freq_changed=True, eccentricity_changed=True, obliquity_changed=True)

            def history(fork):
                it = make_interp(repo)
                it.hooks['fork'] = fork
                s = add_world(repo, it, build(repo, it, sts[0], use_ctl, True), sts[1], use_ctl, True)
                prime(it, s)
                kw = {}
                if any(v_ is not None for v_ in lists['e']): kw['eccentricities'] = list(lists['e'])
                if any(v_ is not None for v_ in lists['a']): kw['semi_major_axes'] = list(lists['a'])
                call(it, s.orbit, 'set_states', [s.world, s.world2], **kw)
                return {'first world: ' + q_: v_ for q_, v_ in exposed_of(s, s.tides, 1).items()} | {'second world: ' + q_: v_ for q_, v_ in exposed_of(s, s.tides2, 2).items()}
            try:
                got, path_label = explore_history(history)
                it2 = make_interp(repo)
                sf = add_world(repo, it2, build(repo, it2, finals[0], use_ctl, True), finals[1], use_ctl, True)
                prime(it2, sf)
                ref = {'first world: ' + q_: v_ for q_, v_ in exposed_of(sf, sf.tides, 1).items()} | {'second world: ' + q_: v_ for q_, v_ in exposed_of(sf, sf.tides2, 2).items()}
            except RaiseSignal as ex:
                raise AnalysisError(f'{name} on {model}: unexpected raise {ex.text}')
            bad = []
            for q in sorted(set(got) | set(ref)):
                a_, b_ = got.get(q), ref.get(q)
                if a_ is None and b_ is None: continue
                if isinstance(a_, ArrBox): a_ = X.lift(a_)
                if isinstance(b_, ArrBox): b_ = X.lift(b_)
                if not (isinstance(a_, X.Node) and isinstance(b_, X.Node)):
                    if isinstance(a_, dict) and isinstance(b_, dict): continue
                    bad.append(f'{q}: {"unset" if a_ is None else "set"} after the batched update, {"unset" if b_ is None else "set"} on fresh worlds'); continue
                if not d.equal(a_, b_):
                    r_, sc = d.residual(a_, b_)
                    bad.append(f'{q.lstrip("_")} differs from a fresh world in the final state (float residual {r_:.3g} on scale {sc:.3g})')
            chk.ob(rule, f'{model}, two tidal worlds on one orbit: after orbit.{name} every exposed tidal quantity of both worlds equals that of fresh worlds in the final state', not bad,
                   '; '.join(bad[:4]) + (path_label if bad else ''), mo.rel(), key=f'{rule}|{model}|two-worlds|{name}', method='abstract object graph (two worlds) + GF(p^2) PIT')


def constructor_defaults(it, obj):
    """state attributes the harness does not name but the class's __init__ (anywhere up the bases) initialises to a literal: a cache or
    flag added to the class is modelled from its constructor value instead of stopping the analysis"""
    todo = [obj.cls]; seen = set()
    while todo:
        c = todo.pop(0)
        if id(c[2]) in seen: continue
        seen.add(id(c[2]))
        for st in c[2].body:
            if isinstance(st, ast.FunctionDef) and st.name == '__init__':
                for n in ast.walk(st):
                    if isinstance(n, ast.Assign) and len(n.targets) == 1 and isinstance(n.targets[0], ast.Attribute) and isinstance(n.targets[0].value, ast.Name) \
                            and n.targets[0].value.id == 'self' and isinstance(n.value, ast.Constant) and n.targets[0].attr not in obj.attrs:
                        obj.attrs[n.targets[0].attr] = n.value.value
                    elif isinstance(n, ast.Assign) and len(n.targets) == 1 and isinstance(n.targets[0], ast.Attribute) and isinstance(n.targets[0].value, ast.Name) \
                            and n.targets[0].value.id == 'self' and n.targets[0].attr not in obj.attrs:
                        v_ = n.value          # an empty container (a cache the class starts with)
                        if (isinstance(v_, ast.Dict) and not v_.keys) or (isinstance(v_, ast.Call) and isinstance(v_.func, ast.Name) and v_.func.id == 'dict' and not v_.args and not v_.keywords):
                            obj.attrs[n.targets[0].attr] = {}
                        elif (isinstance(v_, ast.List) and not v_.elts) or (isinstance(v_, ast.Call) and isinstance(v_.func, ast.Name) and v_.func.id == 'list' and not v_.args):
                            obj.attrs[n.targets[0].attr] = []
                        elif isinstance(v_, ast.Call) and isinstance(v_.func, ast.Name) and v_.func.id == 'set' and not v_.args:
                            obj.attrs[n.targets[0].attr] = set()
        todo += it.bases_of(c)


def make_interp(repo):
    def glob_hook(itp, mod, nm):
        if nm == 'log': return Opaque('log')
        return None

    def expr_hook(itp, e, fr):
        if isinstance(e, ast.Attribute) and ast.unparse(e) == 'TidalPy.extensive_checks':
            return False
        return NotImplemented

    def call_hook(itp, f, args, kwargs, e, fr):
        if isinstance(f, FuncRef) and f.node.name == 'world_signature_to_index':
            sig = args[0] if args else kwargs.get('world_signature')
            if isinstance(sig, Obj): return sig.attrs['__index__']
            return sig
        return NotImplemented
    return Interp(repo, hooks={'global': glob_hook, 'expr': expr_hook, 'call': call_hook}, max_depth=40)


def exact_coincidence(tr_):
    """a path on which two different values are exactly equal (a new value compared with `==` against a remembered one): there nothing has moved, so nothing can be stale;
    the histories that send the same value again (RESEND) cover exact-equality short-cuts"""
    def two_values(v_):
        # x == y between two non-constant values, neither of them a mask (np.any(mask) is `mask != 0`: an open condition, not a coincidence)
        a_, b_ = v_.args
        return a_.op not in ('const', 'cmp') and b_.op not in ('const', 'cmp')
    return any(isinstance(v_, X.Node) and v_.op == 'cmp' and v_.val in ('==', '!=') and two_values(v_) and PathExplorer.arm(v_, o_)[0] == 'equality' for (v_, _w, _t, o_) in tr_)


def explore_history(history):
    """history(fork) interprets one mutator history and returns what the objects expose.  A tolerance test on the state (np.allclose(new, current)) may come out either way for
    values that differ, so every outcome is a history; the one on which a test held although the value moved is the one compared (it is the one that can go stale)."""
    paths = PathExplorer(max_paths=64).run(history)
    paths = [p_ for p_ in paths if not exact_coincidence(p_[0])] or paths
    got, label = paths[0][1], ''
    for tr_, g_ in paths:
        if tr_ and any(o_ for (_v, _w, _t, o_) in tr_):
            got, label = g_, PathExplorer.label(tr_)
            break
    return got, label


def method(it, obj, name):
    m = it.find_method(obj.cls, name)
    if m is None:
        raise AnalysisError(f'{obj.name}: method {name} vanished')
    return m


def call(it, obj, name, *args, **kwargs):
    m = method(it, obj, name)
    return it.call(m[0], m[1], list(args), kwargs, self_obj=obj, owner=m[2])


def full_init(it, s):
    """what attaching the world to an orbit and giving it a complete state does"""
    # orbit knows a: derive n, P (as OrbitBase.set_semi_major_axis does)
    call(it, s.orbit, 'set_semi_major_axis', s.world, s.orbit.attrs['_semi_major_axes'][1], called_from_orbit=False)


def state_atoms(tag):
    return {'M_host': X.atom('M_host', 'pos'), 'M_world': X.atom('M_world', 'pos'), 'C': X.atom('C_moi', 'pos'), 'R': X.atom('R', 'pos'), 'tscale': X.atom('tscale', 'pos'), 'rho': X.atom('rho', 'pos'),
            'g': X.atom('g', 'pos'), 'k2': X.atom('k2', 'pos'),
            'Q': X.atom(f'Q{tag}', 'pos'), 'dt': X.atom(f'dt{tag}', 'pos'), 'spin': X.atom(f'spin{tag}'), 'obl': X.atom(f'obl{tag}'), 'e': X.atom(f'e{tag}', 'pos'), 'a': X.atom(f'a{tag}', 'pos')}


MUTATORS = {
    'orbit.set_eccentricity': ('e', lambda it, s, v: call(it, s.orbit, 'set_eccentricity', s.world, v)),
    'world.set_obliquity': ('obl', lambda it, s, v: call(it, s.world, 'set_obliquity', v)),
    'world.set_spin_frequency': ('spin', lambda it, s, v: call(it, s.world, 'set_spin_frequency', v)),
    'orbit.set_semi_major_axis': ('a', lambda it, s, v: call(it, s.orbit, 'set_semi_major_axis', s.world, v)),
    'world.set_fixed_q': ('Q', lambda it, s, v: call(it, s.world, 'set_fixed_q', v)),
    'world.set_fixed_dt': ('dt', lambda it, s, v: call(it, s.world, 'set_fixed_dt', v)),
    'world.set_state(eccentricity)': ('e', lambda it, s, v: call(it, s.world, 'set_state', eccentricity=v)),
    'world.set_state(obliquity)': ('obl', lambda it, s, v: call(it, s.world, 'set_state', obliquity=v)),
    'world.set_state(spin_frequency)': ('spin', lambda it, s, v: call(it, s.world, 'set_state', spin_frequency=v)),
    'world.set_state(semi_major_axis)': ('a', lambda it, s, v: call(it, s.world, 'set_state', semi_major_axis=v)),
    'orbit.set_state(eccentricity)': ('e', lambda it, s, v: call(it, s.orbit, 'set_state', s.world, eccentricity=v)),
}
# the orbit given by its period or mean motion, the spin by its period: the final state is then the (a, spin) the repository's own conversions give for that value
MUTATORS.update({
    'orbit.set_orbital_period': ('P', lambda it, s, v: call(it, s.orbit, 'set_orbital_period', s.world, v)),
    'orbit.set_orbital_frequency': ('n', lambda it, s, v: call(it, s.orbit, 'set_orbital_frequency', s.world, v)),
    'world.set_state(orbital_period)': ('P', lambda it, s, v: call(it, s.world, 'set_state', orbital_period=v)),
    'world.set_spin_period': ('Pspin', lambda it, s, v: call(it, s.world, 'set_spin_period', v)),
    'world.set_state(spin_period)': ('Pspin', lambda it, s, v: call(it, s.world, 'set_state', spin_period=v)),
})


def derived_state(repo, key, v, st):
    """(state key, value) a period / mean-motion mutator amounts to, through the repository's own conversion helpers"""
    mc = repo.by_path('TidalPy/utilities/conversions/conversions.py')
    itc = Interp(repo)
    if key == 'Pspin':
        return 'spin', itc.call(mc, need_func(mc, 'days2rads'), [v])
    n_ = itc.call(mc, need_func(mc, 'days2rads'), [v]) if key == 'P' else v
    return 'a', itc.call(mc, need_func(mc, 'orbital_motion2semi_a'), [n_, st['M_host'], st['M_world']])


# batched changes: the value is stored with run_updates=False and takes effect with the next change that does update
DEFERRED = {
    'world.set_fixed_q(deferred)': ('Q', lambda it, s, v: call(it, s.world, 'set_fixed_q', v, run_updates=False)),
    'world.set_fixed_dt(deferred)': ('dt', lambda it, s, v: call(it, s.world, 'set_fixed_dt', v, run_updates=False)),
    'tides.set_state(fixed_q, fixed_dt; deferred)': ('Q+dt', lambda it, s, v: call(it, s.tides, 'set_state', fixed_q=v[0], fixed_dt=v[1], run_updates=False)),
}
MUTATORS.update(DEFERRED)
# a driver re-sending the state it read back (the very same objects): carries no new value, but is a change request like any other -- whatever was deferred rides on it
RESEND = {
    'world.set_state(eccentricity = the current value)': ('same', lambda it, s, v: call(it, s.world, 'set_state', eccentricity=s.orbit.attrs['_eccentricities'][1])),
    'orbit.set_state(semi_major_axis = the current value)': ('same', lambda it, s, v: call(it, s.orbit, 'set_state', s.world, semi_major_axis=s.orbit.attrs['_semi_major_axes'][1])),
    'world.set_state(spin_frequency = the current value)': ('same', lambda it, s, v: call(it, s.world, 'set_state', spin_frequency=s.world.attrs['_spin_frequency'])),
}
MUTATORS.update(RESEND)


def exposed(s):
    out = {q: s.tides.attrs.get(q) for q in QUANT}
    uf = s.tides.attrs.get('_unique_tidal_frequencies')
    if isinstance(uf, dict):
        for sig, v in uf.items(): out[f'unique_frequency{sig}'] = v
    lv = s.tides.attrs.get('_global_love_by_orderl')
    if isinstance(lv, dict):
        for l, v in lv.items(): out[f'love[{l}]'] = v
    out['de/dt'] = s.orbit.attrs['_eccentricity_time_derivatives'][1]
    out['da/dt'] = s.orbit.attrs['_semi_major_axis_time_derivatives'][1]
    out['n'] = s.orbit.attrs['_orbital_frequencies'][1]
    return out


TECHNIQUE += '; the layered histories repeated with array-valued state (two tidal layers; arrays as mutable cells)'

def run(chk):
    repo = Repo(chk.repo)
    closures(chk, repo)
    guard_implication(chk, repo)
    d = X.Decider(seed=chk.seed, k=2, positive=[X.atom('M_host', 'pos') + X.atom('M_world', 'pos')])
    mt = repo.by_path('TidalPy/tides/methods/global_approx.py')
    where_t = mt.rel()
    nseq = 0
    for use_ctl, sync, ctl_law in ((False, False, 'linear_simple'), (True, False, 'linear_simple'), (False, True, 'linear_simple'), (True, False, 'linear_simple_with_q')):
        for obliq_on in ((True,) if chk.tier == 'quick' or ctl_law != 'linear_simple' else (True, False)):
            model = ('CTL' if use_ctl else 'CPL') + (' (law linear_simple_with_q: inputs dt and Q)' if ctl_law != 'linear_simple' else '') + (', obliquity tides on' if obliq_on else ', obliquity tides off') + (', spin forced synchronous' if sync else '')
            singles = [m_ for m_ in MUTATORS if m_ not in DEFERRED and m_ not in RESEND]
            if sync:
                # the spin follows the mean motion: it is not set from outside
                singles = [m_ for m_ in singles if 'spin' not in m_]
            if chk.tier == 'quick':
                pairs = [('orbit.set_eccentricity', 'world.set_fixed_q'), ('world.set_spin_frequency', 'orbit.set_eccentricity'), ('world.set_obliquity', 'orbit.set_semi_major_axis'),
                         ('world.set_fixed_q', 'world.set_spin_frequency'), ('orbit.set_semi_major_axis', 'orbit.set_eccentricity'), ('orbit.set_orbital_period', 'world.set_spin_period'),
                         ('world.set_spin_period', 'orbit.set_orbital_frequency')]
            else:
                base = ['orbit.set_eccentricity', 'world.set_obliquity', 'world.set_spin_frequency', 'orbit.set_semi_major_axis', 'world.set_fixed_q', 'world.set_fixed_dt']
                pairs = [(a_, b_) for a_ in base for b_ in base if a_ != b_]
            followups = ['orbit.set_eccentricity', 'world.set_spin_frequency'] if chk.tier == 'quick' else ['orbit.set_eccentricity', 'world.set_spin_frequency', 'world.set_obliquity', 'orbit.set_semi_major_axis',
                                                                                                   'world.set_state(eccentricity)', 'orbit.set_state(eccentricity)']
            # a change stored with run_updates=False is applied by the next change that makes the tides recompute; with obliquity tides off an obliquity change
            # recomputes nothing (by design), so it is not a follow-up that the deferred value can be expected to ride on
            if not obliq_on:
                followups = [f_ for f_ in followups if 'obliquity' not in f_]
            pairs = pairs + [(d_, f_) for d_ in DEFERRED for f_ in followups]
            pairs = pairs + [(d_, f_) for d_ in (list(DEFERRED)[:1] if chk.tier == 'quick' else DEFERRED) for f_ in RESEND if ('spin' not in f_ or True)]
            seqs = [(m,) for m in singles] + pairs
            # A ; B ; A with the same value of A sent again, and A ; B ; A' ; B' (length 3 and 4)
            base3 = ['orbit.set_eccentricity', 'world.set_spin_frequency', 'orbit.set_semi_major_axis', 'world.set_fixed_q', 'world.set_obliquity', 'world.set_state(eccentricity)']
            if chk.tier == 'quick':
                longer = [('orbit.set_eccentricity', 'world.set_spin_frequency', 'again: orbit.set_eccentricity'), ('world.set_fixed_q', 'orbit.set_semi_major_axis', 'again: world.set_fixed_q'),
                          ('orbit.set_semi_major_axis', 'orbit.set_eccentricity', 'orbit.set_semi_major_axis')]
            else:
                longer = [(a_, b_, 'again: ' + a_) for a_ in base3 for b_ in base3 if a_ != b_] + [(a_, b_, a_) for a_ in base3[:4] for b_ in base3[:4] if a_ != b_] + \
                         [(a_, b_, a_, b_) for a_ in base3[:3] for b_ in base3[:3] if a_ != b_]
            seqs = seqs + longer
            # cold starts: the world joins the orbit before its state is complete (no spin yet; or no eccentricity yet), the orbit is changed, and the missing quantity arrives
            # last -- in a call of its own, which raises only its own change flag.  Everything an earlier, incomplete update skipped must be made up for.
            cold = [('cold:spin', 'orbit.set_semi_major_axis', 'world.set_spin_frequency'), ('cold:spin', 'world.set_state(semi_major_axis)', 'world.set_spin_frequency'),
                    ('cold:spin', 'orbit.set_eccentricity', 'world.set_state(spin_frequency)'), ('cold:e', 'orbit.set_semi_major_axis', 'orbit.set_eccentricity'),
                    ('cold:e', 'world.set_spin_frequency', 'world.set_state(eccentricity)')]
            if chk.tier != 'quick':
                cold += [('cold:spin', 'orbit.set_semi_major_axis', 'orbit.set_eccentricity', 'world.set_spin_frequency'), ('cold:spin', 'world.set_fixed_q', 'orbit.set_semi_major_axis', 'world.set_spin_frequency'),
                         ('cold:e', 'orbit.set_semi_major_axis', 'world.set_obliquity', 'orbit.set_state(eccentricity)'), ('cold:spin', 'world.set_obliquity', 'world.set_spin_frequency')]
            seqs = seqs + cold
            if sync:
                seqs = [q_ for q_ in seqs if not any('spin' in m_ for m_ in q_)]
            # second pass with numpy arrays as state values (mutable cells: `x = y` aliases, `x op= c` updates in place): the driver's own arrays must come back intact
            array_seqs = [(m,) for m in singles] + (pairs if chk.tier != 'quick' else pairs[:3])
            if sync:
                array_seqs = [q_ for q_ in array_seqs if not any('spin' in m_ for m_ in q_)]
            for arrays, seq in [(False, q_) for q_ in seqs] + [(True, q_) for q_ in array_seqs]:
                nseq += 1
                st0 = state_atoms('0')
                final = dict(st0)
                handed = []          # (label, cell, value) of every array the driver handed over

                def history(fork, seq=seq, st0=st0, final=final):
                    it = make_interp(repo)
                    it.hooks['fork'] = fork
                    it.array_mode = arrays
                    del handed[:]

                    def hand(label, v):
                        if not arrays: return v
                        if isinstance(v, tuple): return tuple(hand(f'{label}[{j}]', x_) for j, x_ in enumerate(v))
                        c_ = ArrBox(v); handed.append((label, c_, v))
                        return c_
                    stb = {k_: (hand(f'initial {k_}', v_) if k_ in ('Q', 'dt', 'spin', 'obl', 'e', 'a') else v_) for k_, v_ in st0.items()}
                    if seq and seq[0].startswith('cold:'):
                        stb[{'spin': 'spin', 'e': 'e'}[seq[0][5:]]] = None          # not known yet when the world joins the orbit
                    s = build(repo, it, stb, use_ctl, obliq_on, sync, ctl_law)
                    full_init(it, s)
                    call(it, s.world, 'orbit_spin_changed', orbital_freq_changed=True, spin_freq_changed=True, eccentricity_changed=True, obliquity_changed=True)
                    sent = {}
                    for i, mname in enumerate(seq):
                        if mname.startswith('cold:'):
                            continue
                        if mname.startswith('again: '):
                            # the value of the first step is sent once more (A ; B ; A): a cache that remembers "the last value seen" must not mistake it for no change
                            key, fn_ = MUTATORS[mname[7:]]
                            newv = sent[mname[7:]]
                            fn_(it, s, hand(f'step {i + 1} value', newv))
                            final[key] = newv
                            continue
                        key, fn_ = MUTATORS[mname]
                        if key == 'Q+dt':
                            newv = (X.atom(f'Q{i + 1}', 'pos'), X.atom(f'dt{i + 1}', 'pos'))
                            fn_(it, s, hand(f'step {i + 1} value', newv))
                            final['Q'], final['dt'] = newv
                            continue
                        if key == 'same':
                            fn_(it, s, None)
                            continue
                        newv = X.atom(f'{key}{i + 1}', 'pos' if key in ('e', 'a', 'Q', 'dt', 'P', 'n', 'Pspin') else 'real')
                        sent[mname] = newv
                        fn_(it, s, hand(f'step {i + 1} value', newv))
                        if key in ('P', 'n', 'Pspin'):
                            k2_, v2_ = derived_state(repo, key, newv, st0)
                            final[k2_] = v2_
                        else:
                            final[key] = newv
                    out_ = {q_: (X.lift(v_) if isinstance(v_, ArrBox) else v_) for q_, v_ in exposed(s).items()}
                    if arrays:
                        out_['__handed__'] = [(lab_, c_.v, v_) for lab_, c_, v_ in handed]
                    return out_
                hist_raise = None
                try:
                    # a tolerance test on the state (np.allclose(new, current)) may come out either way for values that differ: both outcomes are histories
                    got, path_label = explore_history(history)
                except RaiseSignal as ex:
                    hist_raise = ex
                    if not seq or not seq[0].startswith('cold:'):
                        raise AnalysisError(f'sequence {seq} on {model}: unexpected raise {ex.text}')
                    # (the values the history would have sent are needed for the fresh world: replay the bookkeeping only)
                    for i, mname in enumerate(seq):
                        if mname.startswith('cold:') or mname.startswith('again: '): continue
                        key = MUTATORS[mname][0]
                        if key in ('same', 'Q+dt'): continue
                        final[key] = X.atom(f'{key}{i + 1}', 'pos' if key in ('e', 'a', 'Q', 'dt') else 'real')
                try:
                    it2 = make_interp(repo)
                    sf = build(repo, it2, final, use_ctl, obliq_on, sync, ctl_law)
                    full_init(it2, sf)
                    call(it2, sf.world, 'orbit_spin_changed', orbital_freq_changed=True, spin_freq_changed=True, eccentricity_changed=True, obliquity_changed=True)
                    ref = exposed(sf)
                except RaiseSignal as ex:
                    raise AnalysisError(f'fresh world for sequence {seq} on {model}: unexpected raise {ex.text}')
                if hist_raise is not None:
                    # the history ends in an exception where a fresh world placed in the same final state works: a history-dependent outcome
                    inst = f'{model}{", array-valued state" if arrays else ""}: after {" ; ".join(seq)} every exposed tidal quantity equals that of a fresh world in the final state'
                    chk.ob('R13.3', inst, False, f'the sequence raises {hist_raise.text[:120]} (a quantity an earlier, incomplete update should have set is missing); a fresh world in the final state does not',
                           where_t, key=f'R13.3|{model}{"|arrays" if arrays else ""}|{"+".join(seq)}', method='abstract object graph + GF(p^2) PIT')
                    continue
                bad = []
                for lab_, now_, was_ in got.pop('__handed__', []):
                    if now_ is not was_ and not d.equal(now_, was_):
                        bad.append(f'the array the driver passed as {lab_} is modified in place')
                for q in sorted(set(got) | set(ref)):
                    a_, b_ = got.get(q), ref.get(q)
                    if a_ is None and b_ is None: continue
                    if not (isinstance(a_, X.Node) and isinstance(b_, X.Node)):
                        bad.append(f'{q}: {"unset" if a_ is None else "set"} after the sequence, {"unset" if b_ is None else "set"} on a fresh world'); continue
                    if not d.equal(a_, b_):
                        r_, sc = d.residual(a_, b_)
                        bad.append(f'{q.lstrip("_")} differs from a fresh world in the final state (float residual {r_:.3g} on scale {sc:.3g})')
                inst = f'{model}{", array-valued state" if arrays else ""}: after {" ; ".join(seq)} every exposed tidal quantity equals that of a fresh world in the final state'
                chk.ob('R13.3', inst, not bad, '; '.join(bad[:4]) + (path_label if bad else ''), where_t, key=f'R13.3|{model}{"|arrays" if arrays else ""}|{"+".join(seq)}', method='abstract object graph + GF(p^2) PIT')
    chk.note_analysed('mutator_sequences', nseq)
    # ---- R13.7 the layered model (per-layer rheology, LayeredTides): same question on a three-layer world
    from . import c13_layered
    c13_layered.run_layered(chk, repo, 'R13.7')
    chk.floor('R13.7', 15)
    c13_layered.functional(chk, repo, 'R13.8')
    chk.floor('R13.8', 2)
    # ---- R13.9 host-only dissipation (the host carries the tides, the orbiting body has none), changes routed through the orbit or through the body
    from . import c13_hostonly
    c13_hostonly.run_hostonly(chk, repo, 'R13.9')
    chk.floor('R13.9', 12)
    from .solver_whole import guarded
    guarded(chk, 'C13', lambda: batched_two_worlds(chk, repo, d, 'R13.10'))
    chk.floor('R13.10', 10)
    guarded(chk, 'C13', lambda: functional_api(chk, repo, d))
    guarded(chk, 'C13', lambda: plumbing(chk, repo))
    chk.floor('R13.3', 25); chk.floor('R13.5', 1); chk.floor('R13.4', 6); chk.floor('R13.6', 4)      # (R13.2 is a localising lint over routines that assign cached fields directly; history independence itself is R13.3 / R13.7 / R13.9)
    chk.assume('world attached to an orbit with a tidal host; spin not forced synchronous; numeric state arbitrary (symbolic)')


# ------------------------------------------------------------------------------------------------ R13.6
def functional_api(chk, repo, d):
    """a freshly updated world reports what the functional API gives for the same state"""
    mm = repo.by_path('TidalPy/tides/modes/mode_manipulation.py'); mdis = repo.by_path('TidalPy/tides/dissipation.py'); mg = repo.by_path('TidalPy/tides/methods/global_approx.py')
    mc = repo.by_path('TidalPy/tides/ctl_funcs/ctl_funcs.py'); mconv = repo.by_path('TidalPy/utilities/conversions/conversions.py')
    for use_ctl in (False, True):
        for obliq_on in (True, False):
            it = make_interp(repo)
            st = state_atoms('0')
            s = build(repo, it, st, use_ctl, obliq_on)
            full_init(it, s)
            call(it, s.world, 'orbit_spin_changed', orbital_freq_changed=True, spin_freq_changed=True, eccentricity_changed=True, obliquity_changed=True)
            got = exposed(s)
            # functional pipeline (as toolbox.quick_tides composes it)
            itf = Interp(repo)
            n = itf.call(mconv, need_func(mconv, 'semi_a2orbital_motion'), [st['a'], st['M_host'], st['M_world']])
            fm = itf.call(mm, need_func(mm, 'find_mode_manipulators'), [2, 2, obliq_on])
            sus = itf.call(mdis, need_func(mdis, 'calc_tidal_susceptibility'), [st['M_host'], st['R'], st['a']])
            er = itf.apply(fm[2], [st['e']], {}, None, None)          # (the registries may hold the table functions or callable wrappers around them)
            ob = itf.apply(fm[3], [st['obl'] if obliq_on else X.ZERO], {}, None, None)
            uniq, terms = itf.call(mm, need_func(mm, 'calculate_terms'), [st['spin'], n, st['a'], st['R'], er, ob], {'multiply_modes_by_sign': True})
            if use_ctl:
                love = itf.call(mg, need_func(mg, 'ctl_neg_imk_helper_func'), [uniq, st['k2'], FuncRef(mc, need_func(mc, 'linear_dt')), (st['dt'],)])
            else:
                love = itf.call(mg, need_func(mg, 'cpl_neg_imk_helper_func'), [uniq, st['k2'], st['Q']])
            out = itf.call(mm, need_func(mm, 'collapse_modes'), [st['g'], st['R'], st['rho'], X.ONE, st['tscale'], st['M_host'], sus, love, terms, 2], {'cpl_ctl_method': True})
            mdyn = repo.by_path('TidalPy/dynamics/single_dissipation.py')
            rates = itf.call(mdyn, need_func(mdyn, 'semia_eccen_derivatives'), [st['a'], n, st['e'], st['M_world'], out[1], out[2], st['M_host']])
            ref = {'_tidal_heating_global': out[0], '_dUdM': out[1], '_dUdw': out[2], '_dUdO': out[3], '_tidal_susceptibility': sus, 'n': n, 'da/dt': rates[0], 'de/dt': rates[1]}
            bad = []
            for q, rv in ref.items():
                gv = got.get(q)
                if not isinstance(gv, X.Node) or not d.equal(gv, rv):
                    bad.append(f'{q.lstrip("_")}: {"unset" if gv is None else d.describe(gv, rv)}')
            model = ('CTL' if use_ctl else 'CPL') + (', obliquity tides on' if obliq_on else ', obliquity tides off')
            chk.ob('R13.6', f'{model}: a fully updated world reports the values of the functional API (susceptibility, terms, CPL/CTL Love numbers, collapse) at the same state', not bad, '; '.join(bad[:4]), mg.rel(),
                   key=f'R13.6|{model}', method='abstract object graph vs interpreted functional pipeline, GF(p^2) PIT')


# ------------------------------------------------------------------------------------------------ R13.4
def plumbing(chk, repo):
    """each mutator reaches GlobalApproxTides/TidesBase.orbit_spin_changed with the flag of what it changed set"""
    flagmap = {'orbit.set_eccentricity': 'eccentricity_change', 'world.set_obliquity': 'obliquity_change', 'world.set_spin_frequency': 'spin_freq_changed', 'orbit.set_semi_major_axis': 'orbital_freq_changed',
               'world.set_state(eccentricity)': 'eccentricity_change', 'world.set_state(obliquity)': 'obliquity_change', 'world.set_state(spin_frequency)': 'spin_freq_changed',
               'world.set_state(semi_major_axis)': 'orbital_freq_changed', 'orbit.set_state(eccentricity)': 'eccentricity_change'}
    mb = repo.by_path('TidalPy/tides/methods/base.py')
    for mname, flag in flagmap.items():
        it = make_interp(repo)
        seen = []
        base_call = it.hooks['call']

        def hook(itp, f, args, kwargs, e, fr, seen=seen, base_call=base_call):
            if isinstance(f, FuncRef) and f.node.name == 'orbit_spin_changed' and f.mod is mb:
                params = [p.arg for p in f.node.args.args][1:]
                b = dict(zip(params, args)); b.update(kwargs)
                seen.append(b)
            return base_call(itp, f, args, kwargs, e, fr)
        it.hooks['call'] = hook
        s = build(repo, it, state_atoms('0'), False, True)
        full_init(it, s)
        seen.clear()
        key, fn_ = MUTATORS[mname]
        fn_(it, s, X.atom('newvalue', 'pos'))
        ok = any(b.get(flag) is True for b in seen)
        others = [k for b in seen for k, v in b.items() if k.endswith(('_change', '_changed')) and v is True and k != flag]
        chk.ob('R13.4', f'{mname} reaches TidesBase.orbit_spin_changed with {flag}=True', ok, f'calls seen: {seen}', mb.rel(), key=f'R13.4|{mname}', method='abstract object graph, recorded call bindings')


# ------------------------------------------------------------------------------------------------ R13.5
def closures(chk, repo):
    """flake8-bugbear B023 on the tidal / world classes: a lambda or nested def created inside a loop that reads the loop variable and is stored for later use"""
    files = ['TidalPy/tides/methods/base.py', 'TidalPy/tides/methods/layered.py', 'TidalPy/tides/methods/global_approx.py', 'TidalPy/structures/world_types/layered.py',
             'TidalPy/structures/world_types/tidal.py', 'TidalPy/structures/world_types/basic.py', 'TidalPy/structures/layers/physics.py', 'TidalPy/structures/layers/basic.py',
             'TidalPy/structures/orbit/base.py', 'TidalPy/structures/orbit/physics.py', 'TidalPy/rheology/rheology.py']
    nloops = 0
    for fpath in files:
        mod = repo.by_path(fpath)
        for loop in ast.walk(mod.tree):
            if not isinstance(loop, (ast.For, ast.While)): continue
            nloops += 1
            loopvars = {n.id for n in ast.walk(loop.target) if isinstance(n, ast.Name)} if isinstance(loop, ast.For) else set()
            # names (re)assigned in the loop body count too
            for n in ast.walk(loop):
                if isinstance(n, ast.Assign):
                    for t in n.targets:
                        if isinstance(t, ast.Name): loopvars.add(t.id)
            for fn_ in ast.walk(loop):
                if isinstance(fn_, (ast.Lambda, ast.FunctionDef)) and fn_ is not loop:
                    params = {a.arg for a in fn_.args.args + fn_.args.kwonlyargs}
                    body_nodes = ast.walk(fn_.body) if isinstance(fn_, ast.Lambda) else (n for st in fn_.body for n in ast.walk(st))
                    local_defs = set()
                    free = {n.id for n in body_nodes if isinstance(n, ast.Name) and isinstance(n.ctx, ast.Load)} - params
                    captured = sorted((free & loopvars) - {'self'})
                    if not captured: continue
                    # stored for later use? (assigned to a name that ends up in an attribute/container, or returned) -- lambdas assigned inside the loop are stored if the name flows into a Subscript/Attribute store
                    stored = is_stored(loop, fn_)
                    owner = enclosing(mod.tree, loop)
                    chk.ob('R13.5', f'{fpath}::{owner}: closure created in a loop does not capture the loop variable(s) {captured} by reference', not stored,
                           f'closure at line {fn_.lineno} reads {captured} of the enclosing loop and is stored for later calls: all stored closures see the last iteration\'s value', mod.where(fn_),
                           key=f'R13.5|{fpath}::{owner}|{ast.unparse(fn_)[:50]}', method='late-binding closure lint (B023)')
    chk.ob('R13.5', f'{nloops} loops in the tidal/world/layer/orbit/rheology classes scanned for late-binding closures', True, '', 'TidalPy/', method='late-binding closure lint (B023)')


def is_stored(loop, fn_):
    for st in ast.walk(loop):
        if isinstance(st, ast.Assign) and any(n is fn_ for n in ast.walk(st.value)):
            for t in st.targets:
                if isinstance(t, (ast.Subscript, ast.Attribute)): return True
                if isinstance(t, ast.Name):
                    nm = t.id
                    for st2 in ast.walk(loop):
                        if isinstance(st2, ast.Assign) and any(isinstance(t2, (ast.Subscript, ast.Attribute)) for t2 in st2.targets) and any(isinstance(n, ast.Name) and n.id == nm for n in ast.walk(st2.value)):
                            return True
                        if isinstance(st2, ast.Call) and isinstance(st2.func, ast.Attribute) and st2.func.attr in ('append', 'add', 'extend') and any(isinstance(n, ast.Name) and n.id == nm for a in st2.args for n in ast.walk(a)):
                            return True
    return False


def enclosing(tree, node):
    best = '<module>'
    for c in ast.walk(tree):
        if isinstance(c, ast.ClassDef):
            for f in c.body:
                if isinstance(f, ast.FunctionDef) and any(n is node for n in ast.walk(f)):
                    best = f'{c.name}.{f.name}'
    return best


# ------------------------------------------------------------------------------------------------ R13.2
def guard_implication(chk, repo):
    """within one update routine: if cached field f is computed from cached field g, and g is (re)assigned in the routine under guard Gg,
    then f must be (re)assigned whenever Gg holds (Gg => Gf), guards being boolean formulas over the routine's flag parameters
    (availability tests `x is not None` are taken as true, emptiness tests `self.x is None` as false: steady state)."""
    targets = [('TidalPy/tides/methods/base.py', 'TidesBase', 'orbit_spin_changed'), ('TidalPy/tides/methods/global_approx.py', 'GlobalApproxTides', 'orbit_spin_changed'),
               ('TidalPy/tides/methods/layered.py', 'LayeredTides', 'orbit_spin_changed')]
    for fpath, cname, mname in targets:
        mod = repo.by_path(fpath)
        cls = need_class(mod, cname)
        f = methods(cls).get(mname)
        if f is None:
            continue
        flags = [p.arg for p in f.args.args[1:] + f.args.kwonlyargs]
        props = property_map(repo, mod, cls)
        events = collect_assignments(f, flags, props)
        bflags = collect_bool_flags(f)
        for (fld, guard_f, reads_f, line_f) in events:
            for (g, guard_g, reads_g, line_g) in events:
                if g == fld or g not in reads_f: continue
                # Gg => Gf over all valuations of the flag parameters and of the opaque conditions (each opaque test is one boolean atom, shared by both guards)
                atoms = sorted(opaque_atoms(guard_g, bflags) | opaque_atoms(guard_f, bflags))
                if len(flags) + len(atoms) > 16:
                    raise AnalysisError(f'{cname}.{mname}: too many guard atoms for enumeration')
                bad = None
                for vals in itertools.product((False, True), repeat=len(flags) + len(atoms)):
                    env = dict(zip(flags + atoms, vals))
                    env['__bflags__'] = bflags
                    if ev_guard(guard_g, env) and not ev_guard(guard_f, env):
                        bad = {k: v for k, v in env.items() if v is True}; break
                chk.ob('R13.2', f'{cname}.{mname}: {fld} (computed from {g}) is recomputed whenever {g} is', bad is None,
                       f'with flags {sorted(bad) if bad else ""} set, {g} is recomputed (line {line_g}) but {fld} (line {line_f}) keeps the value computed from the old {g}', mod.where(f),
                       key=f'R13.2|{cname}.{mname}|{fld}<-{g}', method='guard implication by truth-table enumeration over flag parameters')


def property_map(repo, mod, cls):
    """property name -> backing field for `return self._x` getters, following base classes in the same package"""
    out = {}
    it = Interp(repo)
    stack = [('class', mod, cls)]
    while stack:
        c = stack.pop()
        for st in c[2].body:
            if isinstance(st, ast.FunctionDef) and any(ast.unparse(d_) == 'property' for d_ in st.decorator_list):
                rets = [n for n in ast.walk(st) if isinstance(n, ast.Return) and n.value is not None]
                if len(rets) == 1 and isinstance(rets[0].value, ast.Attribute) and ast.unparse(rets[0].value.value) == 'self':
                    out.setdefault(st.name, rets[0].value.attr)
        stack.extend(it.bases_of(c))
    return out


def collect_assignments(f, flags, props):
    """[(field, guard(list of (test ast, polarity)), fields read, lineno)] for `self._f = ...` and tuple targets"""
    events = []
    local_src = {}       # local name -> set of fields it was read from

    def fields_in(e):
        out = set()
        for n in ast.walk(e):
            if isinstance(n, ast.Attribute) and isinstance(n.value, ast.Name) and n.value.id == 'self':
                a = n.attr
                if a.startswith('_'): out.add(a)
                elif a in props: out.add(props[a])
            if isinstance(n, ast.Name) and n.id in local_src:
                out |= local_src[n.id]
        return out

    def walk(body, guard):
        for st in body:
            if isinstance(st, ast.If):
                walk(st.body, guard + [(st.test, True)])
                walk(st.orelse, guard + [(st.test, False)])
            elif isinstance(st, ast.Assign):
                reads = fields_in(st.value)
                for t in st.targets:
                    elts = t.elts if isinstance(t, ast.Tuple) else [t]
                    for tt in elts:
                        if isinstance(tt, ast.Attribute) and isinstance(tt.value, ast.Name) and tt.value.id == 'self' and tt.attr.startswith('_'):
                            if not (isinstance(st.value, ast.Constant)):
                                events.append((tt.attr, list(guard), reads, st.lineno))
                        elif isinstance(tt, ast.Name):
                            local_src[tt.id] = set(reads)
            elif isinstance(st, (ast.For, ast.While, ast.With, ast.Try)):
                walk(getattr(st, 'body', []), guard)
    # two passes so that locals defined before use are known
    walk(f.body, [])
    events.clear()
    walk(f.body, [])
    return events


def ev_guard(guard, env):
    for test, pol in guard:
        v = ev_test(test, env)
        if v is None: v = env.get('?' + ast.unparse(test), True if pol else False)
        if v != pol: return False
    return True


def opaque_atoms(guard, bflags):
    """leaf conditions that are neither flag parameters, tracked boolean flags nor availability tests: one boolean atom each"""
    out = set()

    def leaves(t):
        if isinstance(t, ast.BoolOp):
            for v in t.values: leaves(v)
        elif isinstance(t, ast.UnaryOp) and isinstance(t.op, ast.Not):
            leaves(t.operand)
        else:
            if ev_test(t, {'__bflags__': {}, '__probe__': True}) is None and not isinstance(t, ast.Name):
                out.add('?' + ast.unparse(t))
    for test, pol in guard:
        leaves(test)
    # tracked flags contribute the leaves of their own guards
    for test, pol in guard:
        for n in ast.walk(test):
            key = 'self.' + n.attr if isinstance(n, ast.Attribute) and isinstance(n.value, ast.Name) and n.value.id == 'self' else None
            if key in bflags:
                for g in bflags[key]:
                    out |= opaque_atoms(g, {})
    return out


def collect_bool_flags(f):
    """boolean state flags (self._x or locals) that are reset to False unconditionally at the top level of the routine and set True under guards:
    name -> list of guards under which they become True"""
    sets = {}; reset = set()

    def nm(t):
        if isinstance(t, ast.Name): return t.id
        if isinstance(t, ast.Attribute) and isinstance(t.value, ast.Name) and t.value.id == 'self': return 'self.' + t.attr
        return None

    def walk(body, guard):
        for st in body:
            if isinstance(st, ast.If):
                walk(st.body, guard + [(st.test, True)]); walk(st.orelse, guard + [(st.test, False)])
            elif isinstance(st, ast.Assign) and isinstance(st.value, ast.Constant) and isinstance(st.value.value, bool):
                for t in st.targets:
                    n = nm(t)
                    if n is None: continue
                    if st.value.value is False and not guard: reset.add(n)
                    elif st.value.value is True: sets.setdefault(n, []).append(list(guard))
                    else: sets.setdefault(n, []).append(None)      # conditional reset: give up on this flag
    walk(f.body, [])
    return {n: g for n, g in sets.items() if n in reset and None not in g}


def ev_test(t, env):
    bf = env.get('__bflags__', {})
    key = t.id if isinstance(t, ast.Name) else ('self.' + t.attr if isinstance(t, ast.Attribute) and isinstance(t.value, ast.Name) and t.value.id == 'self' else None)
    if key is not None and key in bf and key not in env.get('__busy__', ()):
        env2 = dict(env); env2['__busy__'] = tuple(env.get('__busy__', ())) + (key,)
        return any(ev_guard(g, env2) for g in bf[key])
    if isinstance(t, ast.Name): return env.get(t.id)
    if ('?' + ast.unparse(t)) in env: return env['?' + ast.unparse(t)]
    if isinstance(t, ast.UnaryOp) and isinstance(t.op, ast.Not):
        v = ev_test(t.operand, env)
        return None if v is None else (not v)
    if isinstance(t, ast.BoolOp):
        vals = [ev_test(v, env) for v in t.values]
        if isinstance(t.op, ast.And):
            if any(v is False for v in vals): return False
            if all(v is True for v in vals): return True
            return None
        if any(v is True for v in vals): return True
        if all(v is False for v in vals): return False
        return None
    if isinstance(t, ast.Compare) and len(t.ops) == 1 and isinstance(t.comparators[0], ast.Constant) and t.comparators[0].value is None:
        if isinstance(t.ops[0], ast.IsNot): return True          # availability: the quantity is set
        if isinstance(t.ops[0], ast.Is): return False            # cache already populated (steady state)
    return None
