"""C13, host-only dissipation: the tidal HOST carries the tides model (CPL / CTL), the orbiting body that raises the tides has none (tides_on = False).
Changes of the body's orbit can be routed through the orbit or through the body itself (`body.set_state(...)`); either way the host's tidal quantities and the
orbit's cached orbital derivatives must equal those of a freshly built system in the final state.  The repository's real `world_signature_to_index` is interpreted
(the host's signature resolves to its tide raiser's orbital slot)."""
from __future__ import annotations
import ast
from ..core import expr as X
from ..core.interp import Interp, Obj, FuncRef, Opaque, RaiseSignal
from ..core.report import AnalysisError
from .common import need_class, need_func
from .c13 import constructor_defaults, call, Sys, QUANT

NOOP = lambda *a, **k: None


def make_interp(repo):
    def glob_hook(itp, mod, nm):
        if nm == 'log': return Opaque('log')
        return None

    def expr_hook(itp, e, fr):
        if isinstance(e, ast.Attribute) and ast.unparse(e) == 'TidalPy.extensive_checks':
            return False
        return NotImplemented

    def branch_hook(itp, st, v, fr):
        t = st.test if isinstance(st, ast.If) else None
        if isinstance(t, ast.Call) and isinstance(t.func, ast.Name) and t.func.id == 'isinstance' and len(t.args) == 2 and isinstance(t.args[0], ast.Name):
            return isinstance(fr.vars.get(t.args[0].id), Obj)
        return None
    return Interp(repo, hooks={'global': glob_hook, 'expr': expr_hook, 'branch': branch_hook}, max_depth=40)


def build(repo, it, st, use_ctl, obliq_on):
    mw = repo.by_path('TidalPy/structures/world_types/tidal.py'); mo = repo.by_path('TidalPy/structures/orbit/physics.py'); mt = repo.by_path('TidalPy/tides/methods/global_approx.py')
    mm = repo.by_path('TidalPy/tides/modes/mode_manipulation.py')
    Wc = ('class', mw, need_class(mw, 'TidalWorld')); Oc = ('class', mo, need_class(mo, 'PhysicsOrbit')); Tc = ('class', mt, need_class(mt, 'GlobalApproxTides'))
    s = Sys()
    fm = it.call(mm, need_func(mm, 'find_mode_manipulators'), [2, 2, obliq_on])
    s.tides = Obj(cls=Tc, name='host tides', attrs={
        '_fixed_q': st['Q'], '_fixed_dt': st['dt'], '_fixed_k2': st['k2'], '_tidal_susceptibility': None, '_tidal_susceptibility_reduced': None, '_unique_tidal_frequencies': None,
        '_tidal_terms_by_frequency': None, '_tidal_heating_global': None, '_dUdM': None, '_dUdw': None, '_dUdO': None, '_effective_q_by_orderl': None, '_global_negative_imk_by_orderl': None,
        '_global_love_by_orderl': None, '_need_to_collapse_modes': False, '_new_tidal_frequencies': False, '_eccentricity_truncation_lvl': 2, '_max_tidal_order_lvl': 2, '_use_obliquity_tides': obliq_on,
        '_multiply_modes_by_sign': True, '_eccentricity_results': None, '_obliquity_results': None, 'calculate_modes_func': fm[0], 'collapse_modes_func': fm[1], 'eccentricity_func': fm[2], 'obliquity_func': fm[3],
        '_tidal_inputs': None, '_ctl_complex_love_by_unique_freq': None, '_cpl_complex_love_by_unique_freq': None, '_use_ctl': use_ctl, '_ctl_calc_method': None, '_ctl_calc_input_getter': None, 'model': 'global_approx'})
    # (configuration-dependent state is set up by the class's own reinit, see c13.build)
    s.tides.attrs['config'] = {'use_ctl': use_ctl, 'fixed_q': st['Q'], 'static_k2': st['k2'], 'fixed_dt': st['dt'], 'ctl_calc_method': 'linear_simple', 'eccentricity_truncation_lvl': 2,
                               'max_tidal_order_l': 2, 'obliquity_tides_on': obliq_on, 'multiply_modes_by_sign': True}

    def world(name, mass, tides, spin, obl):
        return Obj(cls=Wc, name=name, attrs={
            '_spin_frequency': spin, '_spin_period': None, '_obliquity': obl, '_tides': tides, '_is_spin_sync': False, '_tides_on': tides is not None, '_force_spin_sync': False, 'mass': mass,
            'moi': X.atom(f'C_{name}', 'pos'), 'radius': X.atom(f'R_{name}', 'pos'), 'tidal_scale': X.atom(f'tscale_{name}', 'pos'), 'density_bulk': X.atom(f'rho_{name}', 'pos'),
            'gravity_surface': X.atom(f'g_{name}', 'pos'), 'name': name, 'world_class': 'simple_tidal', '_time': None, '_spin_time_derivative': None, '_tidal_polar_torque': None,
            'update_surface_temperature': NOOP})
    s.host = world('Host', st['M_host'], s.tides, st['spin'], st['obl'])
    s.moon = world('Moon', st['M_world'], None, X.atom('spin_moon'), X.atom('obl_moon'))
    s.tides.attrs['world'] = s.host; s.tides.attrs['_world'] = s.host
    s.orbit = Obj(cls=Oc, name='orbit', attrs={
        '_eccentricities': [None, st['e']], '_semi_major_axes': [None, st['a']], '_orbital_frequencies': [None, None], '_orbital_periods': [None, None],
        '_tidal_objects': [s.host, s.moon], '_tidal_host': s.host, '_star': None, '_host_tide_raiser': s.moon, '_star_host': False, '_all_objects': [s.host, s.moon],
        '_all_tidal_world_orbit_index_by_name': {'Host': 0, 'Moon': 1}, '_all_tidal_world_orbit_index_by_instance': {s.host: 0, s.moon: 1},
        '_eccentricity_time_derivatives': [None, None], '_semi_major_axis_time_derivatives': [None, None], '_orbital_motion_time_derivatives': [None, None], '_last_calc_used_dual_body': False})
    s.host.attrs['orbit'] = s.orbit; s.moon.attrs['orbit'] = s.orbit
    for o in (s.tides, s.host, s.moon, s.orbit):
        constructor_defaults(it, o)
    call(it, s.tides, 'reinit', initial_init=True)
    s.world = s.host
    return s


def full_init(it, s):
    call(it, s.orbit, 'set_semi_major_axis', s.moon, s.orbit.attrs['_semi_major_axes'][1], called_from_orbit=False)
    call(it, s.host, 'orbit_spin_changed', orbital_freq_changed=True, spin_freq_changed=True, eccentricity_changed=True, obliquity_changed=True)


def state_atoms(tag):
    return {'M_host': X.atom('M_host', 'pos'), 'M_world': X.atom('M_world', 'pos'), 'k2': X.atom('k2', 'pos'),
            'Q': X.atom(f'Q{tag}', 'pos'), 'dt': X.atom(f'dt{tag}', 'pos'), 'spin': X.atom(f'spin{tag}'), 'obl': X.atom(f'obl{tag}'), 'e': X.atom(f'e{tag}', 'pos'), 'a': X.atom(f'a{tag}', 'pos')}


def exposed(s):
    out = {q: s.tides.attrs.get(q) for q in QUANT}
    uf = s.tides.attrs.get('_unique_tidal_frequencies')
    if isinstance(uf, dict):
        for sig, v in uf.items(): out[f'unique_frequency{sig}'] = v
    out['de/dt'] = s.orbit.attrs['_eccentricity_time_derivatives'][1]
    out['da/dt'] = s.orbit.attrs['_semi_major_axis_time_derivatives'][1]
    out['dn/dt'] = s.orbit.attrs['_orbital_motion_time_derivatives'][1]
    out['n'] = s.orbit.attrs['_orbital_frequencies'][1]
    return out


MUTATORS = {
    'orbit.set_eccentricity(moon)': ('e', lambda it, s, v: call(it, s.orbit, 'set_eccentricity', s.moon, v)),
    'orbit.set_semi_major_axis(moon)': ('a', lambda it, s, v: call(it, s.orbit, 'set_semi_major_axis', s.moon, v)),
    'orbit.set_state(moon, eccentricity)': ('e', lambda it, s, v: call(it, s.orbit, 'set_state', s.moon, eccentricity=v)),
    'moon.set_state(eccentricity)': ('e', lambda it, s, v: call(it, s.moon, 'set_state', eccentricity=v)),
    'moon.set_state(semi_major_axis)': ('a', lambda it, s, v: call(it, s.moon, 'set_state', semi_major_axis=v)),
    'host.set_state(eccentricity)': ('e', lambda it, s, v: call(it, s.host, 'set_state', eccentricity=v)),
    'host.set_spin_frequency': ('spin', lambda it, s, v: call(it, s.host, 'set_spin_frequency', v)),
    'host.set_obliquity': ('obl', lambda it, s, v: call(it, s.host, 'set_obliquity', v)),
    'host.set_fixed_q': ('Q', lambda it, s, v: call(it, s.host, 'set_fixed_q', v)),
}


def run_hostonly(chk, repo, rule='R13.9'):
    d = X.Decider(seed=chk.seed + 7, k=2, positive=[X.atom('M_host', 'pos') + X.atom('M_world', 'pos')])
    mw = repo.by_path('TidalPy/structures/world_types/tidal.py')
    singles = [(m_,) for m_ in MUTATORS]
    pairs = [('moon.set_state(eccentricity)', 'host.set_spin_frequency'), ('host.set_fixed_q', 'moon.set_state(semi_major_axis)'), ('orbit.set_eccentricity(moon)', 'moon.set_state(semi_major_axis)')]
    if chk.tier != 'quick':
        ms_ = list(MUTATORS)
        pairs = [(a_, b_) for a_ in ms_ for b_ in ms_ if a_ != b_]
    nseq = 0
    for use_ctl in ((False,) if chk.tier == 'quick' else (False, True)):
        model = ('CTL' if use_ctl else 'CPL') + ' host, orbiting body without tides'
        for seq in singles + pairs:
            if use_ctl and any('fixed_q' in m_ for m_ in seq):
                continue
            nseq += 1
            try:
                st0 = state_atoms('0')
                final = dict(st0)

                def history(fork, seq=seq, st0=st0, final=final):
                    it = make_interp(repo)
                    it.hooks['fork'] = fork
                    s = build(repo, it, st0, use_ctl, True)
                    full_init(it, s)
                    for i, mname in enumerate(seq):
                        key, fn_ = MUTATORS[mname]
                        newv = X.atom(f'{key}{i + 1}', 'pos' if key in ('e', 'a', 'Q', 'dt') else 'real')
                        fn_(it, s, newv)
                        final[key] = newv
                    return exposed(s)
                from .c13 import explore_history
                got, path_label = explore_history(history)
                it2 = make_interp(repo)
                sf = build(repo, it2, final, use_ctl, True)
                full_init(it2, sf)
                ref = exposed(sf)
            except RaiseSignal as ex:
                raise AnalysisError(f'host-only sequence {seq}: unexpected raise {ex.text}')
            bad = []
            for q in sorted(set(got) | set(ref)):
                a_, b_ = got.get(q), ref.get(q)
                if a_ is None and b_ is None: continue
                if not (isinstance(a_, X.Node) and isinstance(b_, X.Node)):
                    bad.append(f'{q}: {"unset" if a_ is None else "set"} after the sequence, {"unset" if b_ is None else "set"} on a fresh system'); continue
                if not d.equal(a_, b_):
                    bad.append(f'{q.lstrip("_")} differs from a fresh system in the final state')
            chk.ob(rule, f'{model}: after {" ; ".join(seq)} the host\'s tidal quantities and the orbit\'s cached da/dt, de/dt, dn/dt equal those of a fresh system in the final state', not bad, '; '.join(bad[:4]) + (path_label if bad else ''),
                   mw.rel(), key=f'{rule}|{model}|{"+".join(seq)}', method='abstract object graph (real world_signature_to_index) + GF(p^2) PIT')
    chk.note_analysed('host-only mutator sequences', nseq)
    return nseq
