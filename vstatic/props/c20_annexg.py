"""R20.2 — C99 Annex G special values of cf_csqrt / cf_clog by abstract interpretation over floating-point classes.

Abstract value of a double: a set of classes {-inf, -fin, -0, +0, +fin, +inf, nan}; complex = pair.  The function body is
interpreted for each of the 7 x 7 input class pairs; a condition whose truth is not determined by the classes forks the path
(all choice sequences are enumerated).  Finite arithmetic is assumed not to over/underflow (thresholds are not decided).
"""
from __future__ import annotations
import ast
from ..core.report import AnalysisError
from .common import need_func

NINF, NFIN, NZ, PZ, PFIN, PINF, NAN = '-inf', '-fin', '-0', '+0', '+fin', '+inf', 'nan'
ALL = (NINF, NFIN, NZ, PZ, PFIN, PINF, NAN)
NEGS = {NINF, NFIN, NZ}; POSS = {PINF, PFIN, PZ}
FLIP = {NINF: PINF, NFIN: PFIN, NZ: PZ, PZ: NZ, PFIN: NFIN, PINF: NINF, NAN: NAN}


def S(*c): return frozenset(c)


def neg(a): return frozenset(FLIP[c] for c in a)
def fabs_(a): return frozenset(FLIP[c] if c in NEGS else c for c in a)
def mag(c): return {NINF: 'inf', PINF: 'inf', NFIN: 'fin', PFIN: 'fin', NZ: 'zero', PZ: 'zero', NAN: 'nan'}[c]
def sgn(c): return -1 if c in NEGS else (1 if c in POSS else 0)
def mk(m, s): return {('inf', 1): PINF, ('inf', -1): NINF, ('fin', 1): PFIN, ('fin', -1): NFIN, ('zero', 1): PZ, ('zero', -1): NZ}[(m, s)]


def lift2(f):
    def g(a, b):
        out = set()
        for x in a:
            for y in b:
                out |= set(f(x, y))
        return frozenset(out)
    return g


def _mul(x, y):
    if NAN in (x, y): return [NAN]
    mx, my = mag(x), mag(y); s = sgn(x) * sgn(y)
    if (mx == 'inf' and my == 'zero') or (mx == 'zero' and my == 'inf'): return [NAN]
    if 'inf' in (mx, my): return [mk('inf', s)]
    if 'zero' in (mx, my): return [mk('zero', s)]
    return [mk('fin', s)]


def _div(x, y):
    if NAN in (x, y): return [NAN]
    mx, my = mag(x), mag(y); s = sgn(x) * sgn(y)
    if (mx == 'inf' and my == 'inf') or (mx == 'zero' and my == 'zero'): return [NAN]
    if mx == 'inf' or my == 'zero': return [mk('inf', s)]
    if mx == 'zero' or my == 'inf': return [mk('zero', s)]
    return [mk('fin', s)]


def _add(x, y):
    if NAN in (x, y): return [NAN]
    mx, my = mag(x), mag(y)
    if mx == 'inf' and my == 'inf':
        return [x] if x == y else [NAN]
    if mx == 'inf': return [x]
    if my == 'inf': return [y]
    if mx == 'zero' and my == 'zero':
        return [x] if x == y else [PZ]
    if mx == 'zero': return [y]
    if my == 'zero': return [x]
    if sgn(x) == sgn(y): return [x]
    return [NFIN, PZ, PFIN]


mul = lift2(_mul); div = lift2(_div); add = lift2(_add)
def sub(a, b): return add(a, neg(b))


def sqrt_(a):
    out = set()
    for c in a:
        out.add({PFIN: PFIN, PZ: PZ, NZ: NZ, PINF: PINF, NAN: NAN, NFIN: NAN, NINF: NAN}[c])
    return frozenset(out)


def log_(a):
    out = set()
    for c in a:
        out |= {PFIN: {NFIN, PZ, PFIN}, PZ: {NINF}, NZ: {NINF}, PINF: {PINF}, NAN: {NAN}, NFIN: {NAN}, NINF: {NAN}}[c]
    return frozenset(out)


def log1p_(a):
    out = set()
    for c in a:
        out |= {PFIN: {PFIN}, PZ: {PZ}, NZ: {NZ}, PINF: {PINF}, NAN: {NAN}, NFIN: {NFIN}, NINF: {NAN}}[c]      # log1p is only reached with |z| in [0.71, 1.73], argument > -1
    return frozenset(out)


def _atan2(y, x):
    if NAN in (x, y): return [NAN]
    s = sgn(y); my, mx = mag(y), mag(x)
    if my == 'zero':
        return [mk('zero', s)] if sgn(x) > 0 else [mk('fin', s)]
    if my == 'fin' and mx == 'inf' and sgn(x) > 0:
        return [mk('zero', s)]
    return [mk('fin', s)]


atan2_ = lift2(_atan2)

_ORDER = {NINF: 0, NFIN: 1, NZ: 2, PZ: 2, PFIN: 3, PINF: 4}


def _fmax(x, y, pick_max=True):
    """C fmax / fmin: a NaN operand is ignored (the other operand is returned); of two values in the same class either may be the larger"""
    if x == NAN: return [y]
    if y == NAN: return [x]
    if _ORDER[x] == _ORDER[y]: return sorted({x, y})
    hi, lo = (x, y) if _ORDER[x] > _ORDER[y] else (y, x)
    return [hi if pick_max else lo]


fmax_ = lift2(_fmax); fmin_ = lift2(lambda x, y: _fmax(x, y, False))


def _copysign(a, b):
    if a == NAN: return [NAN]
    if b == NAN: return [mk(mag(a), 1), mk(mag(a), -1)]
    return [mk(mag(a), sgn(b))]


copysign_ = lift2(_copysign)


class Fork(Exception):
    pass


class Ret(Exception):
    def __init__(self, v): self.v = v


class ClassInterp:
    def __init__(self, repo, mod):
        self.repo = repo; self.mod = mod
        self.choices = []; self.pos = 0
        self.assumed = []

    def choose(self, what):
        if self.pos < len(self.choices):
            c = self.choices[self.pos]
        else:
            c = True
            self.choices.append(c)
        self.pos += 1
        return c

    # truth of an abstract boolean: 'T', 'F', or 'TF'
    def decide(self, b, what=''):
        if b == 'T': return True
        if b == 'F': return False
        return self.choose(what)

    def run_all(self, f, args):
        """enumerate all choice sequences; returns list of return values"""
        results = []
        stack = [[]]
        while stack:
            self.choices = stack.pop(); self.pos = 0
            n0 = len(self.choices)
            try:
                self.call(f, args)
                raise AnalysisError(f'{f.name}: fell off the end')
            except Ret as r:
                results.append(r.v)
            # alternatives for every choice made beyond the forced prefix
            for i in range(n0, len(self.choices)):
                if self.choices[i] is True:
                    stack.append(self.choices[:i] + [False])
            if len(results) > 5000:
                raise AnalysisError('path explosion')
        return results

    def call(self, f, args):
        env = {}
        for p, a in zip(f.args.args, args):
            env[p.arg] = a
        try:
            self.block(f.body, env)
        except Ret:
            raise
        return None

    def block(self, body, env):
        for st in body:
            self.stmt(st, env)

    def stmt(self, st, env):
        if isinstance(st, ast.Expr): return
        if isinstance(st, ast.Pass): return
        if isinstance(st, ast.Assign):
            v = self.ev(st.value, env)
            t = st.targets[0]
            if isinstance(t, ast.Name): env[t.id] = v
            else: raise AnalysisError(f'class domain: store to {ast.unparse(t)}')
            return
        if isinstance(st, ast.AugAssign):
            cur = self.ev(st.target, env); v = self.ev(st.value, env)
            env[st.target.id] = self.binop(st.op, cur, v)
            return
        if isinstance(st, ast.If):
            c = self.decide(self.cond(st.test, env), ast.unparse(st.test))
            self.block(st.body if c else st.orelse, env)
            return
        if isinstance(st, ast.Return):
            raise Ret(self.ev(st.value, env))
        raise AnalysisError(f'class domain: unsupported statement {type(st).__name__} at line {st.lineno}')

    def const(self, v):
        if isinstance(v, bool): return v
        if isinstance(v, int): return v
        if isinstance(v, float):
            if v == 0: return S(PZ)
            return S(PFIN if v > 0 else NFIN)
        raise AnalysisError(f'class domain: constant {v!r}')

    def tof(self, v):
        if isinstance(v, frozenset): return v
        if isinstance(v, bool): return S(PFIN) if v else S(PZ)
        if isinstance(v, int): return S(PZ) if v == 0 else S(PFIN if v > 0 else NFIN)
        raise AnalysisError(f'class domain: expected a double, got {v!r}')

    def ev(self, e, env):
        if isinstance(e, ast.Constant): return self.const(e.value)
        if isinstance(e, ast.Name):
            if e.id in env: return env[e.id]
            if e.id == 'INFINITY': return S(PINF)
            if e.id == 'NAN': return S(NAN)
            if e.id in ('THRESH', 'DBL_MAX_4', 'DBL_MIN', 'DBL_MAX', 'LOGE2', 'SQRT2', 'DBL_MANT_DIG', 'DBL_MANT_DIG_INT'): return S(PFIN)
            r = self.repo.resolve(self.mod, e.id)
            if r and r[0] == 'def' and isinstance(r[2], ast.Assign):
                return self.ev(r[2].value, {})
            raise AnalysisError(f'class domain: unresolved name {e.id}')
        if isinstance(e, ast.Attribute):
            b = self.ev(e.value, env)
            if isinstance(b, tuple) and e.attr == 'real': return b[0]
            if isinstance(b, tuple) and e.attr == 'imag': return b[1]
            raise AnalysisError(f'class domain: attribute {ast.unparse(e)}')
        if isinstance(e, ast.UnaryOp) and isinstance(e.op, ast.USub):
            v = self.ev(e.operand, env)
            if isinstance(v, int): return -v
            return neg(self.tof(v))
        if isinstance(e, ast.BinOp):
            if isinstance(e.op, ast.Mult) and isinstance(e.left, ast.Call) and isinstance(e.left.func, ast.Name) and e.left.func.id == '__cast__':
                return self.ev(e.right, env)
            if isinstance(e.op, ast.Mult) and isinstance(e.left, ast.Name) and e.left.id == '__addr__':
                return ('addr', e.right)
            return self.binop(e.op, self.ev(e.left, env), self.ev(e.right, env))
        if isinstance(e, ast.Call):
            return self.callx(e, env)
        if isinstance(e, (ast.Compare, ast.BoolOp)):
            c = self.decide(self.cond(e, env), ast.unparse(e))
            return c
        if isinstance(e, ast.IfExp):
            # `a if test else b`: decided like an `if` statement (an undecided test forks the path)
            c = self.decide(self.cond(e.test, env), ast.unparse(e.test))
            return self.ev(e.body if c else e.orelse, env)
        raise AnalysisError(f'class domain: unsupported expression {ast.unparse(e)[:60]}')

    def binop(self, op, a, b):
        if isinstance(a, int) and isinstance(b, int) and not isinstance(a, bool):
            return {ast.Add: a + b, ast.Sub: a - b, ast.Mult: a * b}.get(type(op))
        a, b = self.tof(a), self.tof(b)
        if isinstance(op, ast.Add): return add(a, b)
        if isinstance(op, ast.Sub): return sub(a, b)
        if isinstance(op, ast.Mult): return mul(a, b)
        if isinstance(op, ast.Div): return div(a, b)
        raise AnalysisError(f'class domain: operator {type(op).__name__}')

    def callx(self, e, env):
        fn = e.func.id if isinstance(e.func, ast.Name) else ast.unparse(e.func)
        args = [self.ev(a, env) for a in e.args]
        if fn == 'cf_build_dblcmplx': return (self.tof(args[0]), self.tof(args[1]))
        if fn == 'fabs': return fabs_(self.tof(args[0]))
        if fn == 'sqrt': return sqrt_(self.tof(args[0]))
        if fn == 'log': return log_(self.tof(args[0]))
        if fn == 'log1p': return log1p_(self.tof(args[0]))
        if fn == 'atan2': return atan2_(self.tof(args[0]), self.tof(args[1]))
        if fn == 'copysign': return copysign_(self.tof(args[0]), self.tof(args[1]))
        if fn == 'fmax': return fmax_(self.tof(args[0]), self.tof(args[1]))
        if fn == 'fmin': return fmin_(self.tof(args[0]), self.tof(args[1]))
        if fn == 'ldexp': return self.tof(args[0])
        if fn in ('isinf', 'isnan', 'isfinite', 'signbit'):
            return self.decide(self.pred(fn, self.tof(args[0])), ast.unparse(e))
        r = self.repo.resolve(self.mod, fn)
        if r and r[0] == 'def' and isinstance(r[2], ast.FunctionDef):
            try:
                self.call(r[2], args)
            except Ret as rr:
                return rr.v
            raise AnalysisError(f'{fn}: fell off the end')
        raise AnalysisError(f'class domain: call of {fn}')

    def pred(self, fn, a):
        def one(c):
            if fn == 'isinf': return c in (PINF, NINF)
            if fn == 'isnan': return c == NAN
            if fn == 'isfinite': return c in (NFIN, NZ, PZ, PFIN)
            if fn == 'signbit':
                if c == NAN: return None
                return c in NEGS
        vals = {one(c) for c in a}
        if None in vals: return 'TF'
        if vals == {True}: return 'T'
        if vals == {False}: return 'F'
        return 'TF'

    def cond(self, e, env):
        if isinstance(e, ast.BoolOp):
            if isinstance(e.op, ast.And):
                for v in e.values:
                    if not self.decide(self.cond(v, env), ast.unparse(v)): return 'F'
                return 'T'
            for v in e.values:
                if self.decide(self.cond(v, env), ast.unparse(v)): return 'T'
            return 'F'
        if isinstance(e, ast.Compare) and len(e.ops) == 1:
            a = self.ev(e.left, env); b = self.ev(e.comparators[0], env)
            if isinstance(a, int) and isinstance(b, int) and not isinstance(a, (bool,)) :
                op = e.ops[0]
                r = {ast.Eq: a == b, ast.NotEq: a != b, ast.Lt: a < b, ast.LtE: a <= b, ast.Gt: a > b, ast.GtE: a >= b}[type(op)]
                return 'T' if r else 'F'
            return self.cmp(e.ops[0], self.tof(a), self.tof(b))
        if isinstance(e, ast.Call):
            v = self.ev(e, env)
            return 'T' if v is True else ('F' if v is False else 'TF')
        if isinstance(e, ast.UnaryOp) and isinstance(e.op, ast.Not):
            r = self.cond(e.operand, env)
            return {'T': 'F', 'F': 'T', 'TF': 'TF'}[r]
        if isinstance(e, ast.Name):
            v = self.ev(e, env)
            if isinstance(v, (bool, int)): return 'T' if v else 'F'
        raise AnalysisError(f'class domain: condition {ast.unparse(e)[:60]}')

    def cmp(self, op, a, b):
        rank = {NINF: 0, NFIN: 1, NZ: 2, PZ: 2, PFIN: 3, PINF: 4}
        outs = set()
        for x in a:
            for y in b:
                if NAN in (x, y):
                    outs.add(isinstance(op, ast.NotEq)); continue
                rx, ry = rank[x], rank[y]
                if rx != ry:
                    lt = rx < ry
                    outs.add({ast.Lt: lt, ast.LtE: lt, ast.Gt: not lt, ast.GtE: not lt, ast.Eq: False, ast.NotEq: True}[type(op)])
                elif rx in (0, 2, 4):     # equal values
                    outs.add({ast.Lt: False, ast.LtE: True, ast.Gt: False, ast.GtE: True, ast.Eq: True, ast.NotEq: False}[type(op)])
                else:                       # two finite values of the same sign: any order
                    outs |= {True, False}
        if outs == {True}: return 'T'
        if outs == {False}: return 'F'
        return 'TF'


def conj_cls(c): return FLIP[c]


def expected_csqrt(re, im):
    """allowed (real classes, imag classes) per C99 G.6.4.2, conjugate symmetry applied for negative-signed imaginary parts"""
    flip = im in NEGS
    imp = FLIP[im] if flip else im
    if imp == PINF: R, I = {PINF}, {PINF}
    elif imp == NAN:
        if re == NINF: R, I = {NAN}, {PINF, NINF}
        elif re == PINF: R, I = {PINF}, {NAN}
        else: R, I = {NAN}, {NAN}
    else:                                   # +0 or +fin
        if re == NINF: R, I = {PZ}, {PINF}
        elif re == PINF: R, I = {PINF}, {PZ}
        elif re == NAN: R, I = {NAN}, {NAN}
        elif imp == PZ:
            if re in (PZ, NZ): R, I = {PZ}, {PZ}
            elif re == PFIN: R, I = {PFIN}, {PZ}
            else: R, I = {PZ}, {PFIN}
        else:
            R, I = {PFIN, PZ}, {PFIN, PZ}
    if flip and im != NAN:
        I = {FLIP[c] for c in I}
    return R, I


def expected_clog(re, im):
    """C99 G.6.3.2; imaginary results: pi, pi/2, ... are +fin; conj symmetry for negative-signed imaginary parts"""
    flip = im in NEGS
    imp = FLIP[im] if flip else im
    if imp == NAN:
        if re in (PINF, NINF): R, I = {PINF}, {NAN}
        else: R, I = {NAN}, {NAN}
    elif imp == PINF:
        if re == NAN: R, I = {PINF}, {NAN}
        else: R, I = {PINF}, {PFIN}
    else:
        if re == NAN: R, I = {NAN}, {NAN}
        elif re == NINF: R, I = {PINF}, {PFIN}
        elif re == PINF: R, I = {PINF}, {PZ}
        elif imp == PZ and re == NZ: R, I = {NINF}, {PFIN}
        elif imp == PZ and re == PZ: R, I = {NINF}, {PZ}
        elif imp == PZ and re == PFIN: R, I = {NFIN, PZ, NZ, PFIN}, {PZ}
        elif imp == PZ and re == NFIN: R, I = {NFIN, PZ, NZ, PFIN}, {PFIN}
        else: R, I = {NFIN, PZ, NZ, PFIN}, {PFIN}
    if flip and im != NAN:
        I = {FLIP[c] for c in I}
    return R, I


def run(chk, repo, mc):
    for fname, expected in (('cf_csqrt', expected_csqrt), ('cf_clog', expected_clog)):
        f = need_func(mc, fname)
        npaths = 0
        for re in ALL:
            for im in ALL:
                ci = ClassInterp(repo, mc)
                try:
                    rets = ci.run_all(f, [(S(re), S(im))])
                except AnalysisError as ex:
                    raise AnalysisError(f'{fname}({re},{im}): {ex}')
                npaths += len(rets)
                R, I = expected(re, im)
                gotR = set(); gotI = set()
                for r in rets:
                    if not isinstance(r, tuple):
                        raise AnalysisError(f'{fname}: non-complex return')
                    gotR |= set(r[0]); gotI |= set(r[1])
                ok = gotR <= R and gotI <= I
                special = not ({re, im} <= {NFIN, PFIN})
                inst = f'{fname}({re} {"+" if im not in NEGS else "-"} i {im.lstrip("+-")})'
                chk.ob('R20.2', inst + (' [Annex G special value]' if special else ' [sign structure of the principal value]'), ok,
                       f'returns real in {sorted(gotR)}, imag in {sorted(gotI)}; C99 Annex G (with conjugate symmetry) allows real {sorted(R)}, imag {sorted(I)}', mc.where(f),
                       key=f'R20.2|{fname}|{re}|{im}', method=f'class-domain abstract interpretation ({len(rets)} paths)')
        chk.note_analysed('annexg', f'{fname}: 49 class pairs, {npaths} paths')
    chk.floor('R20.2', 98)
    chk.assume('finite arithmetic does not overflow/underflow at class level; libm follows C99 Annex F for special values')
