"""Obligations decided on the ASSEMBLED result of the whole-function symbolic execution of cf_radial_solver (solver_run.py)."""
from __future__ import annotations
import itertools
from ..core import expr as X
from ..core.interp import Opaque
from ..core.report import AnalysisError
from . import solver_run as SR

NAMES = ('y1', 'y2', 'y3', 'y4', 'y5', 'y6')
KINDS = ('solid', 'solid-static', 'liquid', 'liquid-static')


def row(r, sl, t, nt):
    a = r.solution_obj.attrs['full_solution_ptr']
    out = {}
    for j, nm in enumerate(NAMES):
        v = a.store.get(sl * 6 * nt + t * 6 + j)
        out[nm] = v if isinstance(v, X.Node) else None
    return out


def is_solid(k): return k.startswith('solid')
def is_static_liquid(k): return k == 'liquid-static'
def is_dyn_liquid(k): return k == 'liquid'


def layer_sequences(tier):
    two = list(itertools.product(KINDS, repeat=2))
    if tier == 'quick':
        three = [('solid', 'liquid-static', 'solid'), ('solid', 'liquid', 'solid'), ('liquid', 'liquid-static', 'solid'), ('liquid-static', 'liquid', 'solid-static'),
                 ('solid-static', 'liquid-static', 'liquid'), ('liquid-static', 'solid', 'liquid-static'), ('solid', 'solid-static', 'liquid')]
    else:
        three = list(itertools.product(KINDS, repeat=3))
    return two + three


def bc_reference(r, name, nondim):
    l = r.sym['l']
    R = X.ONE if nondim else r.R
    rho = X.ONE if nondim else r.sym['rho_bulk']
    return {'tidal': (X.ZERO, X.ZERO, (2 * l + 1) / R), 'loading': (-(2 * l + 1) * rho / 3, X.ZERO, (2 * l + 1) / R), 'free': (X.ZERO, X.ZERO, X.ZERO)}[name.lower()]


def assembled(chk, repo, rule_surface, rule_iface, rule_love, rule_intact=None, rule_bounds=None, where='TidalPy/RadialSolver/solver.pyx', rule_span=None, types=('tidal', 'loading', 'free'), judge=None, seq_filter=None, tag=''):
    """judge: the requested types whose solutions are judged (default: all requested); seq_filter: restrict the layer sequences; tag: distinguishes the keys of a second call"""
    d = X.Decider(seed=chk.seed + 81, k=2)
    seqs = layer_sequences(chk.tier)
    if seq_filter is not None:
        seqs = [k_ for k_ in seqs if seq_filter(k_)]
    judged = lambda tn_: judge is None or tn_ in judge
    pi = X.atom('pi', 'pos'); G = X.atom('Gconst', 'pos')
    n_run = 0
    # the same obligations with internal non-dimensionalisation switched on: what comes back must be the dimensional solution (a subset of the sequences)
    nd_seqs = [k_ for k_ in seqs if len(k_) == 2 and (chk.tier != 'quick' or k_ in (('solid', 'solid'), ('liquid-static', 'solid'), ('solid', 'liquid'), ('liquid', 'solid-static')))]
    for kinds, nondim in [(k_, False) for k_ in seqs] + [(k_, True) for k_ in nd_seqs]:
        lab = ' / '.join(kinds) + ' (innermost first)' + (', solved non-dimensionalised' if nondim else '') + tag
        try:
            r = SR.run_solver(repo, kinds, types, nondim)
        except AnalysisError as ex:
            raise AnalysisError(f'whole-solver interpretation, layers {lab}: {ex}')
        n_run += 1
        so = r.solution_obj
        if r.raised is not None or so is None or so.attrs.get('success') is not True:
            chk.ob(rule_surface or rule_iface or rule_love or rule_bounds, f'layers {lab}: the driver completes and reports success when every integration succeeds', False,
                   f'raised {getattr(r.raised, "text", r.raised)}; success={so.attrs.get("success") if so else None}; message={so.attrs.get("message") if so else None}', where, key=f'whole|completes|{lab}')
            continue
        nt = len(types); ns = r.ns; nl = len(kinds)
        dens = r.inputs['density']; grav = r.inputs['gravity']
        # ---- surface condition per requested type (independently)
        topk = kinds[-1]
        bad = []
        for t, tn in enumerate(types):
            if not judged(tn): continue
            y = row(r, r.total - 1, t, nt)
            b = bc_reference(r, tn, False)
            if is_solid(topk):
                conds = [('y2', y['y2'], b[0]), ('y4', y['y4'], b[1]), ('y6', y['y6'], b[2])]
            elif is_dyn_liquid(topk):
                conds = [('y2', y['y2'], b[0]), ('y6', y['y6'], b[2])]
            else:
                conds = []        # a static liquid surface exposes only y5; its condition y7 = y6 + (4 pi G / g) y2 is on a component that is not part of the output (C02 R02.1)
            for nm, got, ref in conds:
                if got is None or not d.equal(got, ref):
                    bad.append(f'{tn}: {nm}(R) ' + ('is not defined' if got is None else 'differs from the requested value'))
        if rule_surface is not None: chk.ob(rule_surface, f'layers {lab}: the assembled solution of every requested type ({", ".join(types)}{"; solved together" if len(types) > 1 else ""}) meets its own surface condition', not bad, '; '.join(bad[:4]), where,
               key=f'{rule_surface}|surface|{lab}', method='whole-function symbolic execution of cf_radial_solver + GF(p^2) PIT')
        # ---- interfaces
        for i in range(nl - 1):
            lo, up = kinds[i], kinds[i + 1]
            s_lo, s_up = (i + 1) * ns - 1, (i + 1) * ns
            g_int = X.const(1) / 2 * (grav[s_lo] + grav[s_up])
            bad = []
            for t, tn in enumerate(types):
                if not judged(tn): continue
                a = row(r, s_lo, t, nt); b = row(r, s_up, t, nt)

                def same(nm):
                    if a[nm] is None or b[nm] is None:
                        bad.append(f'{tn}: {nm} is not defined on both sides'); return
                    if not d.equal(a[nm], b[nm]):
                        bad.append(f'{tn}: {nm} jumps')

                def zero(side, nm, v):
                    if v is None or not d.is_zero(v):
                        bad.append(f'{tn}: {nm} on the {side} side is not zero')
                if is_solid(lo) and is_solid(up):
                    for nm in NAMES: same(nm)
                elif not is_static_liquid(lo) and not is_static_liquid(up):
                    for nm in ('y1', 'y2', 'y5', 'y6'): same(nm)
                    if is_solid(lo): zero('solid (lower)', 'y4', a['y4'])
                    if is_solid(up): zero('solid (upper)', 'y4', b['y4'])
                else:
                    same('y5')
                    for side, kind_, yv, rho_st in (('lower', lo, a, dens[s_up]), ('upper', up, b, dens[s_lo])):
                        other = up if side == 'lower' else lo
                        if is_static_liquid(kind_) or not is_static_liquid(other):
                            continue
                        # this side is not a static liquid, the other side is: hydrostatic condition with the static liquid's density at the interface
                        if yv['y2'] is None or yv['y1'] is None or yv['y5'] is None or not d.equal(yv['y2'], rho_st * (g_int * yv['y1'] - yv['y5'])):
                            bad.append(f'{tn}: y2 != rho_liquid (g y1 - y5) on the {side} ({kind_}) side of the static liquid')
                        if is_solid(kind_): zero(f'solid ({side})', 'y4', yv['y4'])
            if rule_iface is not None: chk.ob(rule_iface, f'layers {lab}: interface {i} ({lo} below {up}): the assembled solutions of all requested types are continuous where defined (zero shear on solid sides, potential through static liquids)',
                   not bad, '; '.join(bad[:4]), where, key=f'{rule_iface}|{lab}|{i}', method='whole-function symbolic execution of cf_radial_solver + GF(p^2) PIT')
        # ---- Love numbers
        love = so.attrs['complex_love_ptr']
        gs = grav[-1]
        bad = []
        for t, tn in enumerate(types):
            if not judged(tn): continue
            y = row(r, r.total - 1, t, nt)
            got = [love.store.get(3 * t + k) for k in range(3)]
            want = [None if y['y5'] is None else y['y5'] - 1, None if y['y1'] is None else gs * y['y1'], None if y['y3'] is None else gs * y['y3']]
            for nm, gv, wv in zip(('k', 'h', 'l'), got, want):
                if wv is None:
                    if isinstance(gv, X.Node): bad.append(f'{tn}: {nm} has a value although the surface component it is read from is not defined')
                elif not isinstance(gv, X.Node) or not d.equal(gv, wv):
                    bad.append(f'{tn}: {nm} is not read from the surface row of its own solution type')
        if rule_love is not None: chk.ob(rule_love, f'layers {lab}: (k, h, l) of every requested type == (y5 - 1, g y1, g y3) of the top row of that type\'s assembled solution', not bad, '; '.join(bad[:4]), where,
               key=f'{rule_love}|{lab}', method='whole-function symbolic execution of cf_radial_solver + GF(p^2) PIT')
        if rule_span is not None and not nondim:        # (the integrated solutions of a non-dimensionalised run live in other units than the returned solution)
            # in every layer the assembled vector of the components that layer carries is a linear combination of that layer's integrated solutions (same slice)
            from ..oracles import ts72
            bad = []
            for li, kd in enumerate(kinds):
                kind2 = ('solid' if is_solid(kd) else 'liquid', kd.endswith('static'))
                lay = ts72.LAYOUT[kind2]; nsol = ts72.NUM_SOLS[kind2]; nys = len(lay)
                carried = [nm for nm in lay if nm in NAMES]         # y7 of a static liquid is not part of the output
                sl_local = ns - 1; sl = li * ns + sl_local
                for t, tn in enumerate(types):
                    if not judged(tn): continue
                    yv = row(r, sl, t, nt)
                    if any(yv[nm] is None for nm in carried):
                        bad.append(f'layer {li} ({kd}), {tn}: component(s) {[nm for nm in carried if yv[nm] is None]} not defined'); continue
                    pt = d.points[0]
                    cols = []
                    for s_ in range(nsol):
                        cols.append([pt.ev(X.atom(f'Y[L{li}][S{s_}][slice {sl_local}][{lay.index(nm)}]re') + X.I * X.atom(f'Y[L{li}][S{s_}][slice {sl_local}][{lay.index(nm)}]im')) for nm in carried])
                    target = [pt.ev(yv[nm]) for nm in carried]
                    M = [[cols[s_][i] for s_ in range(nsol)] + [target[i]] for i in range(len(carried))]
                    if X.rank_gf(M) != X.rank_gf([rw[:nsol] for rw in M]):
                        bad.append(f'layer {li} ({kd}), {tn}: the assembled ({", ".join(carried)}) is not a combination of the layer\'s integrated solutions')
                    # dynamic liquid: y3 is reconstructed from the others
                    if kd == 'liquid':
                        w = r.sym['w']; rr = r.inputs['radius'][sl]; rho_ = dens[sl]; g_ = grav[sl]
                        want = (rho_ * g_ * yv['y1'] - yv['y2'] - rho_ * yv['y5']) / (w * w * rho_ * rr)
                        if yv['y3'] is None or not d.equal(yv['y3'], want):
                            bad.append(f'layer {li} ({kd}), {tn}: y3 is not (rho g y1 - y2 - rho y5)/(w^2 rho r)')
            chk.ob(rule_span, f'layers {lab}: in every layer the assembled solution is a combination of that layer\'s integrated solutions in every component the layer carries (y3 of dynamic liquids from the elimination formula)',
                   not bad, '; '.join(bad[:4]), where, key=f'{rule_span}|{lab}', method='whole-function symbolic execution + exact rank over GF(p^2)')
        if rule_bounds is not None:
            oob = [o for o in r.oob]
            chk.ob(rule_bounds, f'layers {lab}: no access outside any stack array, heap block or caller array during the whole solve', not oob,
                   '; '.join(f'{kind_} of element {k} of {name} (extent {ext}) at line {ln}' for name, ext, k, kind_, ln in oob[:3]), where, key=f'{rule_bounds}|whole|top layer {kinds[-1]}' if oob else f'{rule_bounds}|whole|{lab}',
                   method='whole-function symbolic execution with extent-checked arrays')
    chk.note_analysed('whole-solver symbolic executions', n_run)
    return n_run


def alone_vs_together(chk, repo, rule, where='TidalPy/RadialSolver/solver.pyx'):
    """A solution type requested alone and the same type requested together with the others: the returned rows of that type and its (k, h, l) are the same expressions of the
    same integrated solutions (whole-driver symbolic execution, dimensional and non-dimensionalised).  Nothing a first type leaves behind (a factorised matrix, a pivot
    vector, a scaled boundary vector) may reach the second."""
    d = X.Decider(seed=chk.seed + 83, k=2)
    types = ('tidal', 'loading', 'free')
    seqs = [('solid', 'solid'), ('solid', 'liquid', 'solid'), ('liquid-static', 'solid'), ('solid', 'liquid'), ('solid', 'liquid-static')] if chk.tier == 'quick' else layer_sequences(chk.tier)
    n_run = 0
    for kinds in seqs:
        for nondim in ((False, True) if len(kinds) <= 3 else (False,)):
            lab = ' / '.join(kinds) + ' (innermost first)' + (', solved non-dimensionalised' if nondim else '')
            try:
                joint = SR.run_solver(repo, kinds, types, nondim)
                orders = {'together, listed last': SR.run_solver(repo, kinds, tuple(reversed(types)), nondim)}
                alone = {tn: SR.run_solver(repo, kinds, (tn,), nondim) for tn in types}
            except AnalysisError as ex:
                raise AnalysisError(f'whole-solver interpretation (alone / together), layers {lab}: {ex}')
            n_run += 5
            bad = []
            if any(r_.raised is not None or r_.solution_obj is None or r_.solution_obj.attrs.get('success') is not True for r_ in [joint] + list(alone.values()) + list(orders.values())):
                bad.append('a run does not complete successfully')
            else:
                nt = len(types)
                rev = orders['together, listed last']
                for t, tn in enumerate(types):
                    a = alone[tn]
                    for how, other, to, nto in (('together with the others', joint, t, nt), ('together with the others, requested in reverse order', rev, nt - 1 - t, nt)):
                        la = a.solution_obj.attrs['complex_love_ptr']; lo = other.solution_obj.attrs['complex_love_ptr']
                        for k_, nm in enumerate(('k', 'h', 'l')):
                            ga, go = la.store.get(k_), lo.store.get(3 * to + k_)
                            if isinstance(ga, X.Node) != isinstance(go, X.Node) or (isinstance(ga, X.Node) and not d.equal(ga, go)):
                                bad.append(f'{tn}: {nm} requested alone differs from {nm} requested {how}')
                        for sl in range(a.total):
                            ya = row(a, sl, 0, 1); yo = row(other, sl, to, nto)
                            for nm in NAMES:
                                if (ya[nm] is None) != (yo[nm] is None) or (ya[nm] is not None and not d.equal(ya[nm], yo[nm])):
                                    bad.append(f'{tn}: {nm} at slice {sl} requested alone differs from the value requested {how}'); break
                            else:
                                continue
                            break
            chk.ob(rule, f'layers {lab}: every solution type (tidal, loading, free) requested alone returns the rows and the (k, h, l) it returns when requested together with the others, in either order',
                   not bad, '; '.join(bad[:3]), where, key=f'{rule}|alone-together|{lab}', method='whole-function symbolic execution of cf_radial_solver (5 runs) + GF(p^2) PIT')
    chk.note_analysed('whole-solver symbolic executions (alone / together)', n_run)
    return n_run


def liquid_y3(chk, repo, rule, where='TidalPy/RadialSolver/solver.pyx'):
    """The tangential displacement of a dynamic liquid layer is not integrated: it is reconstructed from the other components with the forcing frequency.  The returned
    (re-dimensionalised) solution must satisfy y3 = (rho g y1 - y2 - rho y5) / (w^2 rho r) with the caller's frequency, density, gravity and radius whether or not the
    solve was non-dimensionalised internally."""
    d = X.Decider(seed=chk.seed + 85, k=2)
    types = ('tidal', 'loading')
    n = 0
    for kinds in (('solid', 'liquid'), ('solid', 'liquid', 'solid'), ('liquid', 'solid')):
        for nondim in (False, True):
            lab = ' / '.join(kinds) + ' (innermost first)' + (', solved non-dimensionalised' if nondim else '')
            try:
                r = SR.run_solver(repo, kinds, types, nondim)
            except AnalysisError as ex:
                raise AnalysisError(f'whole-solver interpretation (liquid y3), layers {lab}: {ex}')
            so = r.solution_obj
            bad = []
            if r.raised is not None or so is None or so.attrs.get('success') is not True:
                bad.append('the run does not complete successfully')
            else:
                dens = r.inputs['density']; grav = r.inputs['gravity']; w = r.sym['w']
                for li, kd in enumerate(kinds):
                    if kd != 'liquid': continue
                    for sl in range(li * r.ns, (li + 1) * r.ns):
                        for t, tn in enumerate(types):
                            yv = row(r, sl, t, len(types))
                            if any(yv[nm] is None for nm in ('y1', 'y2', 'y3', 'y5')):
                                bad.append(f'layer {li}, slice {sl}, {tn}: a component is not defined'); continue
                            want = (dens[sl] * grav[sl] * yv['y1'] - yv['y2'] - dens[sl] * yv['y5']) / (w * w * dens[sl] * r.inputs['radius'][sl])
                            if not d.equal(yv['y3'], want):
                                bad.append(f'layer {li}, slice {sl}, {tn}: returned y3 is not (rho g y1 - y2 - rho y5)/(w^2 rho r) of the returned y1, y2, y5 with the caller\'s frequency')
                            n += 1
            chk.ob(rule, f'layers {lab}: y3 of the dynamic liquid layer in the returned solution obeys the elimination formula with the caller\'s (dimensional) frequency, density, gravity and radius',
                   not bad, '; '.join(bad[:3]), where, key=f'{rule}|liquid-y3|{lab}', method='whole-function symbolic execution of cf_radial_solver + GF(p^2) PIT')
    return n


def inputs_intact(chk, repo, rule, where='TidalPy/RadialSolver/solver.pyx'):
    """nondimensionalize=True: after the call (normal return, integration failure reported through success=False, integration failure raised) the caller's five arrays hold
    their original values"""
    d = X.Decider(seed=chk.seed + 83, k=2, positive=[X.atom('rho_bulk', 'pos'), X.atom('Gconst', 'pos')])
    for kinds in (('solid', 'solid'), ('solid', 'liquid-static', 'solid')):
        for scen, extra, fail in (('normal return', {}, None), ('integration failure, success=False', {}, 1), ('integration failure raised (raise_on_fail)', {'raise_on_fail': True}, 1),
                                  ('only the first integration of a layer fails, success=False', {'__fail_solution__': 0}, 1), ('only the first integration of a layer fails, raised (raise_on_fail)', {'raise_on_fail': True, '__fail_solution__': 0}, 1)):
            lab = ' / '.join(kinds)
            r = run_with_failure(repo, kinds, extra, fail)
            bad = []; worstK = 0
            from .common import rounding_count
            for nm, orig in r.inputs.items():
                for i, ov in enumerate(orig):
                    fv = r.final_arrays[nm][i]
                    if not isinstance(fv, X.Node) or not d.equal(fv, ov):
                        bad.append(f'{nm}[{i}]'); break
                    # "to within a few ulp": the restored value is the original scaled and unscaled by the same factor (two roundings); a first-order bound K u is computed
                    K_ = rounding_count(fv)
                    if K_ is None or K_ > 8:
                        bad.append(f'{nm}[{i}] is restored only to {"an unbounded" if K_ is None else f"{float(K_):.3g} u"} relative error (more than a few ulp)'); break
                    worstK = max(worstK, K_)
            uninit = [o for o in r.oob if 'uninitialised' in o[3]]
            if uninit:
                bad.append('reads memory nobody wrote: ' + '; '.join(f'element {k_} of {nm_}' for nm_, ext_, k_, kind_, ln_ in uninit[:2]))
            chk.note_analysed('restore rounding bounds', f'layers {lab}, {scen}: K <= {float(worstK):.3g}')
            so = r.solution_obj
            extra_ok = True
            if fail is not None and not extra.get('raise_on_fail'):
                extra_ok = so is not None and so.attrs.get('success') is False and bool(so.attrs.get('message'))
            if fail is not None and extra.get('raise_on_fail'):
                extra_ok = r.raised is not None
            chk.ob(rule, f'layers {lab}, non-dimensionalised internally, {scen}: the caller\'s arrays are restored' + (' and the failure is reported' if fail is not None else ''), not bad and extra_ok,
                   (f'not restored: {bad[:5]}; ' if bad else '') + ('' if extra_ok else 'failure not reported as the protocol requires'), where, key=f'{rule}|whole|{lab}|{scen}',
                   method='whole-function symbolic execution of cf_radial_solver + GF(p^2) PIT')


def _unparse_raise(sig):
    """the raise statement an exception left the driver through, as text (the key the structural R06.1 rule uses for the same exit)"""
    import ast as _ast
    node = getattr(sig, 'node', None)
    try:
        return _ast.unparse(node) if node is not None else ''
    except Exception:
        return ''


def nan_scalars(chk, repo, rule, where='TidalPy/RadialSolver/solver.pyx'):
    """a NaN frequency / bulk density / planet radius (every isnan() test on the scalars holds), both nondimensionalize settings: whatever the solver does (raise, report failure,
    or go on), the caller's five arrays hold their original values afterwards"""
    d = X.Decider(seed=chk.seed + 89, k=2, positive=[X.atom('rho_bulk', 'pos'), X.atom('Gconst', 'pos')])
    for nondim in (False, True):
        try:
            r = SR.run_solver(repo, ('solid', 'solid'), ('tidal',), nondim, extra_kwargs={'__nan_inputs__': True})
        except AnalysisError as ex:
            chk.undecide(rule, f'NaN scalar inputs, nondimensionalize={nondim}', f'the run could not be interpreted to its end: {str(ex)[:120]}')
            continue
        bad = []
        for nm, orig in r.inputs.items():
            for i, ov in enumerate(orig):
                fv = r.final_arrays[nm][i]
                if not isinstance(fv, X.Node) or not d.equal(fv, ov):
                    bad.append(f'{nm}[{i}]'); break
        chk.ob(rule, f'NaN scalar inputs, nondimensionalize={nondim}: the caller\'s arrays hold their original values on the exit taken ({"raises " + r.raised.text[:40] if r.raised is not None else "returns"})',
               not bad, f'changed: {bad[:5]}', where,
               key=(f'{rule}|' + _unparse_raise(r.raised)) if (nondim and bad and r.raised is not None and _unparse_raise(r.raised)) else f'{rule}|nan-scalars|nondim={nondim}', method='whole-function symbolic execution of cf_radial_solver with the isnan() tests holding + GF(p^2) PIT')


def zero_scalars(chk, repo, rule, where='TidalPy/RadialSolver/solver.pyx'):
    """a bulk density of exactly zero with internal non-dimensionalisation: every conversion factor divides by it.  Compiled without `cdivision`, the division raises inside the
    `noexcept` conversion routine, which returns at once (arrays untouched); with `cdivision=True` the factors are infinite and the arrays are overwritten with inf / NaN before
    any test can stop the solve.  Whatever exit is taken, the caller's five arrays hold their original values afterwards."""
    d = X.Decider(seed=chk.seed + 90, k=2, positive=[X.atom('Gconst', 'pos')])
    for nondim in (True,):
        try:
            r = SR.run_solver(repo, ('solid', 'solid'), ('tidal',), nondim, extra_kwargs={'__zero_bulk_density__': True})
        except AnalysisError as ex:
            chk.undecide(rule, f'zero bulk density, nondimensionalize={nondim}', f'the run could not be interpreted to its end: {str(ex)[:160]}')
            continue
        bad = []
        for nm, orig in r.inputs.items():
            for i, ov in enumerate(orig):
                fv = r.final_arrays[nm][i]
                if not isinstance(fv, X.Node) or not d.equal(fv, ov):
                    bad.append(f'{nm}[{i}]'); break
        chk.ob(rule, f'planet_bulk_density == 0, nondimensionalize={nondim}: the caller\'s arrays hold their original values on the exit taken ({"raises " + r.raised.text[:40] if r.raised is not None else "returns"})',
               not bad, f'changed: {bad[:5]}', where, key=f'{rule}|zero-density|nondim={nondim}',
               method='whole-function symbolic execution of cf_radial_solver; division by an exact zero follows the cdivision directive of the source it occurs in, exceptions stop at noexcept boundaries')


def run_with_failure(repo, kinds, extra, fail_layer):
    """as run_solver with nondimensionalize=True; the integration of layer `fail_layer` (if any) reports failure"""
    kw = dict(extra)
    if fail_layer is not None:
        kw['__fail_layer__'] = fail_layer
    return SR.run_solver(repo, kinds, ('tidal',), True, extra_kwargs=kw)


def interface_arguments(chk, repo, rule, where='TidalPy/RadialSolver/solver.pyx'):
    """what the driver actually hands to the two interface functions at every interface of a run (recorded during the whole-function symbolic execution; slice values are
    distinct symbols): upward -- the gravity is the mean of the two slices adjacent to the interface and the liquid density is that of the static liquid's boundary slice;
    downward -- (gravity, density) of this layer's top slice and of the bottom slice of the layer above, with the kinds / static flags of those two layers."""
    d = X.Decider(seed=chk.seed + 85, k=2)
    seqs = [('solid', 'liquid-static', 'solid'), ('liquid', 'liquid-static', 'liquid'), ('liquid-static', 'solid', 'liquid'), ('solid-static', 'liquid', 'liquid-static'), ('liquid-static', 'liquid-static', 'solid')]
    for kinds in seqs:
        r = SR.run_solver(repo, kinds, ('tidal',), False)
        ns = r.ns; grav = r.inputs['gravity']; dens = r.inputs['density']
        lab = ' / '.join(kinds)
        ups = [b for (nm, b) in r.iface_calls if nm == 'cf_solve_upper_y_at_interface']
        dns = [b for (nm, b) in r.iface_calls if nm == 'cf_top_to_bottom_interface_bc']
        bad = []
        if len(ups) != len(kinds) - 1 or len(dns) != len(kinds) - 1:
            bad.append(f'{len(ups)} upward and {len(dns)} downward interface calls for {len(kinds) - 1} interfaces')
        for i, b in enumerate(ups):
            s_lo, s_up = (i + 1) * ns - 1, (i + 1) * ns
            lo, up = kinds[i], kinds[i + 1]
            g = b.get('interface_gravity')
            if not isinstance(g, X.Node) or not d.equal(g, (grav[s_lo] + grav[s_up]) / 2):
                bad.append(f'upward, interface {i}: gravity is not the mean of the adjacent slices')
            want_rho = dens[s_up] if is_static_liquid(up) else (dens[s_lo] if is_static_liquid(lo) else None)
            rho = b.get('liquid_density')
            if want_rho is not None and (not isinstance(rho, X.Node) or not d.equal(rho, want_rho)):
                bad.append(f'upward, interface {i}: liquid density is not that of the static liquid at the interface')
            kt = (b.get('lower_layer_type'), bool(b.get('lower_is_static')), b.get('upper_layer_type'), bool(b.get('upper_is_static')))
            if kt != (SR.KIND[lo][0], SR.KIND[lo][1], SR.KIND[up][0], SR.KIND[up][1]):
                bad.append(f'upward, interface {i}: layer kinds / static flags {kt} are not those of the two layers')
        # downward calls come top-down: the first one treats the second layer from the top
        for j, b in enumerate(dns):
            li = len(kinds) - 2 - j                       # this layer; the layer above is li + 1
            s_top, s_above = (li + 1) * ns - 1, (li + 1) * ns
            checks = (('gravity_upper', grav[s_top]), ('layer_above_lower_gravity', grav[s_above]), ('density_upper', dens[s_top]), ('layer_above_lower_density', dens[s_above]))
            for pn, want in checks:
                v = b.get(pn)
                if not isinstance(v, X.Node) or not d.equal(v, want):
                    bad.append(f'downward, layer {li}: {pn} is not the value at the interface slice')
            kt = (b.get('layer_type'), bool(b.get('layer_is_static')), b.get('layer_above_type'), bool(b.get('layer_above_is_static')))
            if kt != (SR.KIND[kinds[li]][0], SR.KIND[kinds[li]][1], SR.KIND[kinds[li + 1]][0], SR.KIND[kinds[li + 1]][1]):
                bad.append(f'downward, layer {li}: layer kinds / static flags {kt} are not those of this layer and the layer above')
        chk.ob(rule, f'layers {lab}: arguments the driver hands to the interface functions at every interface (gravity, liquid density, kinds) are those of that interface, in both directions', not bad,
               '; '.join(bad[:4]), where, key=f'{rule}|{lab}', method='recorded call arguments of the whole-function symbolic execution + GF(p^2) PIT')


def guarded(chk, pid, thunk):
    """run a whole-driver analysis; if it cannot be completed on a tree for which other rules of the same check already report unlisted violations, those are the
    verdict (exit 1 with their report); otherwise the analysis error stands (fail closed)"""
    from ..core.report import load_known, norm_key
    try:
        thunk()
    except AnalysisError as ex:
        known = {norm_key(e_['key']) for e_ in load_known() if e_.get('property') == pid and e_.get('status') == 'known'}
        if any((not o.ok) and o.key not in known for o in chk.obls):
            chk.note_analysed('whole-driver symbolic execution', f'not completed on this tree ({str(ex)[:160]}); other rules report the violations')
        else:
            raise


REF_SIGNATURES = SR.REF_SIGNATURES
role_names = SR.role_names


def build_arguments(chk, repo, rule, where='TidalPy/RadialSolver/solver.pyx'):
    """what the executed driver hands to cf_build_solver for every layer: the layer's own slices of the five material arrays (pointer into the caller's array at the layer's
    first slice), the slice count, the frequency / degree / G of the solve, the layer's radial span, and the flags of that layer"""
    from ..core.interp import Arr
    mo = repo.by_path('TidalPy/RadialSolver/derivatives/odes.pyx')
    fb = mo.defs.get('cf_build_solver')
    pnames = role_names('cf_build_solver', [a.arg for a in fb.args.args])
    d = X.Decider(seed=chk.seed + 83, k=2)
    for kinds in (('solid', 'liquid-static', 'solid'), ('liquid', 'solid-static'), ('solid', 'solid', 'liquid')):
        lab = ' / '.join(kinds)
        r = SR.run_solver(repo, kinds, ('tidal',), False)
        if r.raised is not None or len(r.build_calls) != len(kinds):
            chk.ob(rule, f'layers {lab}: one solver is built per layer', False, f'{len(r.build_calls)} cf_build_solver calls for {len(kinds)} layers (raised: {getattr(r.raised, "text", None)})', where, key=f'{rule}|{lab}|count'); continue
        bad = []
        for li, (kd, args) in enumerate(zip(kinds, r.build_calls)):
            a = dict(zip(pnames, args))
            first = li * r.ns
            for pn, arr in (('radius_array_ptr', 'radius'), ('density_array_ptr', 'density'), ('gravity_array_ptr', 'gravity'), ('bulk_modulus_array_ptr', 'bulk'), ('shear_modulus_array_ptr', 'shear')):
                v = a[pn]
                if not (isinstance(v, Arr) and v.base is r.arrays[arr].base and v.offset == first):
                    bad.append(f'layer {li}: {pn} is ' + (f'{v.base.name}[{v.offset}:]' if isinstance(v, Arr) else type(v).__name__) + f', expected {arr}_array[{first}:]')
            if a['num_slices'] != r.ns: bad.append(f'layer {li}: num_slices = {a["num_slices"]}, the layer has {r.ns}')
            if a['layer_type'] != SR.KIND[kd][0] or bool(a['is_static']) != SR.KIND[kd][1]: bad.append(f'layer {li}: flags ({a["layer_type"]}, {a["is_static"]}) are not those of a {kd} layer')
            if not (isinstance(a['frequency_to_use'], X.Node) and d.equal(a['frequency_to_use'], r.sym['w'])): bad.append(f'layer {li}: frequency is not the forcing frequency')
            if not (isinstance(a['degree_l'], X.Node) and d.equal(X.lift(a['degree_l']), r.sym['l'])): bad.append(f'layer {li}: degree is not the requested degree')
            if not (isinstance(a['G_to_use'], X.Node) and d.equal(a['G_to_use'], X.atom('Gconst', 'pos'))): bad.append(f'layer {li}: G is not the gravitational constant of the solve')
            span = a['t_span']
            r0, r1 = r.inputs['radius'][first], r.inputs['radius'][first + r.ns - 1]
            if not (isinstance(span, tuple) and len(span) == 2 and d.equal(X.lift(span[0]), r0) and d.equal(X.lift(span[1]), r1)):
                bad.append(f'layer {li}: radial span is not (bottom radius, top radius) of the layer')
        chk.ob(rule, f'layers {lab}: cf_build_solver receives, for every layer, that layer\'s slices of the five material arrays, its slice count, flags and radial span, and the frequency / degree / G of the solve',
               not bad, '; '.join(bad[:4]), where, key=f'{rule}|{lab}', method='recorded arguments of the whole-function symbolic execution')


def starting_arguments(chk, repo, rule, where='TidalPy/RadialSolver/solver.pyx'):
    """what the executed driver hands to cf_find_starting_conditions: the flags of the innermost layer, the requested family, and the material values of the innermost slice"""
    d = X.Decider(seed=chk.seed + 85, k=2)
    for kinds in (('solid', 'solid'), ('liquid', 'solid'), ('liquid-static', 'solid'), ('solid-static', 'liquid')):
        for kam in (False, True):
            for incomp in (False, True):
                lab = f'innermost layer {kinds[0]}' + (', incompressible' if incomp else '') + (', Kamata family' if kam else ', Takeuchi-Saito family')
                r = SR.run_solver(repo, kinds, ('tidal',), False, incompressible=incomp, extra_kwargs={'use_kamata': kam})
                if len(r.start_calls) != 1:
                    chk.ob(rule, f'{lab}: starting conditions are computed once, for the innermost layer', False, f'{len(r.start_calls)} calls (raised: {getattr(r.raised, "text", None)})', where, key=f'{rule}|{lab}|count'); continue
                actual, bound_ = r.start_calls[0]
                roles = role_names('cf_find_starting_conditions', actual)
                a = {role: bound_.get(act) for role, act in zip(roles, actual)}
                bad = []
                if a['layer_type'] != SR.KIND[kinds[0]][0] or bool(a['is_static']) != SR.KIND[kinds[0]][1]: bad.append(f'flags ({a["layer_type"]}, {a["is_static"]}) are not those of the innermost layer')
                if bool(a['is_incompressible']) != incomp: bad.append('incompressibility flag is not that of the innermost layer')
                if bool(a['use_kamata']) != kam: bad.append('the requested starting family is not passed on')
                for pn, ref, txt in (('frequency', r.sym['w'], 'the forcing frequency'), ('radius', r.inputs['radius'][0], 'the innermost radius'), ('density', r.inputs['density'][0], 'the innermost density'),
                                     ('bulk_modulus', r.inputs['bulk'][0], 'the innermost bulk modulus'), ('shear_modulus', r.inputs['shear'][0], 'the innermost shear modulus'),
                                     ('degree_l', r.sym['l'], 'the requested degree'), ('G_to_use', X.atom('Gconst', 'pos'), 'the gravitational constant of the solve')):
                    v = a[pn]
                    if isinstance(v, Opaque) or not d.equal(X.lift(v), ref): bad.append(f'{pn} is not {txt}')
                if a['num_ys'] != SR.MAXY: bad.append(f'num_ys = {a["num_ys"]}, the starting block has stride {SR.MAXY}')
                chk.ob(rule, f'{lab}: cf_find_starting_conditions receives the innermost layer\'s flags and material values, the frequency / degree / G of the solve and the requested family', not bad,
                       '; '.join(bad[:4]), where, key=f'{rule}|{lab}', method='recorded arguments of the whole-function symbolic execution')
        # with internal non-dimensionalisation: the starting solutions and the equations they are integrated with must live in the same unit system
        r = SR.run_solver(repo, kinds, ('tidal',), True)
        lab = f'innermost layer {kinds[0]}, solved non-dimensionalised'
        if len(r.start_calls) == 1 and r.build_calls:
            actual, bound_ = r.start_calls[0]
            roles = role_names('cf_find_starting_conditions', actual)
            a = {role: bound_.get(act) for role, act in zip(roles, actual)}
            mo = repo.by_path('TidalPy/RadialSolver/derivatives/odes.pyx')
            bnames = role_names('cf_build_solver', [x.arg for x in mo.defs['cf_build_solver'].args.args])
            b = dict(zip(bnames, r.build_calls[0]))
            bad = []
            for sp, bp, txt in (('frequency', 'frequency_to_use', 'frequency'), ('G_to_use', 'G_to_use', 'gravitational constant')):
                if isinstance(a[sp], Opaque) or isinstance(b[bp], Opaque) or not d.equal(X.lift(a[sp]), X.lift(b[bp])):
                    bad.append(f'the {txt} handed to the starting conditions is not the one the layer\'s equations are integrated with')
            span = b.get('t_span')
            if not (isinstance(span, tuple) and not isinstance(a['radius'], Opaque) and d.equal(X.lift(a['radius']), X.lift(span[0]))):
                bad.append('the starting radius is not the radius the integration of the innermost layer starts at')
            chk.ob(rule, f'{lab}: the starting conditions are computed in the unit system of the equations they are integrated with (same frequency, G and starting radius as the innermost layer\'s solver)',
                   not bad, '; '.join(bad[:3]), where, key=f'{rule}|{lab}', method='recorded arguments of the whole-function symbolic execution')


def surface_arguments(chk, repo, rule, where='TidalPy/RadialSolver/solver.pyx'):
    """what the executed driver hands to cf_apply_surface_bc, dimensional and non-dimensionalised: the surface gravity and the gravitational constant of the unit system the
    layer solutions were integrated in (a dimensional g next to a non-dimensional G changes the static-liquid surface condition y7 = y6 + (4 pi G / g) y2)"""
    d = X.Decider(seed=chk.seed + 86, k=2, positive=[X.atom('rho_bulk', 'pos'), X.atom('Gconst', 'pos')])
    mo = repo.by_path('TidalPy/RadialSolver/derivatives/odes.pyx')
    bnames = role_names('cf_build_solver', [x.arg for x in mo.defs['cf_build_solver'].args.args])
    for kinds in (('solid', 'solid'), ('solid', 'liquid-static'), ('solid', 'liquid')):
        for nondim in (False, True):
            lab = ' / '.join(kinds) + (', solved non-dimensionalised' if nondim else '')
            r = SR.run_solver(repo, kinds, ('tidal', 'loading'), nondim)
            bad = []
            if not r.surface_calls:
                bad.append(f'cf_apply_surface_bc is not reached (raised: {getattr(r.raised, "text", None)})')
            for names, bound in r.surface_calls:
                roles = role_names('cf_apply_surface_bc', names)
                a = {role: bound.get(act) for role, act in zip(roles, names)}
                g_now = bound.get('__gravity_top_now__')
                b = dict(zip(bnames, r.build_calls[-1])) if r.build_calls else {}
                if isinstance(a.get('surface_gravity'), Opaque) or g_now is None or not d.equal(X.lift(a['surface_gravity']), X.lift(g_now)):
                    bad.append('surface_gravity is not the gravity of the top slice in the unit system of the solve')
                if 'G_to_use' in b and (isinstance(a.get('G_to_use'), Opaque) or not d.equal(X.lift(a['G_to_use']), X.lift(b['G_to_use']))):
                    bad.append('G_to_use is not the gravitational constant the layer equations were integrated with')
            chk.ob(rule, f'layers {lab}: cf_apply_surface_bc receives the surface gravity and G of the unit system the layers were integrated in (every requested type)', not bad, '; '.join(sorted(set(bad))[:3]), where,
                   key=f'{rule}|surface-args|{lab}', method='recorded arguments of the whole-function symbolic execution')


def entry_point_arguments(chk, repo, rule, where='TidalPy/RadialSolver/solver.pyx'):
    """The Python entry point radial_solver(...) is interpreted with the compiled driver replaced by a recorder: every parameter of cf_radial_solver must receive the
    like-named argument of the entry point (arrays as pointers to their first element, per-layer tuples unpacked in order into the heap arrays, 'solid' / 'liquid'
    encoded as 0 / 1, the integration method as its code), independent of how the entry point names its locals."""
    from ..core.interp import Interp, Arr, FuncRef
    import ast as _ast
    ms = repo.by_path(where)
    fw = ms.defs.get('radial_solver'); fc = ms.defs.get('cf_radial_solver')
    if not isinstance(fw, _ast.FunctionDef) or not isinstance(fc, _ast.FunctionDef):
        raise AnalysisError('radial_solver / cf_radial_solver vanished')
    cparams = role_names('cf_radial_solver', [a.arg for a in fc.args.args])
    rec = {}

    def call_hook(itp, f, args, kwargs, e, fr):
        nm = f.node.name if isinstance(f, FuncRef) else str(getattr(f, 'name', ''))
        base = nm.split('.')[-1]
        if base == 'cf_radial_solver':
            rec['args'] = dict(zip(cparams, args)); rec['args'].update(kwargs)
            return Opaque('solution')
        if base in ('allocate_mem', 'reallocate_mem'):
            return Arr('heap')
        if base in ('PyMem_Free', 'free_mem', 'free'):
            return None
        return NotImplemented

    def glob_hook(itp, mod, nm):
        if nm == 'log': return Opaque('log')
        return None
    d = X.Decider(seed=chk.seed + 87, k=2)
    n = 8
    arrs = {}
    for nm in ('radius_array', 'density_array', 'gravity_array', 'bulk_modulus_array', 'complex_shear_modulus_array'):
        a = Arr(nm, default=(lambda k, nm=nm: X.atom(f'{nm}[{k}]')), shape=(n,)); a.extent = n
        arrs[nm] = a
    scal = {'frequency': X.atom('frequency', 'pos'), 'planet_bulk_density': X.atom('rho_bulk', 'pos'), 'degree_l': X.atom('l', 'pos'), 'integration_rtol': X.atom('rtol', 'pos'),
            'integration_atol': X.atom('atol', 'pos'), 'max_num_steps': X.atom('max_num_steps', 'pos'), 'expected_size': X.atom('expected_size', 'pos'), 'max_ram_MB': X.atom('max_ram', 'pos'),
            'max_step': X.atom('max_step', 'pos')}
    flag_names = ['use_kamata', 'scale_rtols_by_layer_type', 'limit_solution_to_radius', 'nondimensionalize', 'verbose', 'raise_on_fail']
    # boolean options: three runs whose truth patterns are the bits of the option's index, so that any two options differ in at least one run (a swap of two options is seen)
    for run_i, (layer_types, statics, incomps, method, code) in enumerate(((('solid', 'liquid', 'Solid'), (False, True, True), (True, False, False), 'DOP853', 2),
                                                                           (('liquid', 'solid'), (True, False), (False, True), 'rk23', 0),
                                                                           (('solid',), (False,), (False,), 'RK45', 1))):
        flags = {nm: bool(((i_ + 1) >> run_i) & 1) for i_, nm in enumerate(flag_names)}
        uppers = tuple(X.atom(f'upper_radius{i}', 'pos') for i in range(len(layer_types)))
        solve_for = ('tidal', 'loading')
        kw = dict(arrs); kw.update(scal); kw.update(flags)
        kw.update({'layer_types': layer_types, 'is_static_by_layer': statics, 'is_incompressible_by_layer': incomps, 'upper_radius_by_layer': uppers, 'solve_for': solve_for,
                   'integration_method': method, 'warnings': False})
        wparams = {a.arg for a in fw.args.args}
        miss = [k for k in kw if k not in wparams]
        if miss:
            raise AnalysisError(f'radial_solver: parameters {miss} vanished')
        rec.clear()
        it = Interp(repo, hooks={'call': call_hook, 'global': glob_hook}, max_depth=6)
        try:
            it.call(ms, fw, [], kw)
        except Exception as ex:
            if isinstance(ex, AnalysisError): raise
            raise AnalysisError(f'radial_solver entry point could not be interpreted: {ex}')
        a = rec.get('args')
        lab = f'{len(layer_types)} layers {layer_types}, method {method}'
        if a is None:
            chk.ob(rule, f'{lab}: the entry point calls the compiled driver', False, 'cf_radial_solver is not reached with valid arguments', ms.where(fw), key=f'{rule}|{lab}|reached'); continue
        bad = []
        nl = len(layer_types)
        def ptr_ok(v, arr): return isinstance(v, Arr) and v.base is arrs[arr].base and v.offset == 0
        for cp, arr in (('radius_array_ptr', 'radius_array'), ('density_array_ptr', 'density_array'), ('gravity_array_ptr', 'gravity_array'), ('bulk_modulus_array_ptr', 'bulk_modulus_array'),
                        ('complex_shear_modulus_array_ptr', 'complex_shear_modulus_array')):
            if cp in a and not ptr_ok(a[cp], arr): bad.append(f'{cp} is not the first element of {arr}')
        if a.get('total_slices') != n: bad.append(f'total_slices = {a.get("total_slices")}, the arrays hold {n}')
        if a.get('num_layers') != nl: bad.append(f'num_layers = {a.get("num_layers")}')
        def heap(v, k):
            try: return v.get(k)
            except Exception: return None
        for k in range(nl):
            if heap(a.get('layer_types_ptr'), k) != (0 if layer_types[k].lower() == 'solid' else 1): bad.append(f'layer {k}: type code is not that of {layer_types[k]!r}')
            if bool(heap(a.get('is_static_by_layer_ptr'), k)) != statics[k]: bad.append(f'layer {k}: static flag')
            if bool(heap(a.get('is_incompressible_by_layer_ptr'), k)) != incomps[k]: bad.append(f'layer {k}: incompressible flag')
            if heap(a.get('upper_radius_by_layer_ptr'), k) is not uppers[k]: bad.append(f'layer {k}: upper radius')
        for cp, v in list(scal.items()) + list(flags.items()):
            if cp in a:
                got = a[cp]
                same = (got is v) if isinstance(v, X.Node) else (bool(got) == v if isinstance(v, bool) else got == v)
                if isinstance(v, X.Node) and isinstance(got, X.Node) and not same: same = d.equal(got, v)
                if not same: bad.append(f'{cp} does not receive the entry point\'s {cp}')
        if a.get('solve_for') != solve_for: bad.append('solve_for is not passed on')
        if a.get('integration_method') != code: bad.append(f'integration method code {a.get("integration_method")} for {method!r} (expected {code})')
        chk.ob(rule, f'{lab}: every parameter of the compiled driver receives the like-named argument of the Python entry point (arrays by their first element, per-layer tuples in order, codes for layer type and method)',
               not bad, '; '.join(bad[:4]), ms.where(fw), key=f'{rule}|{lab}', method='interpretation of the entry point with the driver replaced by a recorder')


def entry_point_layer_counts(chk, repo, rule, where='TidalPy/RadialSolver/solver.pyx'):
    """The Python entry point with many layers (values around every constant its guards compare the layer count with, and some large ones): it either raises a Python
    exception or hands the per-layer data on without touching memory outside a fixed-size (stack) array."""
    from ..core import interp as I
    from ..core.interp import Interp, Arr, FuncRef, RaiseSignal
    import ast as _ast
    ms = repo.by_path(where)
    fw = ms.defs.get('radial_solver')
    if not isinstance(fw, _ast.FunctionDef):
        raise AnalysisError('radial_solver vanished')
    rec = {}

    def call_hook(itp, f, args, kwargs, e, fr):
        nm = f.node.name if isinstance(f, FuncRef) else str(getattr(f, 'name', ''))
        base = nm.split('.')[-1]
        if base == 'cf_radial_solver':
            rec['reached'] = True
            return Opaque('solution')
        if base in ('allocate_mem', 'reallocate_mem'):
            return Arr('heap')
        if base in ('PyMem_Free', 'free_mem', 'free'):
            return None
        return NotImplemented

    def glob_hook(itp, mod, nm):
        if nm == 'log': return Opaque('log')
        return None
    # candidate counts: constants in the entry point and at module level (the limits its guards can refer to), their neighbours, and a few fixed values
    consts = {c.value for c in _ast.walk(fw) if isinstance(c, _ast.Constant) and isinstance(c.value, int) and not isinstance(c.value, bool) and 2 <= c.value <= 4096}
    for st in ms.tree.body:
        if isinstance(st, (_ast.Assign, _ast.AnnAssign)):
            consts |= {c.value for c in _ast.walk(st) if isinstance(c, _ast.Constant) and isinstance(c.value, int) and not isinstance(c.value, bool) and 2 <= c.value <= 4096}
    counts = sorted({1, 4, 11, 33, 100} | {v_ for c in consts for v_ in (c - 1, c, c + 1) if 1 <= v_ <= 300})
    if chk.tier == 'quick':
        counts = sorted(set(counts[:3]) | {c_ for c_ in counts if c_ in (10, 11, 30, 31, 33, 100)})
    n = 8
    for L in counts:
        arrs = {}
        for nm in ('radius_array', 'density_array', 'gravity_array', 'bulk_modulus_array', 'complex_shear_modulus_array'):
            a = Arr(nm, default=(lambda k, nm=nm: X.atom(f'{nm}[{k}]')), shape=(n,)); a.extent = n
            arrs[nm] = a
        kw = dict(arrs)
        kw.update({'frequency': X.atom('frequency', 'pos'), 'planet_bulk_density': X.atom('rho_bulk', 'pos'), 'layer_types': tuple('solid' for _ in range(L)), 'is_static_by_layer': tuple(False for _ in range(L)),
                   'is_incompressible_by_layer': tuple(False for _ in range(L)), 'upper_radius_by_layer': tuple(X.atom(f'upper_radius{i}', 'pos') for i in range(L))})
        rec.clear(); I.OOB_LOG.clear()
        it = Interp(repo, hooks={'call': call_hook, 'global': glob_hook}, max_depth=6)
        raised = None
        try:
            it.call(ms, fw, [], kw)
        except RaiseSignal as ex:
            raised = ex.text
        oob = sorted({(name, ext, k, kind_) for name, ext, k, kind_, node in I.OOB_LOG})
        I.OOB_LOG.clear()
        ok = not oob and (raised is not None or rec.get('reached'))
        why = '; '.join(f'{kind_} of element {k} of {name} (extent {ext})' for name, ext, k, kind_ in oob[:3]) or ('neither raises nor reaches the compiled driver' if not ok else '')
        chk.ob(rule, f'radial_solver with {L} layers: raises a Python exception or passes the per-layer data on, touching no memory outside a fixed-size array', ok, why, ms.where(fw),
               key=f'{rule}|layers={L}', method='interpretation of the entry point (fixed-size C arrays carry their extent)')


def entry_point_tuple_lengths(chk, repo, rule, where='TidalPy/RadialSolver/solver.pyx'):
    """The per-layer tuples of the Python entry point (types, static / incompressible flags, upper radii) are indexed layer by layer with bounds checking switched off in the
    compiled module: a tuple shorter than `layer_types` is then read past its end.  With each per-layer tuple in turn one element short (and one element long), the entry
    point must end in an exception it raises itself -- not run on into the loop, where the interpreter's own IndexError stands for the unchecked read."""
    from ..core import interp as I
    from ..core.interp import Interp, Arr, FuncRef, RaiseSignal
    import ast as _ast
    ms = repo.by_path(where)
    fw = ms.defs.get('radial_solver')
    if not isinstance(fw, _ast.FunctionDef):
        raise AnalysisError('radial_solver vanished')
    rec = {}

    def call_hook(itp, f, args, kwargs, e, fr):
        nm = f.node.name if isinstance(f, FuncRef) else str(getattr(f, 'name', ''))
        base = nm.split('.')[-1]
        if base == 'cf_radial_solver':
            rec['reached'] = True
            return Opaque('solution')
        if base in ('allocate_mem', 'reallocate_mem'):
            return Arr('heap')
        if base in ('PyMem_Free', 'free_mem', 'free'):
            return None
        return NotImplemented

    def glob_hook(itp, mod, nm):
        if nm == 'log': return Opaque('log')
        return None
    params = [a.arg for a in fw.args.args + fw.args.kwonlyargs]
    per_layer = [p_ for p_ in ('layer_types', 'is_static_by_layer', 'is_incompressible_by_layer', 'upper_radius_by_layer') if p_ in params]
    if len(per_layer) < 4:
        raise AnalysisError(f'radial_solver: per-layer tuple parameters {per_layer} (expected 4)')
    n = 8; L = 3
    for short in per_layer[1:]:
        for delta, dlab in ((-1, 'one element short'), (+1, 'one element long')):
            arrs = {}
            for nm in ('radius_array', 'density_array', 'gravity_array', 'bulk_modulus_array', 'complex_shear_modulus_array'):
                a = Arr(nm, default=(lambda k, nm=nm: X.atom(f'{nm}[{k}]')), shape=(n,)); a.extent = n
                arrs[nm] = a
            kw = dict(arrs)
            def ln(p_): return L + delta if p_ == short else L
            kw.update({'frequency': X.atom('frequency', 'pos'), 'planet_bulk_density': X.atom('rho_bulk', 'pos'), 'layer_types': tuple('solid' for _ in range(ln('layer_types'))),
                       'is_static_by_layer': tuple(False for _ in range(ln('is_static_by_layer'))), 'is_incompressible_by_layer': tuple(False for _ in range(ln('is_incompressible_by_layer'))),
                       'upper_radius_by_layer': tuple(X.atom(f'upper_radius{i}', 'pos') for i in range(ln('upper_radius_by_layer')))})
            rec.clear(); I.OOB_LOG.clear()
            it = Interp(repo, hooks={'call': call_hook, 'global': glob_hook}, max_depth=6)
            raised = None
            try:
                it.call(ms, fw, [], kw)
            except RaiseSignal as ex:
                raised = ex.text
            I.OOB_LOG.clear()
            unchecked = raised is not None and raised.startswith('IndexError')
            ok = raised is not None and not unchecked
            why = ('the tuple is indexed past its end (an unchecked read in the compiled module)' if unchecked else ('the mismatch is not refused: the call runs on' + (' into the compiled driver' if rec.get('reached') else ''))) if not ok else ''
            chk.ob(rule, f'radial_solver with `{short}` {dlab} ({L + delta} entries for {L} layers): refused with an exception before any per-layer tuple is indexed', ok, why, ms.where(fw),
                   key=f'{rule}|tuple|{short}|{dlab}', method='interpretation of the entry point with mismatched per-layer tuples')


def malformed_structures(chk, repo, rule, where='TidalPy/RadialSolver/solver.pyx'):
    """Layer structures the solver cannot integrate (a layer with no slices, a layer with too few slices -- innermost, middle or outermost): the executed driver must end
    in a Python exception before a solver is built for that layer and without touching memory outside any array."""
    cases = [((4, 0, 4), 'middle layer without slices'), ((0, 4, 4), 'innermost layer without slices'), ((4, 4, 0), 'outermost layer without slices'),
             ((4, 2, 4), 'middle layer with two slices'), ((3, 4, 4), 'innermost layer with three slices'), ((4, 4, 1), 'outermost layer with one slice')]
    for per, lab in cases:
        kinds = ('solid', 'liquid-static', 'solid')
        try:
            r = SR.run_solver(repo, kinds, ('tidal',), False, slices_by_layer=per)
        except AnalysisError as ex:
            chk.ob(rule, f'{lab} {per}: the solver ends in a Python exception before integrating', False,
                   f'the driver runs on into the solve (the interpretation stops at: {str(ex)[:140]})', where, key=f'{rule}|{lab}', method='whole-function symbolic execution on a malformed layer structure')
            continue
        built = len(r.build_calls)
        bad_layer = next(i for i, n in enumerate(per) if n <= 3)
        ok = r.raised is not None and built <= bad_layer and not r.oob
        why = []
        if r.raised is None: why.append('no exception is raised' + ('' if r.solution_obj is None else f' (success={r.solution_obj.attrs.get("success")})'))
        if built > bad_layer: why.append(f'{built} layer solvers were built although layer {bad_layer} cannot be integrated')
        if r.oob: why.append('memory outside an array is touched: ' + '; '.join(f'{kind_} of element {k} of {name} (extent {ext})' for name, ext, k, kind_, ln in r.oob[:2]))
        chk.ob(rule, f'{lab} {per}: the solver ends in a Python exception before a solver is built for that layer, touching no memory outside its arrays', ok, '; '.join(why), where,
               key=f'{rule}|{lab}', method='whole-function symbolic execution on a malformed layer structure')
