"""C20 — compiled math helpers match their mathematical definitions (formula / table / special-value level)."""
from __future__ import annotations
import ast, re
from fractions import Fraction as F
from ..core import expr as X
from ..core.interp import Interp, FuncRef, Opaque, concrete
from ..core.report import AnalysisError
from ..frontend.pyfront import Repo
from .common import need_func, make_eq, eps_mask

LEVEL = 'other'
TECHNIQUE = 'table extraction with exact integer oracle (double factorial); partial evaluation of the integer-power routines for every exponent (polynomial identity a^b); class-domain abstract interpretation of csqrt/clog/cexp against C99 Annex G; enumeration of every path through the finite-argument branches of hypot/csqrt/cexp/clog with the defining identity decided on each arm (sample points drawn inside the arm; atan2, frexp/ldexp, log1p modelled algebraically)'
LEVEL_TEXT = ('Decides the parts of the property that are visible in source: every tabulated double factorial is the correctly rounded exact value; integer powers reduce to a^b for every '
              '|b| < 100 and to exp(b log a) beyond; the special-value behaviour of csqrt/clog/cexp is checked per floating-point class pair; the legacy Python square root agrees with the compiled one; for finite arguments every branch of hypot, csqrt, cexp and clog returns an expression that satisfies the defining identity over the reals (hypot^2 = x^2+y^2, csqrt(z)^2 = z, cexp(z) = e^x(cos y + i sin y), exp(clog z) = z).')
LEVEL_NOTE = ('Trusted: Cython-subset front-end, interpreter, class-level transfer functions of libm (sqrt, hypot, log, atan2, copysign per C99 Annex F), float() of a decimal literal is correctly rounded (as strtod). '
              'Not decided: ulp-level accuracy and overflow thresholds for finite arguments.')
EXPLANATION = ('R20.1 double-factorial literals and index guard; R20.4 integer powers; R20.5 legacy _sqrt_neg_python == principal root; '
               'R20.6 cf_build_dblcmplx writes (re, im) to slots (0, 1); R20.2 Annex G class tables; R20.7 defining identities on every finite-argument path; R20.8 module constants; R20.9 exponent ranges of the intermediates of the interpreted square root over all finite doubles; R20.13 element i of sqrt_neg(array) is the scalar result of element i (two-element arrays across regions); R20.12 equality predicates of the interpreted helpers compare exact functions of the arguments, not rounded intermediates; R20.10 the interpreted (2l+1)!! table of the legacy starting conditions is exact (module-level construction interpreted, int64 wrap-around modelled).')


def dfact(n):
    r = 1
    while n > 1:
        r *= n; n -= 2
    return r


TECHNIQUE += '; threshold-directed sampling of every comparison against a constant (both sides next to the threshold); ternaries in the special-value domain'

EXPLANATION += ' R20.13 also: the arithmetic of element i of sqrt_neg(array) uses nothing of the other elements (a scale taken over the whole array cancels over the reals only).'

TECHNIQUE += '; atom-support analysis of the elements of array results (comparisons excluded)'

EXPLANATION += ' R20.14 the binding of sqrt_neg used without numba returns the principal root as well (numpy helpers modelled by their definitions, tolerance thresholds entered by directed sampling).'

def run(chk):
    repo = Repo(chk.repo)
    ms = repo.by_path('TidalPy/utilities/math/special_x.pyx')
    mc = repo.by_path('TidalPy/utilities/math/complex.pyx')
    # ---------------------------------------------------------------- R20.1
    extent = None
    for (nm, ln), typ in ms.facts.vars.items():
        if nm == 'pre_calculated_doubles':
            mm = re.search(r'\[\s*(\d+)\s*\]', typ)
            if mm: extent = int(mm.group(1))
    entries = {}
    for st in ms.tree.body:
        if isinstance(st, ast.Assign) and isinstance(st.targets[0], ast.Subscript) and ast.unparse(st.targets[0].value) == 'pre_calculated_doubles_ptr':
            idx = ast.literal_eval(st.targets[0].slice)
            line = ms.parsed_lines[st.value.lineno - 1]
            txt = line[st.value.col_offset:st.value.end_col_offset]
            entries[idx] = (txt, st.lineno)
    if extent is None or len(entries) < 40:
        raise AnalysisError('special_x.pyx: double-factorial table not found')
    chk.ob('R20.1', f'table has entries 0..{extent - 1} exactly', sorted(entries) == list(range(extent)), f'indices {sorted(entries)[:3]}..{sorted(entries)[-3:]}, extent {extent}', ms.rel(), method='table extraction')
    for n, (txt, ln) in sorted(entries.items()):
        exact = dfact(n)
        ok = float(txt) == float(exact)
        chk.ob('R20.1', f'double_factorial table [{n}]', ok, f'literal {txt} -> {float(txt)!r}, but {n}!! = {exact} -> {float(exact)!r}', f'{ms.rel()}:{ln}', key=f'R20.1|table[{n}]', method='exact integer oracle, correctly rounded')
    f = need_func(ms, 'cf_double_factorial')
    # the helper interpreted for EVERY argument its parameter type admits (unsigned char: 0..255), on a table holding the exact tabulated values: no access outside the
    # table, termination, and the returned value is n!! (Gamma(k+1) read as k!) up to the largest n the C gamma function can serve, NaN beyond
    import math as _math
    from ..core import interp as I
    from ..core.interp import Arr, Opaque, RaiseSignal
    table = Arr('pre_calculated_doubles'); table.extent = extent
    for k_ in range(extent):
        table.store[k_] = dfact(k_)

    def glob_hook(itp, mod, nm):
        if nm in ('pre_calculated_doubles_ptr', 'pre_calculated_doubles'): return table
        if nm in ('NAN', 'nan'): return Opaque('nan')
        return None

    def call_hook(itp, fr_, args, kw, e, frm):
        nm_ = fr_.node.name if isinstance(fr_, FuncRef) else str(getattr(fr_, 'name', ''))
        if nm_.split('.')[-1] in ('tgamma', 'gamma') and len(args) == 1:
            c_ = I.concrete(X.lift(args[0]))
            if c_ is not None and F(c_).denominator == 1 and 1 <= int(c_) <= 400:
                return _math.factorial(int(c_) - 1)
        return NotImplemented
    bad = []; oob = []; n_nan = 0; first_nan = None
    for nv in range(256):
        it = Interp(repo, hooks={'global': glob_hook, 'call': call_hook}, max_depth=300, max_unroll=1000)
        I.OOB_LOG.clear()
        try:
            val = it.call(ms, f, [nv])
        except AnalysisError as ex:
            bad.append(f'n = {nv}: {str(ex)[:90]}'); continue
        except RaiseSignal as ex:
            bad.append(f'n = {nv}: raises {ex.text[:60]}'); continue
        if I.OOB_LOG:
            oob.append(f'n = {nv}: table element {I.OOB_LOG[0][2]} of {extent}')
        if isinstance(val, Opaque):
            n_nan += 1
            if first_nan is None: first_nan = nv
            continue
        c_ = I.concrete(X.lift(val))
        if c_ is None or F(c_) != dfact(nv):
            bad.append(f'n = {nv}: returns {X.show(X.lift(val))[:40]}, n!! = {dfact(nv)}')
    chk.ob('R20.1', 'cf_double_factorial(n) for every n in 0..255: no access outside the table', not oob, '; '.join(oob[:3]), ms.where(f), key='R20.1|bounds', method='interpretation over the whole argument domain')
    chk.ob('R20.1', 'cf_double_factorial(n) == n!! for every n it serves (Gamma(k+1) read as k!)', not bad, '; '.join(bad[:3]), ms.where(f), key='R20.1|value', method='interpretation over the whole argument domain, exact integers')
    # NaN only where the C gamma function overflows a double (170! is the largest finite factorial) -- and for every such n
    ok = first_nan == 171 and n_nan == 256 - 171
    chk.ob('R20.1', 'cf_double_factorial returns NaN exactly for n >= 171 (Gamma(n + 1) overflows a double beyond 170!)', ok, f'NaN for {n_nan} arguments, the first one n = {first_nan}', ms.where(f),
           key='R20.1|nan-range', method='interpretation over the whole argument domain')

    # ---------------------------------------------------------------- R20.6 cf_build_dblcmplx
    fb = need_func(mc, 'cf_build_dblcmplx')
    stores = {}
    for st in ast.walk(fb):
        if isinstance(st, ast.Assign) and isinstance(st.targets[0], ast.Subscript):
            stores[ast.literal_eval(st.targets[0].slice)] = ast.unparse(st.value)
    params = [p.arg for p in fb.args.args]
    chk.ob('R20.6', 'cf_build_dblcmplx stores its first argument at slot 0 (real) and the second at slot 1 (imag) of the result', stores == {0: params[0], 1: params[1]},
           f'stores {stores}, params {params}', mc.where(fb), method='AST')

    # ---------------------------------------------------------------- R20.4 integer powers
    a = X.atom('a', 'complex')

    def bh(itp, st, v, frm):
        if isinstance(v, X.Node) and v.op == 'cmp' and v.val in ('==', '!=') and any(concrete(a_) == 0 for a_ in v.args):
            return v.val == '!='          # generic base: its parts are not exactly zero
        return None

    def ch(itp, fr_, args, kw, e, frm):
        if isinstance(fr_, FuncRef) and fr_.node.name == 'cf_clog': return X.fn('CLOG', X.lift(args[0]))
        if isinstance(fr_, FuncRef) and fr_.node.name == 'cf_cexp': return X.fn('CEXP', X.lift(args[0]))
        return NotImplemented
    it2 = Interp(repo, hooks={'branch': bh, 'call': ch})
    f_ci = need_func(mc, 'cf_cipow'); f_cp = need_func(mc, 'cf_cpow')
    dd = X.Decider(seed=chk.seed + 1, k=2)
    bad_ci = []; bad_cp = []
    rng = range(-99, 100)
    for b in rng:
        r = it2.call(mc, f_ci, [a, b])
        if not dd.equal(r, X.powi(a, b) if b else X.ONE): bad_ci.append(b)
        r2 = it2.call(mc, f_cp, [a, X.const(b)])
        if not dd.equal(r2, X.powi(a, b) if b else X.ONE): bad_cp.append(b)
    chk.ob('R20.4', 'cf_cipow(a, b) == a^b for every integer |b| < 100 (partial evaluation, 199 exponents)', not bad_ci, f'wrong for b in {bad_ci[:8]}', mc.where(f_ci), method='partial evaluation + GF(p^2) PIT')
    chk.ob('R20.4', 'cf_cpow(a, b+0i) == a^b for every integer |b| < 100 (partial evaluation, 199 exponents)', not bad_cp, f'wrong for b in {bad_cp[:8]}', mc.where(f_cp), method='partial evaluation + GF(p^2) PIT')
    L = X.fn('CLOG', a)
    for b in (-200, -100, 100, 150, 200):
        r = it2.call(mc, f_ci, [a, b])
        ok = r.op == 'fn' and r.val == 'CEXP' and dd.equal(r.args[0], L * b)
        chk.ob('R20.4', f'cf_cipow(a, {b}) == cexp({b} * clog(a))', ok, f'extracted {X.show(r)[:80]}', mc.where(f_ci), method='partial evaluation + GF(p^2) PIT')
    bz = X.atom('b', 'complex')
    bre = X.atom('b_re'); bim = X.atom('b_im', 'pos')
    r = it2.call(mc, f_cp, [a, bre + X.I * bim])
    ok = r.op == 'fn' and r.val == 'CEXP' and dd.equal(r.args[0], L * (bre + X.I * bim))
    chk.ob('R20.4', 'cf_cpow(a, b) == cexp(b * clog(a)) for non-integer / complex b', ok, f'extracted {X.show(r)[:80]}', mc.where(f_cp), method='partial evaluation + GF(p^2) PIT')
    for b in (F(5, 2), 100, -100, 250):
        r = it2.call(mc, f_cp, [a, X.const(b)])
        ok = r.op == 'fn' and r.val == 'CEXP' and dd.equal(r.args[0], L * X.const(b))
        chk.ob('R20.4', f'cf_cpow(a, {b}) takes the exp/log route', ok, f'extracted {X.show(r)[:80]}', mc.where(f_cp), method='partial evaluation')

    # ---------------------------------------------------------------- R20.5 legacy python sqrt
    mp = repo.by_path('TidalPy/utilities/math/special.py')
    fpy = need_func(mp, '_sqrt_neg_python')
    zr = X.atom('z_re'); zi = X.atom('z_im')
    z = zr + X.I * zi
    it3 = Interp(repo)
    # the complete sign partition of the complex plane: Re z and Im z each negative, zero or positive (9 regions incl. both axes and the origin).
    # On every region the masks (z_r > 0), (z_i != 0) ... are decided (zero by pinning the atom, sign by constraining the sample), so the
    # mask-sum collapses to one closed form which must be the principal root:  Re = sqrt((|z|+Re z)/2) >= 0,  Im = sgn(Im z) sqrt((|z|-Re z)/2)
    # with Im = +sqrt(-Re z) on the negative real axis (C99 csqrt(-x + 0i) = +i sqrt(x)).
    names = {-1: '< 0', 0: '== 0', 1: '> 0'}
    for sr in (-1, 0, 1):
        for si in (-1, 0, 1):
            lab = f'Re z {names[sr]}, Im z {names[si]}'
            pins = {}
            if sr == 0: pins['z_re'] = 0
            if si == 0: pins['z_im'] = 0
            zr_ = zr if sr else X.const(0); zi_ = zi if si else X.const(0)
            mod2 = zr_ * zr_ + zi_ * zi_
            q0 = X.sqrt(mod2)
            if si == 0:
                q0 = sr * zr_ if sr else X.const(0)             # |z| on the real axis
            elif sr == 0:
                q0 = si * zi_                                     # |z| on the imaginary axis
            pos = []
            if sr: pos.append(sr * zr)
            if si: pos.append(si * zi)
            if sr and si: pos += [mod2, (q0 + zr) / 2, (q0 - zr) / 2, (q0 + sr * zr) / 2]
            if sr == 0 and si: pos += [q0 / 2]
            dq = X.Decider(seed=chk.seed + 3 + 3 * sr + si, k=3, positive=pos, pins=pins)
            val = it3.call(mp, fpy, [z], {'is_real': False})
            chk.ob('R20.5', f'_sqrt_neg_python(z)^2 == z ({lab})', dq.equal(val * val, z), dq.describe(val * val, z), mp.where(fpy), key=f'R20.5|square|{sr}{si}', method='GF(p^2) PIT on a sign region')
            re_part = X.fn('real', val); im_part = X.fn('imag', val)
            want_re = X.sqrt((q0 + zr_) / 2) if (sr or si) else X.const(0)
            want_im = (si if si else 1) * X.sqrt((q0 - zr_) / 2) if (sr or si) else X.const(0)
            if si == 0 and sr > 0: want_re, want_im = X.sqrt(zr), X.const(0)
            if si == 0 and sr < 0: want_re, want_im = X.const(0), X.sqrt(-zr)
            chk.ob('R20.5', f'_sqrt_neg_python: Re = sqrt((|z|+Re z)/2), Im = sgn(Im z) sqrt((|z|-Re z)/2) ({lab})',
                   dq.equal(re_part, want_re) and dq.equal(im_part, want_im), f're: {dq.describe(re_part, want_re)}; im: {dq.describe(im_part, want_im)}', mp.where(fpy),
                   key=f'R20.5|principal|{sr}{si}', method='GF(p^2) PIT on a sign region')
    # is_real=True (the only mode the package itself uses): z on the real axis
    for sr in (-1, 0, 1):
        lab = f'is_real, z {names[sr]}'
        pins = {'z_im': 0}
        if sr == 0: pins['z_re'] = 0
        dq = X.Decider(seed=chk.seed + 17 + sr, k=3, positive=([sr * zr] if sr else []), pins=pins)
        val = it3.call(mp, fpy, [zr], {'is_real': True})
        want = X.sqrt(zr) if sr > 0 else (X.I * X.sqrt(-zr) if sr < 0 else X.const(0))
        chk.ob('R20.5', f'_sqrt_neg_python(x, is_real=True) == principal root ({lab})', dq.equal(val, want), dq.describe(val, want), mp.where(fpy), key=f'R20.5|is_real|{sr}', method='GF(p^2) PIT on a sign region')
    # R20.13 arrays: sqrt_neg is documented for arrays; element i of the result is the principal root of element i whatever the other elements are (a reduction over the
    # whole array -- np.any / np.all / max -- that selects the method makes one element's result depend on its neighbours).  Two-element arrays whose cells lie in
    # different regions of the plane; each cell against the scalar call on that cell.
    from ..core.interp import Vec
    cells = {'on the negative real axis': (dict(pins={'{}_im': 0}, pos=lambda re, im: [-re])), 'on the positive real axis': (dict(pins={'{}_im': 0}, pos=lambda re, im: [re])),
             'off the axes': dict(pins={}, pos=lambda re, im: []), 'at the origin': dict(pins={'{}_im': 0, '{}_re': 0}, pos=lambda re, im: []),
             'below the negative real axis': dict(pins={}, pos=lambda re, im: [-re, -im])}
    pairs = [('on the negative real axis', 'off the axes'), ('off the axes', 'on the negative real axis'), ('on the positive real axis', 'below the negative real axis'), ('at the origin', 'off the axes'),
             ('off the axes', 'off the axes'), ('below the negative real axis', 'on the positive real axis')]
    for ka, kb in pairs:
        ar, ai, br, bi = X.atom('za_re'), X.atom('za_im'), X.atom('zb_re'), X.atom('zb_im')
        pins = {k_.format('za'): v_ for k_, v_ in cells[ka]['pins'].items()}; pins.update({k_.format('zb'): v_ for k_, v_ in cells[kb]['pins'].items()})
        pos = cells[ka]['pos'](ar, ai) + cells[kb]['pos'](br, bi)
        dq = X.Decider(seed=chk.seed + 41, k=3, positive=pos, pins=pins)
        za_, zb_ = ar + X.I * ai, br + X.I * bi
        itv = Interp(repo); itv.array_mode = True
        bad = []
        try:
            out = itv.call(mp, fpy, [Vec([za_, zb_])], {'is_real': False})
        except AnalysisError as ex:
            raise AnalysisError(f'_sqrt_neg_python on a two-element array: {ex}')
        out = getattr(out, 'v', out)
        if not isinstance(out, (Vec, list)) or len(out) != 2:
            bad.append(f'the result is not a two-element array ({type(out).__name__})')
        else:
            for i_, (z_, nm_) in enumerate(((za_, ka), (zb_, kb))):
                sc = Interp(repo).call(mp, fpy, [z_], {'is_real': False})
                if not dq.equal(X.lift(out[i_]), X.lift(sc)):
                    bad.append(f'element {i_} ({nm_}) is not what the scalar call returns for it: {dq.describe(X.lift(out[i_]), X.lift(sc))}')
                # element-wise in floating point as well: the arithmetic of element i may use nothing of the other element (a scale taken from the whole array cancels over
                # the reals, but a small element divided by the largest one underflows).  Atoms met only inside comparisons (a reduction that selects between methods that
                # agree) do not count.
                other = ('zb_re', 'zb_im') if i_ == 0 else ('za_re', 'za_im')
                foreign = sorted(arith_support(X.lift(out[i_])) & set(other))
                if foreign:
                    if True:
                        bad.append(f'element {i_} is computed with {", ".join(foreign)} of the other element (a quantity taken over the whole array enters its arithmetic: a small element next to a large one loses its digits)')
        chk.ob('R20.13', f'_sqrt_neg_python([z_a, z_b]) with z_a {ka}, z_b {kb}: each element of the result is the scalar result for that element', not bad, '; '.join(bad), mp.where(fpy),
               key=f'R20.13|{ka}|{kb}', method='whole-array interpretation (element-wise numpy semantics, reductions forked and merged as masks) + GF(p^2) PIT on sign regions')
    chk.floor('R20.13', 6)
    # R20.14 the binding of sqrt_neg that is used when numba is switched off (the `else` arm of the module-level `if use_numba`): the same principal root.  numpy's
    # np.lib.scimath.sqrt is the principal square root (complex for negative reals); np.real_if_close(z, tol) drops the imaginary part when |Im z| < tol * eps (an ABSOLUTE
    # test); np.real / np.imag / np.abs are what they say.  The thresholds such helpers introduce are entered by threshold-directed sampling.
    fb = mp.defs.get('sqrt_neg')
    if isinstance(fb, ast.FunctionDef):
        def fb_call(itp, f, args, kwargs, e, fr):
            nm_ = str(getattr(f, 'name', '')) if not isinstance(f, FuncRef) else ''
            base_ = nm_.split('.')[-1]
            if base_ == 'sqrt' and ('scimath' in nm_ or 'emath' in nm_):
                return X.sqrt(X.lift(args[0]))
            if base_ == 'real_if_close':
                z_ = X.lift(args[0]); tol_ = kwargs.get('tol', args[1] if len(args) > 1 else 100)
                m_ = X.cmp('<', X.fn('abs', X.fn('imag', z_)), X.lift(tol_) * X.atom('float_eps', 'pos'))
                return m_ * X.fn('real', z_) + (1 - m_) * z_
            return NotImplemented
        for (lab, sr, si) in [('Re z > 0, Im z > 0', 1, 1), ('Re z < 0, Im z > 0', -1, 1), ('Re z < 0, Im z < 0', -1, -1), ('Re z > 0, Im z < 0', 1, -1)]:
            zr = X.atom('z_re'); zi = X.atom('z_im')
            dq = X.Decider(seed=chk.seed + 53, k=3, positive=[sr * zr, si * zi])
            try:
                val = Interp(repo, hooks={'call': fb_call}).call(mp, fb, [zr + X.I * zi], {})
            except AnalysisError as ex:
                raise AnalysisError(f'the non-numba binding of sqrt_neg: {ex}')
            val = X.lift(val)
            mod_ = X.sqrt(zr * zr + zi * zi)
            want_re = X.sqrt((mod_ + zr) / 2); want_im = si * X.sqrt((mod_ - zr) / 2)
            # (which of the two roots numpy's scimath.sqrt returns is numpy's contract -- the principal one; the field evaluation of a complex root is branch-agnostic, so what is
            #  decided here is that the value returned is a square root OF THE ARGUMENT on every arm of the tests the binding makes)
            ok = dq.equal(val * val, zr + X.I * zi)
            chk.ob('R20.14', f'sqrt_neg as bound without numba (np.lib.scimath.sqrt ...) squares to its argument ({lab})', ok, dq.describe(val * val, zr + X.I * zi), mp.where(fb), key=f'R20.14|{sr}{si}',
                   method='interpretation of the fallback binding (scimath.sqrt = principal root, real_if_close = its absolute-tolerance mask) + GF(p^2) PIT with threshold-directed sampling')
        chk.floor('R20.14', 4)
    # compiled main branch: t = sqrt((|z| + z_r)/2), result = (t, z_i/(2t)) for z_r >= 0 : same principal root
    finite_paths(chk, repo)
    chk.floor('R20.7', 2)
    constants(chk, repo)
    chk.floor('R20.8', 7)
    legacy_sqrt_ranges(chk, repo)
    chk.floor('R20.9', 2)
    from .common import precision_lint
    precision_lint(chk, repo, 'R20.11', ['TidalPy/utilities/math/*.pyx'], floor_funcs=3)
    legacy_double_factorials(chk, repo)
    exact_equality_predicates(chk, repo)
    chk.floor('R20.1', 50); chk.floor('R20.4', 10); chk.floor('R20.5', 21)

    from . import c20_annexg
    c20_annexg.run(chk, repo, mc)


def conj_rule(chk, mod, f):
    """every return of a complex value must have an imaginary component that is data-dependent on z.imag (or NaN)"""
    tainted = set()
    comp_taint = {}          # complex-valued local -> imag component tainted?
    # seeds
    for st in ast.walk(f):
        if isinstance(st, ast.Assign) and len(st.targets) == 1 and isinstance(st.targets[0], ast.Name):
            if ast.unparse(st.value).replace(' ', '') in ('z.imag',):
                tainted.add(st.targets[0].id)
    if not tainted:
        raise AnalysisError(f'{mod.where(f)}: no local holds z.imag')

    def mentions(e):
        return any(isinstance(n, ast.Name) and (n.id in tainted or comp_taint.get(n.id)) for n in ast.walk(e)) or 'z.imag' in ast.unparse(e).replace(' ', '')

    def imag_tainted(e):
        if isinstance(e, ast.Call) and isinstance(e.func, ast.Name) and e.func.id == 'cf_build_dblcmplx' and len(e.args) == 2:
            im = e.args[1]
            if 'NAN' in ast.unparse(im): return True
            return mentions(im)
        if isinstance(e, ast.Name):
            if e.id == 'z': return True
            return bool(comp_taint.get(e.id))
        if isinstance(e, ast.Call):
            return any(mentions(a) for a in e.args)      # helper called with z_imag (odd in it by its own contract)
        return mentions(e)
    changed = True
    while changed:
        changed = False
        for st in ast.walk(f):
            if isinstance(st, (ast.Assign, ast.AugAssign)):
                tg = st.targets[0] if isinstance(st, ast.Assign) else st.target
                if isinstance(tg, ast.Name):
                    if isinstance(st.value, ast.Call) and isinstance(st.value.func, ast.Name) and st.value.func.id == 'cf_build_dblcmplx':
                        v = imag_tainted(st.value)
                        if v and not comp_taint.get(tg.id):
                            comp_taint[tg.id] = True; changed = True
                    elif mentions(st.value) and tg.id not in tainted and tg.id not in ('z_real',):
                        if isinstance(st.value, ast.Call) or True:
                            tainted.add(tg.id); changed = True
    n = 0
    for st in ast.walk(f):
        if isinstance(st, ast.Return) and st.value is not None:
            n += 1
            ok = imag_tainted(st.value)
            txt = ast.unparse(st.value)
            chk.ob('R20.3', f'{f.name}: return {txt[:50]} — imaginary part depends on Im z (or is NaN)', ok,
                   'imaginary component is a constant / independent of Im z: f(conj z) = conj f(z) fails for signed zero or negative Im z on this path',
                   mod.where(st), key=f'R20.3|{f.name}|return {txt}', method='def-use taint of the imaginary component')
    if n == 0:
        raise AnalysisError(f'{f.name}: no return statements found')


# ------------------------------------------------------------------------------------------------ R20.7 finite arguments: path-wise algebraic identities
def finite_paths(chk, repo):
    """For finite arguments the helpers are straight-line formulas selected by comparisons.  Every path through the data-dependent branches of cf_hypot and
    cf_csqrt is enumerated; on each arm of non-empty interior the returned expression must satisfy the defining identity (hypot^2 == x^2 + y^2;
    csqrt(z)^2 == z) as an algebraic identity in the real numbers (rounding is not modelled), at sample points drawn inside the arm.  isinf / isnan / signbit
    tests are taken as false (finite arguments; the special values are R20.2's business)."""
    from ..core.interp import PathExplorer
    mc = repo.by_path('TidalPy/utilities/math/complex.pyx')

    def branch(itp, st, v, fr):
        return (v.name == 'isfinite') if isinstance(v, Opaque) else None       # finite arguments: isfinite holds, isinf / isnan / signbit-of-inf tests do not

    def glob(itp, mod, nm):
        if nm in ('THRESH', 'DBL_MAX_4', 'DBL_MAX', 'DBL_MIN', 'SCALED_CEXP_LOWER', 'SCALED_CEXP_UPPER'):
            return X.atom(nm, 'pos')
        if nm == 'LOGE2':
            return X.fn('log', X.const(2))         # the literal itself is checked against ln 2 below
        if nm in ('DBL_MANT_DIG', 'DBL_MANT_DIG_INT'):
            return 53
        if nm == 'log1p':
            from ..core.interp import Builtin
            return Builtin('log1p')
        return None
    x = X.atom('x'); y = X.atom('y')

    def explore(f, args):
        it = Interp(repo, hooks={'branch': branch, 'global': glob})

        def one(fork):
            it.hooks['fork'] = fork
            try:
                return it.call(mc, f, args)
            finally:
                it.hooks.pop('fork', None)
        return PathExplorer(max_paths=256).run(one)

    def region(trace):
        """positivity constraints of the arm, or None for an arm of measure zero / a contradictory arm"""
        pos = []
        for (cv, _w, _t, out) in trace:
            kind, pins = PathExplorer.arm(cv, out)
            if kind == 'equality':
                return None
            if isinstance(cv, X.Node) and cv.op == 'cmp':
                a, b = cv.args
                if cv.val in ('>', '>='): pos.append((a - b) if out else (b - a))
                elif cv.val in ('<', '<='): pos.append((b - a) if out else (a - b))
                elif cv.val in ('==', '!='):
                    if (cv.val == '==') == bool(out): return None
        return pos

    def sqrt_args(node):
        out = []; seen = set(); stack = [node]
        while stack:
            n = stack.pop()
            if n.uid in seen: continue
            seen.add(n.uid)
            if n.op == 'fn' and n.val == 'sqrt': out.append(n.args[0])
            stack.extend(n.args)
        return out
    zz = x + X.I * y
    cases = [('cf_hypot', [x, y], lambda v: (v * v, x * x + y * y), 'cf_hypot(x, y)^2 == x^2 + y^2'),
             ('cf_csqrt', [zz], lambda v: (v * v, zz), 'cf_csqrt(z)^2 == z'),
             ('cf_cexp', [zz], lambda v: (v, X.fn('exp', zz)), 'cf_cexp(z) == e^x (cos y + i sin y)'),
             ('cf_clog', [zz], lambda v: (X.fn('exp', v), zz), 'exp(cf_clog(z)) == z (real part log|z|, imaginary part the argument)')]
    for fname, args, ident, label in cases:
        f = need_func(mc, fname)
        res = explore(f, args)
        n_open = 0; n_skipped = 0; n_empty = 0
        bad = {}
        for trace, val in res:
            if isinstance(val, Opaque) or val is None:
                n_skipped += 1; continue
            pos = region(trace)
            if pos is None:
                n_skipped += 1; continue
            val = X.lift(val)
            try:
                d = X.Decider(seed=chk.seed + 51, k=2, positive=pos + sqrt_args(val))
            except AnalysisError:
                n_empty += 1; continue            # no sample point satisfies the arm's inequalities together: contradictory arm
            n_open += 1
            got, ref = ident(val)
            try:
                ok = d.equal(got, ref)
            except AnalysisError:
                n_empty += 1; n_open -= 1; continue
            if not ok:
                # key by the last statements that distinguish the arm (not by every comparison) so that equivalent arms collapse
                conds = [f'{"" if o else "not "}({t})' for (_c, _w, t, o) in trace if any(k_ in t for k_ in ('THRESH', 'z_real >= 0', 'z_real > 0', 'DBL_MAX_4', 'DBL_MIN', 'SCALED_CEXP', '0.71', '1.73'))]
                bad.setdefault(' and '.join(conds) or 'main path', (PathExplorer.label(trace), d.describe(got, ref), trace[-1][1] if trace else mc.where(f)))
        chk.note_analysed('finite-argument paths', f'{fname}: {len(res)} paths, {n_open} open arms examined, {n_skipped} special-value / measure-zero arms skipped, {n_empty} contradictory arms')
        if n_open < 2:
            raise AnalysisError(f'{fname}: only {n_open} open arms could be examined')
        if not bad:
            chk.ob('R20.7', f'{label} on every open arm of its finite-argument branches ({n_open} arms)', True, '', mc.where(f), key=f'R20.7|{fname}', method='path enumeration + GF(p^2) PIT inside each arm')
        for key, (lab, desc, where) in bad.items():
            chk.ob('R20.7', f'{label} on the arm [{key}]', False, f'identity fails ({desc}); e.g.{lab[:200]}', mc.where(f), key=f'R20.7|{fname}|{key}', method='path enumeration + GF(p^2) PIT inside each arm')


def constants(chk, repo):
    """module-level constants of complex.pyx that the finite-argument identities take for granted: LOGE2 is ln 2 and SQRT2 is sqrt 2 to double precision (the
    identities above model them as log(2) and sqrt(2)), and the derived constants are built from them as the reference implementation (FreeBSD msun / numpy) does"""
    from fractions import Fraction
    from sympy import log as slog, sqrt as ssqrt, Rational, N as sN
    mc = repo.by_path('TidalPy/utilities/math/complex.pyx')
    lits = {}
    for st in mc.tree.body:
        if isinstance(st, ast.Assign) and len(st.targets) == 1 and isinstance(st.targets[0], ast.Name):
            lits[st.targets[0].id] = st.value
    for nm, exact in (('LOGE2', slog(2)), ('SQRT2', ssqrt(2))):
        v = lits.get(nm)
        if not (isinstance(v, ast.Constant) and isinstance(v.value, float)):
            raise AnalysisError(f'complex.pyx: constant {nm} is not a float literal')
        want = float(sN(exact, 40))
        chk.ob('R20.8', f'{nm} literal is the double nearest to {exact}', v.value == want, f'literal {v.value!r}, exact {want!r}', mc.where(v), key=f'R20.8|{nm}', method='exact comparison with a 40-digit value')
    expect = {'SQRT2_INV': '1.0/(1.0+SQRT2)', 'THRESH': 'SQRT2_INV*DBL_MAX', 'DBL_MAX_4': '0.25*DBL_MAX', 'SCALED_K_LOGE2_D': 'SCALED_CEXP_K_D*LOGE2'}
    it = Interp(repo, hooks={'global': lambda itp, mod, nm: X.atom(nm, 'pos') if nm in ('DBL_MAX', 'SQRT2', 'LOGE2', 'SCALED_CEXP_K_D') else None})
    from ..core.interp import Frame
    d = X.Decider(seed=chk.seed + 61, k=2)
    for nm, txt in expect.items():
        v = lits.get(nm)
        if v is None:
            raise AnalysisError(f'complex.pyx: constant {nm} vanished')
        fr = Frame(mc, '<module>')
        defs = {k_: lits[k_] for k_ in ('SQRT2_INV',) if k_ in lits}
        fr.vars['SQRT2_INV'] = it.eval(lits['SQRT2_INV'], Frame(mc, '<module>')) if 'SQRT2_INV' in lits else None
        got = it.eval(v, fr)
        ref = it.eval(ast.parse(txt, mode='eval').body, fr)
        chk.ob('R20.8', f'{nm} == {txt}', d.equal(X.lift(got), X.lift(ref)), f'defined as {ast.unparse(v)}', mc.where(v), key=f'R20.8|{nm}', method='GF(p^2) PIT')
    kd = lits.get('SCALED_CEXP_K_D')
    chk.ob('R20.8', 'SCALED_CEXP_K_D == 1799 (the double-precision scaling exponent of the reference implementation)', isinstance(kd, ast.Constant) and kd.value == 1799, f'{ast.unparse(kd) if kd is not None else None}',
           mc.where(kd) if kd is not None else mc.rel(), key='R20.8|SCALED_CEXP_K_D', method='AST')


# ------------------------------------------------------------------------------------------------ R20.12 equality predicates test exact quantities
def exact_equality_predicates(chk, repo):
    """In floating point `a == b` between *computed* quantities holds on a set of non-zero measure (|z| == |Re z| as soon as Im z is absorbed by the rounding of the sum), whereas
    the real-number identities the other rules decide cannot tell it from `Im z == 0`.  In the interpreted math helpers every `==` / `!=` must therefore compare quantities that
    are exact functions of the arguments: an argument, its real / imaginary part, absolute value, sign, negation or conjugate, a constant -- never the result of an addition,
    multiplication, division, power or root."""
    EXACT_CALLS = ('real', 'imag', 'abs', 'absolute', 'fabs', 'conj', 'conjugate', 'sign', 'negative', 'float', 'complex', 'asarray', 'isnan', 'isinf', 'isfinite', 'signbit', 'copysign')
    nfun = 0
    for path in ('TidalPy/utilities/math/special.py',):
        mod = repo.by_path(path)
        for f in [n_ for n_ in ast.walk(mod.tree) if isinstance(n_, ast.FunctionDef)]:
            nfun += 1
            params = {a_.arg for a_ in f.args.args + f.args.kwonlyargs}
            assigns = {}
            for st in ast.walk(f):
                if isinstance(st, ast.Assign):
                    for t_ in st.targets:
                        if isinstance(t_, ast.Name): assigns.setdefault(t_.id, []).append(st.value)
                elif isinstance(st, ast.AugAssign) and isinstance(st.target, ast.Name):
                    assigns.setdefault(st.target.id, []).append(ast.BinOp(left=st.target, op=st.op, right=st.value))

            def exact(e, depth=0):
                if depth > 12: return False
                if isinstance(e, ast.Constant): return True
                if isinstance(e, ast.Name):
                    if e.id in assigns: return all(exact(v_, depth + 1) for v_ in assigns[e.id])
                    return True              # a parameter or a module constant
                if isinstance(e, ast.UnaryOp) and isinstance(e.op, (ast.USub, ast.UAdd)): return exact(e.operand, depth + 1)
                if isinstance(e, ast.Attribute) and e.attr in ('real', 'imag'): return exact(e.value, depth + 1)
                if isinstance(e, ast.Call):
                    nm = ast.unparse(e.func).split('.')[-1]
                    return nm in EXACT_CALLS and all(exact(a_, depth + 1) for a_ in e.args)
                return False
            bad = []
            for c in [n_ for n_ in ast.walk(f) if isinstance(n_, ast.Compare)]:
                sides = [c.left] + list(c.comparators)
                for op_, l_, r_ in zip(c.ops, sides, sides[1:]):
                    if isinstance(op_, (ast.Eq, ast.NotEq)) and not (exact(l_) and exact(r_)):
                        bad.append(f'line {c.lineno}: `{ast.unparse(c)[:60]}` compares a rounded intermediate')
            chk.ob('R20.12', f'{path}:{f.name}: every == / != compares exact functions of the arguments (no rounded intermediate)', not bad, '; '.join(bad[:3]), mod.where(f),
                   key=f'R20.12|{path}|{f.name}', method='exactness analysis of the operands of equality predicates (def-use over the function body)')
    if nfun < 2:
        raise AnalysisError('exactness lint: special.py holds fewer than two functions')


# ------------------------------------------------------------------------------------------------ R20.10 the interpreted (2l+1)!! table of the legacy starting conditions
def legacy_double_factorials(chk, repo):
    """`l2p1_double_factorials` (TidalPy/radial_solver/numerical/initial/functions.py) is the interpreted counterpart of double_factorial(2l + 1): the module-level statements that
    build it are executed by the interpreter (Gamma at integers is a factorial; numpy integer arrays are int64 and wrap as numpy does) and every entry must be the exact integer
    (2l + 1)!!, which is what R20.1 decides the compiled table holds."""
    mod = repo.by_path('TidalPy/radial_solver/numerical/initial/functions.py')
    it = Interp(repo)
    try:
        tab = it.global_name(mod, 'l2p1_double_factorials')
    except AnalysisError as ex:
        raise AnalysisError(f'l2p1_double_factorials cannot be evaluated: {ex}')
    if not isinstance(tab, (tuple, list)) or len(tab) < 11:
        raise AnalysisError('l2p1_double_factorials is not a table of at least 11 entries (degrees 2..10 need indices up to 10)')
    from math import factorial

    def exact(node):
        def h(n):
            if n.op == 'fn' and n.val == 'gamma':
                c = concrete(n.args[0])
                if c is not None and Fraction(c).denominator == 1 and c >= 1:
                    return X.const(factorial(int(c) - 1))
            return None
        return concrete(X.rewrite(X.lift(node), h))
    from fractions import Fraction
    bad = []
    for l, v in enumerate(tab):
        want = dfact(2 * l + 1)
        got = exact(v) if not isinstance(v, (int, Fraction)) else v
        if got is None or Fraction(got) != want:
            bad.append(f'entry {l}: {float(got) if got is not None else "not a number"!r} instead of (2*{l}+1)!! = {want}')
    chk.ob('R20.10', f'legacy l2p1_double_factorials: all {len(tab)} entries are the exact (2l + 1)!! (the value the compiled double_factorial(2l + 1) holds)', not bad, '; '.join(bad[:3]), mod.rel(),
           key='R20.10|l2p1_double_factorials', method='module-level statements interpreted (Gamma at integers exact, int64 wrap-around modelled) + exact integer oracle')
    # who reads the table indexes it with the degree (or degree + 1): the table must reach the largest degree the reader accepts
    f = mod.defs.get('takeuchi_phi_psi_general')
    if isinstance(f, ast.FunctionDef):
        idx = [ast.unparse(n_.slice) for n_ in ast.walk(f) if isinstance(n_, ast.Subscript) and isinstance(n_.value, ast.Name) and n_.value.id == 'l2p1_double_factorials']
        chk.note_analysed('readers', f'takeuchi_phi_psi_general reads l2p1_double_factorials[{", ".join(sorted(set(idx)))}]')


# ------------------------------------------------------------------------------------------------ R20.9 exponent ranges of intermediates
def exponent_hazards(node, env):
    """Abstract interpretation of an extracted expression in the domain of binary exponents: every sub-expression gets an interval [lo, hi] of log2|value| over the inputs' ranges
    (`env`: atom name -> (lo, hi) for non-zero values).  Returned: the products / powers / sums whose interval leaves the range of finite doubles -- an intermediate that
    overflows (or is flushed to zero) although the inputs, and the mathematical result, are representable."""
    import math
    MAXE, MINE = 1024.0, -1074.0
    memo = {}
    hazards = []

    def rng(n):
        r = memo.get(n.uid)
        if r is not None or n.uid in memo: return r
        r = None
        if n.op == 'const':
            v = n.val
            try:
                a_ = abs(complex(v)) if isinstance(v, complex) else abs(float(v))
            except Exception:
                a_ = None
            r = None if not a_ else (math.log2(a_), math.log2(a_))
        elif n.op == 'atom':
            r = env.get(n.val[0])
        elif n.op == 'I':
            r = (0.0, 0.0)
        elif n.op == 'mul':
            parts = [rng(a) for a in n.args]
            if all(p is not None for p in parts):
                r = (sum(p[0] for p in parts), sum(p[1] for p in parts))
        elif n.op == 'div':
            a, b = rng(n.args[0]), rng(n.args[1])
            if a is not None and b is not None: r = (a[0] - b[1], a[1] - b[0])
        elif n.op == 'powi':
            a = rng(n.args[0])
            if a is not None:
                k = n.val
                r = (min(k * a[0], k * a[1]), max(k * a[0], k * a[1]))
        elif n.op == 'add':
            parts = [rng(a) for a in n.args]
            known = [p for p in parts if p is not None]
            if known and len(known) == len(parts):
                r = (-math.inf, max(p[1] for p in known) + math.log2(len(known)))      # terms may cancel: no lower bound
        elif n.op == 'fn':
            a = rng(n.args[0]) if n.args else None
            if n.val == 'sqrt' and a is not None: r = (a[0] / 2 if a[0] != -math.inf else -math.inf, a[1] / 2)
            elif n.val in ('abs', 'real', 'imag', 'conj') and a is not None: r = (-math.inf if n.val in ('real', 'imag') else a[0], a[1])
            elif n.val == 'abs2' and a is not None: r = (2 * a[0], 2 * a[1])
            elif n.val == 'sign': r = (0.0, 0.0)
        elif n.op == 'cmp':
            for a in n.args: rng(a)
            r = (0.0, 0.0)
        # (sums are not reported: x + y overflows only within one binade of the largest double, which is the rounding question this rule leaves alone)
        if r is not None and (n.op in ('mul', 'powi') or (n.op == 'fn' and n.val == 'abs2')) and not any(a.op == 'I' for a in n.args):
            over = r[1] > MAXE
            under = r[0] < MINE
            if over or under:
                hazards.append((n, r, 'overflows' if over else 'is flushed to zero', 'above 2^1024' if over else 'below 2^-1074'))
                r = (max(r[0], MINE), min(r[1], MAXE))        # report the first place only: clamp and go on
        memo[n.uid] = r
        return r
    rng(node)
    # innermost first, one entry per distinct sub-expression text
    out = []; seen = set()
    for n, r, what, where in hazards:
        t = X.show(n)[:60]
        if t not in seen:
            seen.add(t); out.append((t, what, where))
    return out


def arith_support(n):
    """names of the atoms an expression computes with: every atom reachable without passing through a comparison"""
    out = set(); seen = set(); stack = [n]
    while stack:
        x = stack.pop()
        if x.uid in seen: continue
        seen.add(x.uid)
        if x.op == 'cmp': continue
        if x.op == 'atom': out.add(x.val[0])
        stack.extend(x.args)
    return out


def legacy_sqrt_ranges(chk, repo):
    """the interpreted square root on the whole range of finite doubles: |Re z|, |Im z| anywhere between the smallest subnormal and the largest finite double.  Every finite z has a
    representable root (|sqrt z| <= 1.4e154), so an intermediate that overflows or is flushed to zero loses a result that exists."""
    mp = repo.by_path('TidalPy/utilities/math/special.py')
    fpy = need_func(mp, '_sqrt_neg_python')
    full = (-1074.0, 1023.999)
    for is_real, lab in ((True, 'is_real=True (real argument)'), (False, 'is_real=False (complex argument)')):
        zr = X.atom('z_re'); zi = X.atom('z_im')
        z = zr if is_real else zr + X.I * zi
        val = Interp(repo).call(mp, fpy, [z], {'is_real': is_real})
        hz = exponent_hazards(X.lift(val), {'z_re': full, 'z_im': full})
        chk.ob('R20.9', f'_sqrt_neg_python, {lab}: no intermediate overflows or is flushed to zero for finite non-zero arguments (the root of every finite double is representable)', not hz,
               '; '.join(f'`{t}` {what} ({where}) for arguments at the ends of the exponent range' for t, what, where in hz[:2]), mp.where(fpy),
               key=f'R20.9|_sqrt_neg_python|{"real" if is_real else "complex"}', method='interval analysis of binary exponents over the extracted expression')
