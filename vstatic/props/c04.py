"""C04 — results do not depend on where in a uniform core integration starts: starting vectors vs the solver's own ODEs."""
from __future__ import annotations
import ast
from fractions import Fraction as F
from math import factorial
from ..core import expr as X
from ..core.interp import Interp, Arr, FuncRef, Ref, Opaque, RaiseSignal
from ..core.report import AnalysisError
from ..frontend.pyfront import Repo
from ..oracles import ts72
from .common import need_func, make_eq
from . import solver_model as SM

LEVEL = 'other'
TECHNIQUE = 'abstract interpretation of every starting-condition function into symbolic solution matrices Y(r) (Bessel-ratio and Takeuchi functions as function atoms with their differential rules); span flow-invariance rank[Y | A Y - dY/dr] = rank Y under the solver\'s own coefficient matrix A (exact rank over GF(p^2) at random points); series tables against Riccati/Bessel series with symbolic degree; slot-discipline and driver-dispatch rules; arguments the executed driver hands to the starting-condition routine (recorded in the whole-function symbolic execution, dimensional and non-dimensionalised)'
LEVEL_TEXT = ('The property\'s own reformulation ("the starting vectors at two radii are related by the solver\'s differential equations") is decided as an algebraic identity for all radii, '
              'material values, frequencies and degrees at once, for each of the 9 starting functions; plus the truncated series used inside them and the dispatcher that selects them.')
LEVEL_NOTE = ('Trusted: Cython-subset front-end, interpreter, symbolic differentiation, the recurrences of spherical Bessel functions used as differential rules, exact linear algebra in GF(p^2) '
              '(rank at K random points; a rank deficiency is missed with probability < 1e-15). Not decided: the numerical independence of the integrated result from r0 (needs the integration).')
EXPLANATION = ('R04.1 span flow-invariance per starting function; R04.2 Taylor branch of z and the phi/psi series == Bessel series through the order written; '
               'R04.3 every stored component reads only components of its own solution; R04.4 driver dispatch and argument binding; R04.8 the solver hands the starting-condition driver the flags and material values of the innermost slice, the frequency / degree / G of the solve and the requested family.')

# (function name, module file, kind, static, incompressible, number of solutions, parameter list)
FUNCS = [
    ('cf_kamata_solid_dynamic_compressible', 'kamata', 'solid', False, False, 3, ('w', 'r', 'rho', 'K', 'mu', 'l', 'G')),
    ('cf_kamata_solid_static_compressible', 'kamata', 'solid', True, False, 3, ('r', 'rho', 'K', 'mu', 'l', 'G')),
    ('cf_kamata_solid_dynamic_incompressible', 'kamata', 'solid', False, True, 3, ('w', 'r', 'rho', 'mu', 'l', 'G')),
    ('cf_kamata_liquid_dynamic_compressible', 'kamata', 'liquid', False, False, 2, ('w', 'r', 'rho', 'K', 'l', 'G')),
    ('cf_kamata_liquid_dynamic_incompressible', 'kamata', 'liquid', False, True, 2, ('w', 'r', 'rho', 'l', 'G')),
    ('cf_takeuchi_solid_dynamic_compressible', 'takeuchi', 'solid', False, False, 3, ('w', 'r', 'rho', 'K', 'mu', 'l', 'G')),
    ('cf_takeuchi_solid_static_compressible', 'takeuchi', 'solid', True, False, 3, ('r', 'rho', 'K', 'mu', 'l', 'G')),
    ('cf_takeuchi_liquid_dynamic_compressible', 'takeuchi', 'liquid', False, False, 2, ('w', 'r', 'rho', 'K', 'l', 'G')),
    ('cf_saito_liquid_static_inccompressible', 'saito', 'liquid', True, True, 1, ('r', 'l')),
]


def install_rules(lnode):
    def z_rule(n, d):
        u = n.args[0]; l = n.args[1]
        return (X.const(F(1, 2)) + (n * n - (2 * l + 1) * n) / (2 * u)) * d(u)

    def phi0_rule(n, d):
        u, l = n.args
        return -X.fn('phi1', u, l) / (2 * (2 * l + 3)) * d(u)

    def phi1_rule(n, d):
        u, l = n.args
        return -((2 * l + 3) / (2 * u)) * (n - X.fn('phi0', u, l)) * d(u)
    X.DIFF_RULES['zfun'] = z_rule; X.DIFF_RULES['phi0'] = phi0_rule; X.DIFF_RULES['phi1'] = phi1_rule


def make_interp(repo, reads_log=None):
    def call_hook(itp, f, args, kwargs, e, fr):
        if isinstance(f, FuncRef):
            nm = f.node.name
            if nm == 'cf_csqrt':
                return X.sqrt(X.lift(args[0]))
            if nm == 'cf_z_calc':
                l = kwargs.get('degree_l', args[1] if len(args) > 1 else None)
                return X.fn('zfun', X.lift(args[0]), X.lift(l))
            if nm == 'cf_takeuchi_phi_psi':
                u, l = X.lift(args[0]), X.lift(args[1])
                phi0 = X.fn('phi0', u, l); phi1 = X.fn('phi1', u, l)
                psi = 2 * (2 * l + 3) / u * (1 - phi0)
                for ref, v in zip(args[2:5], (phi0, phi1, psi)):
                    if not isinstance(ref, Ref):
                        raise AnalysisError('cf_takeuchi_phi_psi: output arguments are not addresses of locals')
                    ref.frame.vars[ref.name] = v
                return None
        return NotImplemented
    return Interp(repo, hooks={'call': call_hook})


TECHNIQUE += '; builder dispatch (cf_build_solver) by partial evaluation: the class constructed for an assumption set is the one its starting vectors were paired with'

EXPLANATION += ' R04.9 cf_build_solver constructs, for every (layer kind, static, incompressible), the equation class R04.1 pairs the starting vectors of that assumption set with.'
EXPLANATION += ' R04.1 second pass: where a starting function is recorded as reading another solution\'s slot (known finding), the reads are redirected to the own slot and the rest of the function must then be flow-invariant, so a second defect in the same function is still reported.'

def run(chk):
    repo = Repo(chk.repo)
    starting_vectors(chk, repo)
    rest(chk, repo)
    # ---- R04.9: R04.1 pairs every starting function with the equation class of ITS assumption set.  That is the pairing the solver makes only if cf_build_solver
    #      constructs that class for that assumption set (C01's dispatch rule, taken under C04: starting vectors of one set integrated with the equations of another
    #      are no solutions of what is integrated, and the result drifts with the starting radius).
    from . import c01
    from .common import RuleAlias
    mo = repo.by_path('TidalPy/RadialSolver/derivatives/odes.pyx')
    al = RuleAlias(chk, 'R04.9', lambda rule, inst: rule == 'R01.3' and inst.startswith('cf_build_solver('))
    c01.dispatch(al, repo, mo, {k_: (None, ts72.LAYOUT[(k_[0], k_[1])], None, c_) for k_, c_ in SM.CLASSES.items()})
    chk.floor('R04.9', 8)


def starting_vectors(chk, repo):
    mo = repo.by_path('TidalPy/RadialSolver/derivatives/odes.pyx')
    pi = X.atom('pi', 'pos'); G = X.atom('G', 'pos')
    lsym = X.atom('l', 'pos')
    K_pts = 2 if chk.tier == 'quick' else 5
    results = {}
    for lval in ([lsym, 2] if chk.tier == 'quick' else [lsym, 2, 3, 5]):
        lnode = X.lift(lval)
        install_rules(lnode)
        atoms = {'w': X.atom('w', 'pos'), 'r': X.atom('r', 'pos'), 'rho': X.atom('rho', 'pos'), 'K': X.atom('K', 'pos'), 'mu': X.atom('mu', 'complex'), 'l': lval, 'G': G}
        P = SM.params()
        P['l'] = lnode; P['fpG'] = 4 * pi * G
        gam = 4 * pi * G * atoms['rho'] / 3
        for (fname, file_, kind, static, incomp, nsol, plist) in FUNCS:
            m = repo.by_path(f'TidalPy/RadialSolver/starting/{file_}.pyx')
            f = need_func(m, fname)
            it = make_interp(repo)
            out = Arr('start')
            NYS = 6
            args = [atoms[p] for p in plist] + [NYS, out]
            # slot discipline: log reads of the output array per store
            viol = []
            out.reads.clear()
            last_len = [0]

            def post(itp, st, fr, out=out, viol=viol, last_len=last_len):
                if isinstance(st, ast.Assign) and isinstance(st.targets[0], ast.Subscript) and fr.fname == fname:
                    if out.writes and out.writes[-1][2] is st:
                        key = out.writes[-1][0]
                        sol = key // NYS
                        for rk in out.reads[last_len[0]:]:
                            if rk // NYS != sol:
                                viol.append((st.lineno, key, rk))
                    last_len[0] = len(out.reads)
            it.hooks['post_stmt'] = post
            it.call(m, f, args)
            names = ts72.LAYOUT[(kind, static)]
            nys = len(names)
            lab = f'{fname} (l {"symbolic" if lval is lsym else "= " + str(lval)})'
            where = m.where(f)
            # R04.3
            if lval is lsym:
                chk.ob('R04.3', f'{fname}: every stored component reads only components of its own solution', not viol,
                       '; '.join(f'line {ln}: slot [{k // NYS}][{k % NYS}] is built from slot [{r // NYS}][{r % NYS}]' for ln, k, r in viol[:4]), where,
                       key=f'R04.3|{fname}', method='read/write log of the abstract interpreter')
                written = sorted(out.store)
                expect = sorted(s * NYS + i for s in range(nsol) for i in range(nys))
                chk.ob('R04.3', f'{fname}: writes exactly the {nsol} x {nys} block (stride {NYS})', written == expect, f'writes {written}', where, method='store map')
            try:
                Y = [[out.store[s * NYS + i] for s in range(nsol)] for i in range(nys)]
            except KeyError as ex:
                chk.ob('R04.1', f'{lab}: span flow-invariance', False, f'slot {ex} never written', where, key=f'R04.1|{fname}'); continue
            def span_test(Y, sfx='', ksfx=''):
                # solver's own matrix for every assumption set this starting function is paired with (the static-liquid start serves the compressible and the incompressible class)
                pairings = [incomp] if not (kind == 'liquid' and static) else [True, False]
                for incomp_c in pairings:
                    cname = SM.CLASSES[(kind, static, incomp_c)]
                    Pm = dict(P); Pm['r'] = atoms['r']; Pm['rho'] = atoms['rho']; Pm['K'] = atoms['K']; Pm['mu'] = atoms['mu']; Pm['w'] = atoms['w']
                    Pm['g'] = gam * atoms['r']
                    dy, yv, _ = SM.extract_rhs(repo, mo, cname, Pm, nys)
                    A = SM.matrix_from(dy, nys)
                    Mx = []
                    for i in range(nys):
                        row = []
                        for s in range(nsol):
                            acc = X.ZERO
                            for j in range(nys):
                                acc = acc + A[i][j] * Y[j][s]
                            row.append(acc - X.diff(Y[i][s], 'r'))
                        Mx.append(row)
                    d = X.Decider(seed=chk.seed + 17, k=K_pts)
                    ok = True; detail = ''
                    n_eval = 0
                    extra_pts = []
                    for pt in list(d.points) + extra_pts:
                        try:
                            Yv = [[pt.ev(Y[i][s]) for s in range(nsol)] for i in range(nys)]
                            Mv = [[pt.ev(Mx[i][s]) for s in range(nsol)] for i in range(nys)]
                        except X.Resample:
                            continue
                        n_eval += 1
                        rY = X.rank_gf(Yv)
                        rYM = X.rank_gf([Yv[i] + Mv[i] for i in range(nys)])
                        if rY != nsol:
                            ok = False; detail = f'the {nsol} starting vectors are linearly dependent (rank {rY})'; break
                        if rYM != rY:
                            # which solution leaves the span?
                            offenders = []
                            for s in range(nsol):
                                if X.rank_gf([Yv[i] + [Mv[i][s]] for i in range(nys)]) != rY:
                                    offenders.append(s)
                            res = max(d.residual(Mx[i][s])[0] for i in range(nys) for s in offenders) if offenders else 0
                            detail = (f'rank[Y | A Y - dY/dr] = {rYM} > rank Y = {rY}: A*Y_s - dY_s/dr leaves the span of the starting vectors for solution slot(s) {offenders} '
                                      f'(float residual up to {res:.3g}); the vectors at r and r+dr are not related by {cname}')
                            ok = False; break
                    if n_eval == 0:
                        # every sample point hit a pole / a non-residue under a square root: try further points before giving up (never pass on zero evaluations)
                        for extra_seed in range(1, 40):
                            d2 = X.Decider(seed=chk.seed + 17 + 101 * extra_seed, k=K_pts)
                            for pt in d2.points:
                                try:
                                    Yv = [[pt.ev(Y[i][s]) for s in range(nsol)] for i in range(nys)]
                                    Mv = [[pt.ev(Mx[i][s]) for s in range(nsol)] for i in range(nys)]
                                except X.Resample:
                                    continue
                                n_eval += 1
                                rY = X.rank_gf(Yv); rYM = X.rank_gf([Yv[i] + Mv[i] for i in range(nys)])
                                if rY != nsol:
                                    ok = False; detail = f'the {nsol} starting vectors are linearly dependent (rank {rY})'; break
                                if rYM != rY:
                                    ok = False; detail = f'rank[Y | A Y - dY/dr] = {rYM} > rank Y = {rY}: the vectors at r and r+dr are not related by {cname}'; break
                            if n_eval >= K_pts or not ok: break
                        if n_eval == 0:
                            raise AnalysisError(f'{lab}: no sample point could be evaluated (all hit poles / non-residues)')
                    chk.ob('R04.1', f'{lab}{sfx}: span of the starting vectors is invariant under {cname} (rank[Y | A Y - Y\'] = rank Y)', ok, detail, where,
                           key=f'R04.1{ksfx}|{fname}' + ('' if incomp_c == incomp else f'|{cname}'), method=f'exact rank over GF(p^2) at {len(d.points)} points')
            span_test(Y)
            if viol and lval is lsym:
                # a function with a recorded cross-solution read is judged a second time with every such read redirected to the solution's own slot (the recorded mix-up
                # undone): whatever ELSE is wrong in it is then not hidden behind the recorded finding
                sol_of_line = {}
                for k_, _v, st_ in out.writes:
                    if st_ is not None and isinstance(k_, int): sol_of_line[st_.lineno] = k_ // NYS

                class OwnSlot(Arr):
                    cur = None
                    def get(self, idx):
                        k_ = self._key(idx)
                        if self.cur is not None and isinstance(k_, int) and k_ // NYS != self.cur and k_ // NYS < nsol:
                            idx = self.cur * NYS + k_ % NYS - self.offset
                        return Arr.get(self, idx)
                out2 = OwnSlot('start')
                it2 = make_interp(repo)

                def pre(itp, st, fr, out2=out2, sol_of_line=sol_of_line):
                    if fr.fname == fname: out2.cur = sol_of_line.get(getattr(st, 'lineno', -1))
                    return None
                it2.hooks['stmt'] = pre
                it2.call(m, f, [atoms[p] for p in plist] + [NYS, out2])
                try:
                    Y2 = [[out2.store[s * NYS + i] for s in range(nsol)] for i in range(nys)]
                except KeyError:
                    Y2 = None
                if Y2 is not None:
                    span_test(Y2, sfx=' [cross-solution reads redirected to the own slot]', ksfx='c')
            chk.note_analysed('functions', lab)


def rest(chk, repo):
    pi = X.atom('pi', 'pos'); G = X.atom('G', 'pos')
    lsym = X.atom('l', 'pos')
    K_pts = 2 if chk.tier == 'quick' else 5
    # ---- R04.7 independence of the family: for the same layer kind and assumptions the Kamata and the Takeuchi-Saito starting vectors span the same space at
    #      every radius (both are the regular solutions), so the combined, boundary-matched solution does not depend on the family
    family_spans(chk, repo, lsym, G)
    # ---- R04.5 sibling implementation (interpreted solver package)
    from . import legacy_solver
    legacy_solver.starting(chk, repo, 'R04.5', chk.seed, K_pts)
    legacy_solver.helper_series(chk, repo, 'R04.6', chk.seed)
    legacy_solver.initial_dispatch(chk, repo, X.Decider(seed=chk.seed, k=2), 'R04.5')
    series_tables(chk, repo)
    driver(chk, repo)
    from . import solver_whole as SW
    SW.guarded(chk, 'C04', lambda: SW.starting_arguments(chk, repo, 'R04.8'))
    chk.floor('R04.7', 3); chk.floor('R04.5', 10); chk.floor('R04.6', 6); chk.floor('R04.1', 18); chk.floor('R04.2', 15); chk.floor('R04.3', 18); chk.floor('R04.4', 12)
    chk.assume('homogeneous sphere: g(r) = (4 pi G rho / 3) r; all material values positive, shear modulus complex')


# ------------------------------------------------------------------------------------------------ series
def bessel_S(l, N):
    """coefficients (Nodes in l) of S_l(u) = sum_k (-u/2)^k / (k! prod_{i=1..k} (2l+1+2i))  [phi_l(x) with u = x^2]"""
    out = []
    for k in range(N + 1):
        den = X.const(factorial(k))
        for i in range(1, k + 1):
            den = den * (2 * l + 1 + 2 * i)
        out.append(X.const(F(-1, 2) ** k) / den)
    return out


def series_div(a, b, N):
    q = []
    for n in range(N + 1):
        acc = a[n]
        for k in range(1, n + 1):
            acc = acc - b[k] * q[n - k]
        q.append(acc / b[0])
    return q


def series_tables(chk, repo):
    mc = repo.by_path('TidalPy/RadialSolver/starting/common.pyx')
    fz = need_func(mc, 'cf_z_calc'); fp = need_func(mc, 'cf_takeuchi_phi_psi')
    l = X.atom('l', 'pos'); u = X.atom('u')
    # the function switches between the closed form (spherical Bessel functions) and a power series: the switch is the top-level `if` one of whose arms calls the
    # Bessel functions; the arms are recognised by what they contain, not by how the test is written
    switches = [st for st in fz.body if isinstance(st, ast.If)]
    def has_bessel(body): return any(isinstance(n_, ast.Call) and 'spherical_jn' in ast.unparse(n_.func) for s_ in body for n_ in ast.walk(s_))
    switches = [st for st in switches if has_bessel(st.body) != has_bessel(st.orelse)]
    if len(switches) != 1:
        raise AnalysisError('cf_z_calc: the switch between the Bessel form and the series was not found')
    switch = switches[0]; exact_is_body = has_bessel(switch.body)
    captured = {}

    def if_test(itp, st, fr):
        if st is switch:
            captured.setdefault('cond', itp.eval(st.test, fr))
            return not exact_is_body          # Taylor branch
        return None
    it = Interp(repo, hooks={'if_test': if_test})
    z = it.call(mc, fz, [u, l])
    N = 5
    S0 = bessel_S(l, N); S1 = bessel_S(l + 1, N)
    quot = series_div(S1, S0, N)
    # z = u/(2l+3) * S_{l+1}/S_l
    oracle = [X.ZERO] + [quot[k] / (2 * l + 3) for k in range(N)]
    d0 = X.Decider(seed=chk.seed + 23, k=3, pins={'u': 0})
    cur = z
    for k in range(N + 1):
        coef = cur / factorial(k)
        ok = d0.equal(coef, oracle[k])
        chk.ob('R04.2', f'cf_z_calc Taylor branch: coefficient of x^{2 * k} == series of x j_(l+1)(x)/j_l(x)', ok, '' if ok else f'code {d0.residual(coef)[0]:.6g} vs series {d0.residual(oracle[k])[0]:.6g} at a sample degree', mc.where(fz),
               key=f'R04.2|z|x^{2 * k}', method='pinned GF(p^2) PIT on Taylor coefficients, symbolic l')
        cur = X.diff(cur, 'u')
    # nothing beyond the oracle order that contradicts it: next coefficients (x^12..) must be absent or right -- the code writes 5 terms, through x^10
    # phi / psi
    refs = {}

    class R_:      # simple stand-in for address-of outputs
        pass
    from ..core.interp import Frame
    fr = Frame(mc, 'caller')
    outs = [Ref(fr, n) for n in ('phi', 'phi1', 'psi')]
    for n in ('phi', 'phi1', 'psi'): fr.vars[n] = None
    it2 = Interp(repo)
    it2.call(mc, fp, [u, l] + outs)
    N2 = 5
    phi_or = bessel_S(l, N2); phi1_or = bessel_S(l + 1, N2)
    # psi = 2(2l+3)/u (1 - phi): coefficients psi_k = -2(2l+3) phi_{k+1}
    phi_long = bessel_S(l, N2 + 1)
    psi_or = [-(2 * (2 * l + 3)) * phi_long[k + 1] for k in range(N2 + 1)]
    for nm, got, orc in (('phi_l', fr.vars['phi'], phi_or), ('phi_(l+1)', fr.vars['phi1'], phi1_or), ('psi_l', fr.vars['psi'], psi_or)):
        if got is None:
            chk.ob('R04.2', f'cf_takeuchi_phi_psi writes {nm}', False, 'output pointer never written', mc.where(fp)); continue
        cur = got
        for k in range(N2 + 1):
            coef = cur / factorial(k)
            ok = d0.equal(coef, orc[k])
            chk.ob('R04.2', f'cf_takeuchi_phi_psi: {nm} coefficient of z^{2 * k} == Bessel series', ok, '' if ok else 'coefficient differs', mc.where(fp), key=f'R04.2|{nm}|z^{2 * k}',
                   method='pinned GF(p^2) PIT on Taylor coefficients, symbolic l')
            cur = X.diff(cur, 'u')
    # exact branch of z: x * j_(l+1)(x) / j_l(x) with x = sqrt(x^2)
    def if_test2(itp, st, fr):
        if st is switch: return exact_is_body
        return None

    def ch(itp, f, args, kw, e, frm):
        if isinstance(f, FuncRef) and f.node.name == 'cf_csqrt': return X.sqrt(X.lift(args[0]))
        return NotImplemented
    it3 = Interp(repo, hooks={'if_test': if_test2, 'call': ch})
    ze = it3.call(mc, fz, [u, 2])
    x = X.sqrt(u)
    from ..core.interp import sph_bessel
    ref = x * sph_bessel('spherical_jn', 3, x) / sph_bessel('spherical_jn', 2, x)
    dd = X.Decider(seed=chk.seed + 29, k=2)
    chk.ob('R04.2', 'cf_z_calc exact branch == x j_(l+1)(x) / j_l(x), x = sqrt(x^2)', dd.equal(ze, ref), f'extracted {X.show(ze)[:80]}', mc.where(fz), method='GF(p^2) PIT with uninterpreted Bessel functions')
    # where the switch lies: the five-term series is only good for small |x^2|; for every x^2 of modulus >= 1 -- negative real (solids: k^2 < 0), imaginary, complex -- the
    # closed form must be used, and for very small ones the series (the closed form is 0/0 at x = 0)
    captured.clear()
    uc = X.atom('u_complex', 'complex')
    Interp(repo, hooks={'if_test': if_test}).call(mc, fz, [uc, 2])
    cond = captured.get('cond')
    if not isinstance(cond, X.Node):
        raise AnalysisError('cf_z_calc: the condition of the switch could not be extracted')
    import cmath
    bad = []
    for val in (-1.0, -10.0, -1.0e4, 1.0, 25.0, 3j, -7j, -2.0 + 2.0j, 30.0 - 40.0j):
        t = X.float_eval(cond, {'u_complex': val})
        takes_exact = (abs(t) > 0.5) == exact_is_body
        if not takes_exact: bad.append(f'x^2 = {val}: the series is used')
    for val in (0.0, 1e-12, -1e-9, 1e-10j):
        t = X.float_eval(cond, {'u_complex': val})
        takes_exact = (abs(t) > 0.5) == exact_is_body
        if takes_exact: bad.append(f'x^2 = {val}: the closed form (0/0 near x = 0) is used')
    chk.ob('R04.2', 'cf_z_calc uses the closed form for every x^2 of modulus >= 1 (negative real, imaginary, complex) and the series for |x^2| <= 1e-9', not bad, '; '.join(bad[:4]), mc.where(fz),
           key='R04.2|z|switch', method='float evaluation of the extracted switch condition at sample arguments')


# ------------------------------------------------------------------------------------------------ driver
def driver(chk, repo):
    md = repo.by_path('TidalPy/RadialSolver/starting/driver.pyx')
    fd = need_func(md, 'cf_find_starting_conditions')
    at = {'w': X.atom('W_', 'pos'), 'r': X.atom('R_', 'pos'), 'rho': X.atom('RHO_', 'pos'), 'K': X.atom('K_', 'pos'), 'mu': X.atom('MU_', 'complex'), 'l': X.atom('L_', 'pos'), 'G': X.atom('G_', 'pos')}
    expected = {}
    for (fname, file_, kind, static, incomp, nsol, plist) in FUNCS:
        fam = 'kamata' if file_ == 'kamata' else ('takeuchi' if file_ == 'takeuchi' else 'saito')
        expected[(kind, static, incomp, fam)] = (fname, file_, plist, nsol)
    d = X.Decider(seed=chk.seed + 31, k=2)
    for kind in ('solid', 'liquid'):
        for static in (False, True):
            for incomp in (False, True):
                for kam in (False, True):
                    lt = 0 if kind == 'solid' else 1
                    inst = f'cf_find_starting_conditions(layer_type={lt}, static={static}, incompressible={incomp}, use_kamata={kam})'
                    it = make_interp(repo)
                    out = Arr('drv')
                    nys = 2 * ts72.NUM_SOLS[(kind, static)]
                    try:
                        it.call(md, fd, [lt, static, incomp, kam, at['w'], at['r'], at['rho'], at['K'], at['mu'], at['l'], at['G'], 6, out, False])
                        raised = None
                    except RaiseSignal as ex:
                        raised = ex.text
                    # which reference function should serve this case?
                    if kind == 'liquid' and static:
                        key = ('liquid', True, True, 'saito')
                    else:
                        key = (kind, static, incomp, 'kamata' if kam else 'takeuchi')
                    exp = expected.get(key)
                    if exp is None:
                        chk.ob('R04.4', inst + ': unsupported combination raises', raised is not None, 'neither a starting function nor an exception', md.where(fd), key=f'R04.4|{inst}', method='partial evaluation')
                        continue
                    if raised is not None:
                        chk.ob('R04.4', inst + f': dispatches to {exp[0]}', False, f'raises: {raised[:80]}', md.where(fd), key=f'R04.4|{inst}', method='partial evaluation'); continue
                    fname, file_, plist, nsol = exp
                    m = repo.by_path(f'TidalPy/RadialSolver/starting/{file_}.pyx')
                    it2 = make_interp(repo)
                    ref = Arr('ref')
                    it2.call(m, need_func(m, fname), [at[p] for p in plist] + [6, ref])
                    same = sorted(ref.store) == sorted(out.store) and all(d.equal(out.store[k], ref.store[k]) for k in ref.store)
                    chk.ob('R04.4', inst + f': result == {fname}(named arguments in the callee\'s order)', same,
                           'starting block differs from the direct call with correctly bound arguments (wrong callee or swapped arguments)', md.where(fd), key=f'R04.4|{inst}', method='partial evaluation + GF(p^2) PIT')


# ------------------------------------------------------------------------------------------------ R04.7
def z_as_phi(n):
    """z_l(u) = u phi_(l+1)(u) / ((2l+3) phi_l(u))  [z = x j_(l+1)/j_l, phi_l = (2l+1)!! j_l / x^l, u = x^2]: rewrite the Kamata function atom over the Takeuchi ones"""
    memo = {}

    def s_(x):
        if x.uid in memo: return memo[x.uid]
        if x.op == 'fn' and x.val == 'zfun':
            u = s_(x.args[0]); l = s_(x.args[1])
            r = u * X.fn('phi1', u, l) / ((2 * l + 3) * X.fn('phi0', u, l))
        elif not x.args:
            r = x
        else:
            r = X._mk(x.op, tuple(s_(a) for a in x.args), x.val)
        memo[x.uid] = r
        return r
    return s_(n)


def family_spans(chk, repo, lsym, G):
    install_rules(lsym)
    atoms = {'w': X.atom('w', 'pos'), 'r': X.atom('r', 'pos'), 'rho': X.atom('rho', 'pos'), 'K': X.atom('K', 'pos'), 'mu': X.atom('mu', 'complex'), 'l': lsym, 'G': G}
    by = {}
    for rec in FUNCS:
        (fname, file_, kind, static, incomp, nsol, plist) = rec
        if file_ in ('kamata', 'takeuchi'):
            by.setdefault((kind, static, incomp), {})[file_] = rec
    for key, fam in sorted(by.items()):
        if len(fam) != 2:
            continue
        mats = {}
        for file_, (fname, _f, kind, static, incomp, nsol, plist) in fam.items():
            m = repo.by_path(f'TidalPy/RadialSolver/starting/{file_}.pyx')
            it = make_interp(repo); out = Arr('start')
            it.call(m, need_func(m, fname), [atoms[p] for p in plist] + [6, out])
            nys = len(ts72.LAYOUT[(kind, static)])
            try:
                mats[file_] = ([[z_as_phi(out.store[s_ * 6 + i]) for s_ in range(nsol)] for i in range(nys)], fname, m, nsol, nys)
            except KeyError as ex:
                raise AnalysisError(f'{fname}: slot {ex} never written')
        (YK, fK, mK, nsol, nys), (YT, fT, mT, _n, _m) = mats['kamata'], mats['takeuchi']
        ranks = []
        for seed in range(40):
            if len(ranks) >= 2: break
            pt = X.Decider(seed=1000 + seed, k=1).points[0]
            try:
                M = [[pt.ev(YK[i][s_]) for s_ in range(nsol)] + [pt.ev(YT[i][s_]) for s_ in range(nsol)] for i in range(nys)]
            except X.Resample:
                continue
            ranks.append((X.rank_gf([row[:nsol] for row in M]), X.rank_gf([row[nsol:] for row in M]), X.rank_gf(M)))
        if len(ranks) < 2:
            raise AnalysisError(f'{fK} / {fT}: no sample point could evaluate both families')
        ok = all(rk == (nsol, nsol, nsol) for rk in ranks)
        lab = f'{key[0]}, {"static" if key[1] else "dynamic"}, {"incompressible" if key[2] else "compressible"}'
        chk.ob('R04.7', f'{lab}: {fK} and {fT} span the same {nsol}-dimensional space of regular solutions at every radius (rank[Y_Kamata | Y_Takeuchi] = {nsol})', ok,
               f'(rank Kamata, rank Takeuchi, rank of both) = {ranks[0]}: the two families do not describe the same solutions, so the Love numbers depend on the family', mT.where(need_func(mT, fT)),
               key=f'R04.7|{fT}', method='exact rank over GF(p^2), Bessel-ratio atom rewritten over the Takeuchi functions')
