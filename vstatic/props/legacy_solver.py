"""Sibling implementation: the interpreted (numba) radial solver package TidalPy/radial_solver/ implements the same physics as the compiled
TidalPy/RadialSolver/ the properties are anchored in.  Its kernels are held to the same references (ts72 oracle, flow-invariance, continuity),
which (i) cross-checks our oracle transcription against a second, independently written implementation, and (ii) covers edits to the part of
the solver family that *can* be exercised in this sandbox (no Cython here)."""
from __future__ import annotations
import ast
from ..core import expr as X
from ..core.interp import Interp, Arr
from ..core.report import AnalysisError
from ..oracles import ts72
from . import solver_model as SM
from .common import need_func

DERIV_FILES = {(False, False): 'radial_derivatives_dynamic.py', (False, True): 'radial_derivatives_dynamic_incomp.py',
               (True, False): 'radial_derivatives_static.py', (True, True): 'radial_derivatives_static_incomp.py'}
FUNCS = {'solid': 'radial_derivatives_solid_general', 'liquid': 'radial_derivatives_liquid_general'}


def legacy_rhs(repo, it, mod, f, P, nys, G):
    yre = [X.atom(f'yre{k}') for k in range(nys)]; yim = [X.atom(f'yim{k}') for k in range(nys)]
    yv = Arr('radial_functions', default=lambda k: (yre[k // 2] if k % 2 == 0 else yim[k // 2]))
    byname = {'radius': P['r'], 'radial_functions': yv, 'shear_modulus': P['mu'], 'bulk_modulus': P['K'], 'density': P['rho'], 'gravity': P['g'],
              'frequency': P['w'], 'order_l': P['l'], 'G_to_use': G}
    kw = {}
    for a in f.args.args:
        if a.arg not in byname:
            raise AnalysisError(f'{mod.where(f)}: unexpected parameter {a.arg}')
        kw[a.arg] = byname[a.arg]
    out = it.call(mod, f, [], kw)
    if not isinstance(out, Arr):
        raise AnalysisError(f'{mod.where(f)}: does not return an array')
    written = sorted(out.store)
    if written != list(range(2 * nys)):
        raise AnalysisError(f'{mod.where(f)}: writes dy slots {written}, expected 0..{2 * nys - 1}')
    dy = []
    for k in range(nys):
        a, b = out.store[2 * k], out.store[2 * k + 1]
        if a.op == 'fn' and a.val == 'real' and b.op == 'fn' and b.val == 'imag' and a.args[0] is b.args[0]:
            dy.append(a.args[0])
        else:
            dy.append(a + X.I * b)
    y = [yre[k] + X.I * yim[k] for k in range(nys)]
    return dy, y


def derivatives(chk, repo, d, rule):
    """every legacy derivative kernel == the reference system of its assumption set, entry by entry"""
    it = Interp(repo)
    G = X.atom('G_newton', 'pos')
    n_ent = 0
    for (static, incomp), fname in DERIV_FILES.items():
        mod = repo.by_path('TidalPy/radial_solver/numerical/derivatives/' + fname)
        pi_v = it.global_name(mod, 'pi')
        P = SM.params()
        P['fpG'] = 4 * X.lift(pi_v) * G
        for kind in ('solid', 'liquid'):
            f = need_func(mod, FUNCS[kind])
            names = ts72.LAYOUT[(kind, static)]
            nys = len(names)
            dy, y = legacy_rhs(repo, it, mod, f, P, nys, G)
            A = SM.matrix_from(dy, nys)
            where = mod.where(f)
            lin_bad = []
            for i in range(nys):
                s = X.ZERO
                for j in range(nys):
                    s = s + A[i][j] * y[j]
                if not d.equal(dy[i], s):
                    lin_bad.append(names[i])
            tag = f'legacy {fname[:-3]}.{FUNCS[kind]}'
            chk.ob(rule, f'{tag}: right-hand side is linear and homogeneous in the y vector', not lin_bad, f'non-linear rows: d{lin_bad}', where, method='GF(p^2) PIT')
            yref = [X.atom(f'Y{k}', 'complex') for k in range(nys)]
            ref = ts72.reference_rhs(kind, static, incomp, yref, P)
            for i in range(nys):
                for j in range(nys):
                    sub = {f'Y{k}': (X.ONE if k == j else X.ZERO) for k in range(nys)}
                    rij = X.subst(ref[i], sub)
                    ok = d.equal(A[i][j], rij)
                    n_ent += 1
                    chk.ob(rule, f'{tag}: coefficient d{names[i]}/dr <- {names[j]}', ok, '' if ok else f'code {X.show(A[i][j])[:70]} vs reference: {d.describe(A[i][j], rij)}', where,
                           key=f'{rule}|{tag}|d{names[i]}|{names[j]}', method='GF(p^2) PIT')
            chk.note_analysed('legacy kernels', f'{tag}: {nys}x{nys} matrix')
    return n_ent


def dispatch(chk, repo, d, rule):
    """find_ode + the interpolating wrappers of odes.py: for each (solid?, static?, incompressible?) the ODE returned, called the way the integrator calls it
    (radius, y, *additional_args), evaluates the kernel of exactly that assumption set with the properties interpolated from the arrays of the same name."""
    from ..core.interp import Builtin, FuncRef
    mi = repo.by_path('TidalPy/radial_solver/numerical/derivatives/__init__.py')
    f_find = need_func(mi, 'find_ode')
    G = X.atom('G_newton', 'pos')
    arrays = {k: Arr(k) for k in ('radius_array', 'shear_modulus_array', 'bulk_modulus_array', 'density_array', 'gravity_array')}
    P = SM.params()
    interp_val = {id(arrays['shear_modulus_array']): P['mu'], id(arrays['bulk_modulus_array']): P['K'], id(arrays['density_array']): P['rho'], id(arrays['gravity_array']): P['g']}

    def call_hook(itp, f, args, kwargs, e, fr):
        if isinstance(f, Builtin) and f.name.split('.')[-1] == 'interp':
            if len(args) != 3 or args[0] is not P['r'] or args[1] is not arrays['radius_array'] or id(args[2]) not in interp_val:
                raise AnalysisError(f'{fr.mod.where(e)}: np.interp is not (radius, radius_array, <property array>)')
            return interp_val[id(args[2])]
        return NotImplemented
    it = Interp(repo, hooks={'call': call_hook})
    it0 = Interp(repo)
    for kind in ('solid', 'liquid'):
        for static in (False, True):
            for incomp in (False, True):
                nys = len(ts72.LAYOUT[(kind, static)])
                lab = f'legacy find_ode(is_solid={kind == "solid"}, is_static={static}, is_incompressible={incomp})'
                r = it.call(mi, f_find, [kind == 'solid', static, incomp, arrays['radius_array'], arrays['shear_modulus_array'], arrays['bulk_modulus_array'],
                                         arrays['density_array'], arrays['gravity_array'], P['w']], {'order_l': P['l'], 'G_to_use': G})
                if not (isinstance(r, tuple) and len(r) == 2 and isinstance(r[0], FuncRef) and isinstance(r[1], tuple)):
                    raise AnalysisError(f'{mi.where(f_find)}: find_ode does not return (function, argument tuple)')
                ode, extra = r
                yre = [X.atom(f'yre{k}') for k in range(nys)]; yim = [X.atom(f'yim{k}') for k in range(nys)]
                yv = Arr('y_vector', default=lambda k: (yre[k // 2] if k % 2 == 0 else yim[k // 2]))
                where = ode.mod.where(ode.node)
                try:
                    out = it.call(ode.mod, ode.node, [P['r'], yv] + list(extra))
                except AnalysisError as ex:
                    chk.ob(rule, f'{lab}: returned ODE accepts (radius, y, *additional_args)', False, str(ex)[:200], where, method='interpreted dispatch'); continue
                mk = repo.by_path('TidalPy/radial_solver/numerical/derivatives/' + DERIV_FILES[(static, incomp)])
                fk = need_func(mk, FUNCS[kind])
                yv2 = Arr('radial_functions', default=lambda k: (yre[k // 2] if k % 2 == 0 else yim[k // 2]))
                byname = {'radius': P['r'], 'radial_functions': yv2, 'shear_modulus': P['mu'], 'bulk_modulus': P['K'], 'density': P['rho'], 'gravity': P['g'],
                          'frequency': P['w'], 'order_l': P['l'], 'G_to_use': G}
                ref = it0.call(mk, fk, [], {a.arg: byname[a.arg] for a in fk.args.args})
                ok = isinstance(out, Arr) and sorted(out.store) == sorted(ref.store) and all(d.equal(out.store[k], ref.store[k]) for k in ref.store)
                chk.ob(rule, f'{lab}: the ODE handed to the integrator == {DERIV_FILES[(static, incomp)][:-3]}.{FUNCS[kind]} on the interpolated (mu, K, rho, g) and the given frequency, degree, G',
                       ok, 'derivative vector differs (wrong kernel, or arguments bound to the wrong parameters)', where, method='interpreted dispatch + GF(p^2) PIT')


# ---------------------------------------------------------------------------------------------- starting conditions
INIT_FILES = {(False, False): 'initial_solution_dynamic.py', (False, True): 'initial_solution_dynamic_incomp.py',
              (True, False): 'initial_solution_static.py', (True, True): 'initial_solution_static_incomp.py'}
# (function, kind, number of solutions) per file; functions whose body only raises are reported as not implemented
INIT_FUNCS = [('solid_guess_kamata', 'solid', 3), ('solid_guess_takeuchi', 'solid', 3), ('liquid_guess_kamata', 'liquid', 2), ('liquid_guess_takeuchi', 'liquid', 2),
              ('liquid_guess_saito', 'liquid', 1)]


def flow_invariant(d, Y, A, nys, nsol, rvar='r'):
    """rank[Y | A Y - dY/dr] == rank Y == nsol at every sample point; returns (ok, detail)"""
    Mx = []
    for i in range(nys):
        row = []
        for s in range(nsol):
            acc = X.ZERO
            for j in range(nys):
                acc = acc + A[i][j] * Y[j][s]
            row.append(acc - X.diff(Y[i][s], rvar))
        Mx.append(row)
    n_eval = 0; tries = 0
    pts = list(d.points)
    while pts or (n_eval == 0 and tries < 80):
        if pts:
            pt = pts.pop(0)
        else:
            tries += 1
            pt = d.extra_point()          # every point so far hit a pole / a non-residue under a root: never pass on zero evaluations
            if pt is None: continue
        try:
            Yv = [[pt.ev(Y[i][s]) for s in range(nsol)] for i in range(nys)]
            Mv = [[pt.ev(Mx[i][s]) for s in range(nsol)] for i in range(nys)]
        except X.Resample:
            continue
        n_eval += 1
        rY = X.rank_gf(Yv)
        rYM = X.rank_gf([Yv[i] + Mv[i] for i in range(nys)])
        if rY != nsol:
            return False, f'the {nsol} starting vectors are linearly dependent (rank {rY})'
        if rYM != rY:
            offenders = [s for s in range(nsol) if X.rank_gf([Yv[i] + [Mv[i][s]] for i in range(nys)]) != rY]
            res = max(d.residual(Mx[i][s])[0] for i in range(nys) for s in offenders) if offenders else 0
            return False, (f'rank[Y | A Y - dY/dr] = {rYM} > rank Y = {rY}: A*Y_s - dY_s/dr leaves the span of the starting vectors for solution slot(s) {offenders} '
                           f'(float residual up to {res:.3g})')
    if n_eval == 0:
        raise AnalysisError('span flow-invariance: no sample point could be evaluated (all hit poles / non-residues)')
    return True, ''


def starting(chk, repo, rule, seed, npts):
    """legacy starting-condition functions: span flow-invariance under the legacy derivative kernel of the same assumption set"""
    from ..core.interp import FuncRef, RaiseSignal
    from .c04 import install_rules
    lsym = X.atom('l', 'pos')
    install_rules(lsym)
    G = X.atom('G', 'pos')

    def call_hook(itp, f, args, kwargs, e, fr):
        if isinstance(f, FuncRef):
            nm = f.node.name
            if nm == 'sqrt_neg':
                return X.sqrt(X.lift(args[0]))
            if nm in ('z_calc', 'z_calc_general'):
                l = kwargs.get('order_l', args[1] if len(args) > 1 else 2)
                return X.fn('zfun', X.lift(args[0]), X.lift(l))
            if nm in ('takeuchi_phi_psi', 'takeuchi_phi_psi_general'):
                u = X.lift(args[0]); l = X.lift(kwargs.get('order_l', args[1] if len(args) > 1 else 2))
                if nm.endswith('general'):
                    u = u * u           # the general variant takes z, not z^2
                phi0 = X.fn('phi0', u, l); phi1 = X.fn('phi1', u, l)
                return (phi0, phi1, 2 * (2 * l + 3) / u * (1 - phi0))
        return NotImplemented
    it = Interp(repo, hooks={'call': call_hook})
    it0 = Interp(repo)
    atoms = {'radius': X.atom('r', 'pos'), 'shear_modulus': X.atom('mu', 'complex'), 'bulk_modulus': X.atom('K', 'pos'), 'density': X.atom('rho', 'pos'),
             'frequency': X.atom('w', 'pos'), 'order_l': lsym, 'G_to_use': G}
    n_done = 0
    for (static, incomp), fname in INIT_FILES.items():
        mod = repo.by_path('TidalPy/radial_solver/numerical/initial/' + fname)
        mk = repo.by_path('TidalPy/radial_solver/numerical/derivatives/' + DERIV_FILES[(static, incomp)])
        pi_v = X.lift(it.global_name(mk, 'pi'))
        for (fn, kind, nsol) in INIT_FUNCS:
            f = mod.defs.get(fn)
            if not isinstance(f, ast.FunctionDef):
                continue
            tag = f'legacy {fname[:-3]}.{fn}'
            where = mod.where(f)
            kw = {}
            for a in f.args.args:
                if a.arg not in atoms:
                    raise AnalysisError(f'{where}: unexpected parameter {a.arg}')
                kw[a.arg] = atoms[a.arg]
            try:
                out = it.call(mod, f, [], kw)
            except RaiseSignal:
                chk.note_analysed('legacy starting functions not implemented (raise)', tag); continue
            names = ts72.LAYOUT[(kind, static)]
            nys = len(names)
            if not isinstance(out, Arr):
                raise AnalysisError(f'{where}: does not return an array')
            try:
                Y = [[out.store[(s, i)] for s in range(nsol)] for i in range(nys)]
            except KeyError as ex:
                chk.ob(rule, f'{tag}: writes the {nsol} x {nys} block of starting values', False, f'element {ex} never written', where); continue
            extra = sorted(k for k in out.store if not (isinstance(k, tuple) and k[0] < nsol and k[1] < nys))
            P = SM.params(); P['l'] = lsym; P['fpG'] = 4 * pi_v * G
            P['g'] = 4 * pi_v * G * atoms['density'] / 3 * atoms['radius']
            fk = need_func(mk, FUNCS[kind])
            dy, yv = legacy_rhs(repo, it0, mk, fk, P, nys, G)
            A = SM.matrix_from(dy, nys)
            d = X.Decider(seed=seed + 23, k=npts)
            ok, detail = flow_invariant(d, Y, A, nys, nsol)
            chk.ob(rule, f'{tag}: span of the {nsol} starting vectors is invariant under the {DERIV_FILES[(static, incomp)][:-3]} system of a homogeneous sphere (rank[Y | A Y - Y\'] = rank Y)',
                   ok and not extra, detail + (f' extra elements written: {extra[:4]}' if extra else ''), where, key=f'{rule}|{tag}', method=f'exact rank over GF(p^2) at {len(d.points)} points')
            n_done += 1
            chk.note_analysed('legacy starting functions', tag)
    return n_done


def helper_series(chk, repo, rule, seed):
    """legacy z_calc (downward continued-fraction recursion, unrolled for concrete degree) and takeuchi_phi_psi (series) against the Riccati / Bessel series"""
    from math import factorial
    from .c04 import bessel_S, series_div
    mod = repo.by_path('TidalPy/radial_solver/numerical/initial/functions.py')
    fz = need_func(mod, 'z_calc'); fp = need_func(mod, 'takeuchi_phi_psi')
    it = Interp(repo)
    u = X.atom('u')
    d0 = X.Decider(seed=seed + 29, k=3, pins={'u': 0})
    N = 4
    for lv in (2, 3, 5):
        depth = 6
        z = it.call(mod, fz, [u], {'order_l': lv, 'init_l': lv + depth, 'raise_l_error': True})
        l = X.const(lv)

        def z_series(lnode):
            S0 = bessel_S(lnode, N); S1 = bessel_S(lnode + 1, N)
            q = series_div(S1, S0, N)
            return [X.ZERO] + [q[k] / (2 * lnode + 3) for k in range(N)]
        oracle = z_series(l); below = z_series(l - 1)
        cur = z; bad = []; is_below = True
        for k in range(N + 1):
            coef = cur / factorial(k)
            if not d0.equal(coef, oracle[k]):
                bad.append(f'x^{2 * k}: code {d0.residual(coef)[0]:.6g} vs series {d0.residual(oracle[k])[0]:.6g}')
            if not d0.equal(coef, below[k]):
                is_below = False
            cur = X.diff(cur, 'u')
        hint = ' -- the value returned is z_(l-1)(x) = x j_l(x)/j_(l-1)(x): the recursion runs one step too far' if (bad and is_below) else ''
        chk.ob(rule, f'legacy z_calc(x^2, order_l={lv}) == x j_(l+1)(x)/j_l(x) through x^{2 * N} (recursion started {depth} degrees up)', not bad, '; '.join(bad[:3]) + hint, mod.where(fz),
               key=f'{rule}|legacy z_calc|l={lv}', method='unrolled recursion, pinned GF(p^2) PIT on Taylor coefficients')
    # phi, phi_{l+1}, psi: the legacy series are written through z^4
    lsym = X.atom('l', 'pos')
    out = it.call(mod, fp, [u], {'order_l': lsym})
    if not (isinstance(out, tuple) and len(out) == 3):
        raise AnalysisError(f'{mod.where(fp)}: takeuchi_phi_psi does not return three values')
    N2 = 2
    phi_or = bessel_S(lsym, N2); phi1_or = bessel_S(lsym + 1, N2)
    phi_long = bessel_S(lsym, N2 + 1)
    psi_or = [-(2 * (2 * lsym + 3)) * phi_long[k + 1] for k in range(N2 + 1)]
    for nm, got, orc in (('phi_l', out[0], phi_or), ('phi_(l+1)', out[1], phi1_or), ('psi_l', out[2], psi_or)):
        cur = got; bad = []
        for k in range(N2 + 1):
            coef = cur / factorial(k)
            if not d0.equal(coef, orc[k]):
                bad.append(f'z^{2 * k}')
            cur = X.diff(cur, 'u')
        if not d0.is_zero(cur):
            bad.append(f'terms beyond z^{2 * N2} present')
        chk.ob(rule, f'legacy takeuchi_phi_psi: {nm} series == Bessel series through z^{2 * N2}, symbolic l', not bad, 'coefficients differ at ' + ', '.join(bad), mod.where(fp),
               key=f'{rule}|legacy takeuchi_phi_psi|{nm}', method='pinned GF(p^2) PIT on Taylor coefficients')


# ---------------------------------------------------------------------------------------------- surface conditions
class _Inv:
    def __init__(self, M): self.M = M


def surface(chk, repo, d, rule):
    """legacy surface_condition.py: each function solves  sum_s C_s y_c(solution s) = requested value  for the constrained components c of its layer kind
    (np.linalg.inv(M) @ b is captured, not evaluated: the system that is solved is what is decided)"""
    from ..core.interp import Builtin
    mod = repo.by_path('TidalPy/radial_solver/numerical/collapse/surface_condition.py')
    pi = None
    G = X.atom('G', 'pos'); g = X.atom('g_surf', 'pos')
    cases = [('solid_surface', 'solid', False, ['y2', 'y4', 'y6']), ('dynamic_liquid_surface', 'liquid', False, ['y2', 'y6']), ('static_liquid_surface', 'liquid', True, ['y7'])]
    slot = {('solid', False): {'y1': 0, 'y2': 1, 'y3': 2, 'y4': 3, 'y5': 4, 'y6': 5}, ('liquid', False): {'y1': 0, 'y2': 1, 'y5': 2, 'y6': 3}, ('liquid', True): {'y5': 0, 'y7': 1}}
    for fname, kind, static, comps in cases:
        f = need_func(mod, fname)
        solved = []

        def call_hook(itp, fn_, args, kwargs, e, fr):
            if isinstance(fn_, Builtin):
                nm = fn_.name.split('.')[-1]
                if nm in ('asarray', 'array'):
                    return args[0]
                if nm == 'inv':
                    return _Inv(args[0])
            return NotImplemented

        def expr_hook(itp, e, fr):
            if isinstance(e, ast.BinOp) and isinstance(e.op, ast.MatMult):
                lft = itp.eval(e.left, fr); rgt = itp.eval(e.right, fr)
                if isinstance(lft, _Inv):
                    solved.append((lft.M, rgt))
                    return Arr('C_vector', default=lambda k: X.atom(f'C[{k}]', 'complex'))
                raise AnalysisError(f'{fr.mod.where(e)}: matrix product that is not inv(M) @ b')
            return NotImplemented
        it = Interp(repo, hooks={'call': call_hook, 'expr': expr_hook})
        nsol = ts72.NUM_SOLS[(kind, static)]
        Ys = [Arr(f'ysurf{s}', default=lambda k, s=s: X.atom(f'Y[{s}][{k}]', 'complex')) for s in range(nsol)]
        bc = Arr('bc', default=lambda k: X.atom(f'bc[{k}]'))
        args = {'y_solutions_at_surface': Ys, 'surface_boundary_condition': bc, 'gravity_at_surface': g, 'G_to_use': G}
        kw = {}
        for a in f.args.args:
            if a.arg not in args:
                raise AnalysisError(f'{mod.where(f)}: unexpected parameter {a.arg}')
            kw[a.arg] = args[a.arg]
        it.call(mod, f, [], kw)
        where = mod.where(f)
        inst = f'legacy surface_condition.{fname}'
        if len(solved) != 1:
            chk.ob(rule, inst + ': one linear solve inv(M) @ b', False, f'{len(solved)} solves seen', where); continue
        M, b = solved[0]
        if kind == 'solid':
            rhs = [bc.get(0), bc.get(1), bc.get(2)]
        elif not static:
            rhs = [bc.get(0), bc.get(2)]
        else:
            rhs = None
        bad = []
        rows = [list(r) for r in M] if isinstance(M, (tuple, list)) else None
        if rows is None or len(rows) != len(comps) or any(len(r) != nsol for r in rows):
            bad.append('matrix is not %dx%d' % (len(comps), nsol))
        else:
            for i, c in enumerate(comps):
                for s in range(nsol):
                    if not d.equal(rows[i][s], Ys[s].get(slot[(kind, static)][c])):
                        bad.append(f'M[row {c}, solution {s}] = {X.show(X.lift(rows[i][s]))[:30]}')
            bvals = [b.get(i) if isinstance(b, Arr) else b[i] for i in range(len(comps))]
            if rhs is not None:
                for i, c in enumerate(comps):
                    if not d.equal(bvals[i], rhs[i]): bad.append(f'rhs[{c}] = {X.show(X.lift(bvals[i]))[:40]}')
            else:
                # y7 = y6 + (4 pi G / g) y2 : linear in (bc[0], bc[2]) with coefficient ratio 4 pi G / g; pi enters as numpy's constant
                c2 = X.subst(X.lift(bvals[0]), {'bc[0]': X.ZERO, 'bc[2]': X.ONE}); c0 = X.subst(X.lift(bvals[0]), {'bc[0]': X.ONE, 'bc[2]': X.ZERO})
                pis = [a_ for a_ in X.atoms_of(c0) if a_.val[0] in ('pi', 'const_pi', 'np.pi')]
                piv = pis[0] if pis else X.atom('pi', 'pos')
                if not d.equal(c2, X.ONE) or not d.equal(c0, 4 * piv * G / g) or not d.equal(X.lift(bvals[0]), c0 * bc.get(0) + c2 * bc.get(2)):
                    bad.append(f'rhs[y7] = {X.show(X.lift(bvals[0]))[:60]} (expected bc[2] + (4 pi G / g) bc[0])')
        chk.ob(rule, inst + f': solves sum_s C_s {comps}(solution s) = requested values', not bad, '; '.join(bad[:4]), where, key=f'{rule}|{inst}', method='interpretation with the linear solve captured + GF(p^2) PIT')


# ---------------------------------------------------------------------------------------------- non-dimensionalisation, Love numbers, driver fragments
def nondimensional(chk, repo, d, rule):
    """legacy nondimensional.py: conversions are the unit system (L = R, T^2 = 1/(pi G rho_bulk), M = rho_bulk R^3), re(non(x)) == x, and slot k of the
    radial functions is multiplied by the unit of y_k (y1,y3: s^2/m; y2,y4: kg/m^3; y5: 1; y6: 1/m)"""
    mod = repo.by_path('TidalPy/radial_solver/nondimensional.py')
    fn = need_func(mod, 'non_dimensionalize_physicals'); fr_ = need_func(mod, 're_dimensionalize_physicals'); fy = need_func(mod, 're_dimensionalize_radial_func')
    it = Interp(repo)
    R = X.atom('R_mean', 'pos'); rb = X.atom('rho_bulk', 'pos')
    vals = {'radius': X.atom('r', 'pos'), 'gravity': X.atom('g', 'pos'), 'density': X.atom('rho', 'pos'), 'shear_modulus': X.atom('mu', 'complex'),
            'bulk_modulus': X.atom('K', 'pos'), 'frequency': X.atom('w', 'pos')}
    order = ['radius', 'gravity', 'density', 'shear_modulus', 'bulk_modulus', 'frequency']
    out = it.call(mod, fn, [vals[k] for k in order], {'mean_radius': R, 'bulk_density': rb})
    if not (isinstance(out, tuple) and len(out) == 7):
        raise AnalysisError(f'{mod.where(fn)}: non_dimensionalize_physicals does not return 7 values')
    Gc = X.lift(it.global_name(mod, 'G')); pi_v = None
    # recover the module's pi from the expression of the frequency conversion: T2 = 1/(pi G rho_bulk)
    np_pi = [a_ for a_ in X.atoms_of(out[5]) if 'pi' in a_.val[0]]
    piv = np_pi[0] if np_pi else X.atom('pi', 'pos')
    T2 = 1 / (piv * Gc * rb); L = R; M = rb * R ** 3
    dpos = X.Decider(seed=7, k=3, positive=[T2])
    unit = {'radius': L, 'gravity': L / T2, 'density': M / L ** 3, 'shear_modulus': M / (L * T2), 'bulk_modulus': M / (L * T2), 'frequency': 1 / X.sqrt(T2)}
    where = mod.where(fn)
    for k, name in enumerate(order):
        ok = dpos.equal(out[k], vals[name] / unit[name])
        chk.ob(rule, f'legacy non_dimensionalize_physicals: {name} is divided by its unit in (L = R, T^2 = 1/(pi G rho_bulk), M = rho_bulk R^3)', ok, '' if ok else dpos.describe(out[k], vals[name] / unit[name]), where,
               key=f'{rule}|legacy nondim|{name}', method='GF(p^2) PIT')
    ok = dpos.equal(out[6], Gc / (L ** 3 / (M * T2)))
    chk.ob(rule, 'legacy non_dimensionalize_physicals: G is divided by L^3 / (M T^2)', ok, '' if ok else dpos.describe(out[6], Gc / (L ** 3 / (M * T2))), where, key=f'{rule}|legacy nondim|G', method='GF(p^2) PIT')
    back = it.call(mod, fr_, list(out[:6]), {'mean_radius': R, 'bulk_density': rb})
    for k, name in enumerate(order):
        ok = isinstance(back, tuple) and len(back) == 6 and dpos.equal(back[k], vals[name])
        chk.ob(rule, f'legacy re_dimensionalize_physicals(non_dimensionalize_physicals(x)) == x: {name}', ok, 'round trip is not the identity', mod.where(fr_), key=f'{rule}|legacy roundtrip|{name}', method='GF(p^2) PIT')
    yp = Arr('tidal_y_prime', default=lambda k: X.atom(f'yprime{k + 1}', 'complex'))
    yo = it.call(mod, fy, [yp, R, rb])
    yunit = [T2 / L, M / L ** 3, T2 / L, M / L ** 3, X.ONE, 1 / L]
    bad = []
    for k in range(6):
        gv = yo.store.get(k) if isinstance(yo, Arr) else None
        if gv is None or not dpos.equal(gv, yp.get(k) * yunit[k]):
            bad.append(f'y{k + 1}')
    chk.ob(rule, 'legacy re_dimensionalize_radial_func: y_k is multiplied by the unit of y_k (s^2/m, kg/m^3, s^2/m, kg/m^3, 1, 1/m)', not bad, f'wrong factor for {bad}', mod.where(fy),
           key=f'{rule}|legacy redim y', method='GF(p^2) PIT')


def love(chk, repo, d, rule):
    mod = repo.by_path('TidalPy/radial_solver/love.py')
    f = need_func(mod, 'find_love')
    it = Interp(repo)
    ys = Arr('surface', default=lambda k: X.atom(f'ysurf{k + 1}', 'complex'))
    g = X.atom('g_surf', 'pos')
    out = it.call(mod, f, [ys, g])
    ok = isinstance(out, tuple) and len(out) == 3 and d.equal(out[0], ys.get(4) - 1) and d.equal(out[1], g * ys.get(0)) and d.equal(out[2], g * ys.get(2))
    chk.ob(rule, 'legacy find_love: (k, h, l) == (y5 - 1, g y1, g y3) of the surface values', ok, 'differs', mod.where(f), key=f'{rule}|legacy find_love', method='GF(p^2) PIT')


def driver_bc(chk, repo, d, rule):
    """boundary-condition fragments of the legacy driver: tidal (0, 0, (2l+1)/R), loading (-(2l+1) rho_bulk/3, 0, (2l+1)/R); R = 1, rho_bulk = 1 when non-dimensional"""
    from ..core.interp import Frame, Builtin
    mod = repo.by_path('TidalPy/radial_solver/numerical/solver.py')
    f = need_func(mod, 'radial_solver')
    l = X.atom('l', 'pos'); R = X.atom('R_planet', 'pos'); rb = X.atom('rho_bulk', 'pos')
    radius = Arr('radius', default=lambda k: R)
    found = {}
    for n in ast.walk(f):
        if isinstance(n, ast.Assign) and len(n.targets) == 1 and isinstance(n.targets[0], ast.Name) and isinstance(n.value, ast.Call) \
                and ast.unparse(n.value.func) in ('np.zeros', 'numpy.zeros') and n.value.args and isinstance(n.value.args[0], ast.Constant) and n.value.args[0].value == 3:
            found[n.targets[0].id] = n
    # the statement following each allocation is the `if nondimensionalize:` that fills it
    def filler(alloc):
        parent_bodies = [b for nd in ast.walk(f) for b in (getattr(nd, 'body', None), getattr(nd, 'orelse', None)) if isinstance(b, list)]
        for body in parent_bodies:
            for i, st in enumerate(body):
                if st is alloc and i + 1 < len(body) and isinstance(body[i + 1], ast.If):
                    return body[i + 1]
        return None
    it = Interp(repo)
    seen = 0
    for name, alloc in found.items():
        fl = filler(alloc)
        if fl is None:
            continue
        for nd in (False, True):
            fr = Frame(mod, 'radial_solver')
            bc = Arr(name, default=lambda k: X.ZERO)
            fr.vars.update({name: bc, 'order_l': l, 'radius': radius, 'planet_bulk_density': rb, 'nondimensionalize': nd, 'planet_radius': R})
            try:
                it.exec(fl, fr)
            except AnalysisError as ex:
                raise AnalysisError(f'{mod.where(fl)}: boundary-condition fragment could not be interpreted: {ex}')
            got = [bc.get(k) for k in range(3)]
            Ruse = X.ONE if nd else R; rbuse = X.ONE if nd else rb
            tidal = [X.ZERO, X.ZERO, (2 * l + 1) / Ruse]; load = [-(2 * l + 1) * rbuse / 3, X.ZERO, (2 * l + 1) / Ruse]
            is_load = 'load' in name
            ref = load if is_load else tidal
            ok = all(d.equal(got[k], ref[k]) for k in range(3))
            seen += 1
            chk.ob(rule, f'legacy driver: {name} ({"non-dimensional" if nd else "dimensional"}) == ' + ('(-(2l+1) rho_bulk / 3, 0, (2l+1)/R)' if is_load else '(0, 0, (2l+1)/R)'), ok,
                   f'values {[X.show(g_)[:30] for g_ in got]}', mod.where(fl), key=f'{rule}|legacy bc|{name}|{nd}', method='fragment interpretation + GF(p^2) PIT')
    if seen < 4:
        raise AnalysisError(f'{mod.where(f)}: boundary-condition vectors of the legacy driver not found ({seen} of 4 fragments)')


def initial_dispatch(chk, repo, d, rule):
    """find_initial_guess(is_solid, is_static, is_incompressible, is_kamata, ...) returns what the function of that (kind, assumption, family) returns on the same arguments"""
    from ..core.interp import FuncRef, RaiseSignal
    mi = repo.by_path('TidalPy/radial_solver/numerical/initial/__init__.py')
    f = need_func(mi, 'find_initial_guess')
    calls = []

    def call_hook(itp, fn_, args, kwargs, e, fr):
        if isinstance(fn_, FuncRef) and fr.fname == 'find_initial_guess' and fn_.mod.name.startswith('TidalPy.radial_solver.numerical.initial.initial_solution'):
            params = [a.arg for a in fn_.node.args.args]
            bound = dict(zip(params, args)); bound.update(kwargs)
            calls.append((fn_, bound))
            return ('result-of', fn_.mod.name.split('.')[-1], fn_.node.name)
        return NotImplemented
    it = Interp(repo, hooks={'call': call_hook})
    vals = {'radius': X.atom('r', 'pos'), 'shear_modulus': X.atom('mu', 'complex'), 'bulk_modulus': X.atom('K', 'pos'), 'density': X.atom('rho', 'pos'), 'frequency': X.atom('w', 'pos'),
            'order_l': X.atom('l', 'pos'), 'G_to_use': X.atom('G', 'pos')}
    for solid in (True, False):
        for static in (False, True):
            for incomp in (False, True):
                for kamata in (True, False):
                    calls.clear()
                    lab = f'legacy find_initial_guess(is_solid={solid}, is_static={static}, is_incompressible={incomp}, is_kamata={kamata})'
                    try:
                        r = it.call(mi, f, [solid, static, incomp, kamata, vals['radius'], vals['shear_modulus'], vals['bulk_modulus'], vals['density'], vals['frequency']],
                                    {'order_l': vals['order_l'], 'G_to_use': vals['G_to_use']})
                    except RaiseSignal:
                        chk.note_analysed('legacy find_initial_guess combinations that raise', lab); continue
                    ok = len(calls) == 1 and isinstance(r, tuple) and r and r[0] == 'result-of'
                    why = ''
                    if ok:
                        fn_, bound = calls[0]
                        want_file = INIT_FILES[(static, incomp)][:-3]
                        fam = 'kamata' if kamata else ('saito' if (not solid and static) else 'takeuchi')
                        if not solid and static:
                            fam = 'saito'
                        okf = fn_.mod.name.split('.')[-1] == want_file and fn_.node.name.startswith('solid' if solid else 'liquid') and fam in fn_.node.name
                        okb = all(bound.get(k) is vals[k] for k in bound if k in vals) and set(bound) == {a.arg for a in fn_.node.args.args}
                        ok = okf and okb
                        why = ('' if okf else f'selects {fn_.mod.name.split(".")[-1]}.{fn_.node.name}; ') + ('' if okb else 'arguments bound to the wrong parameters: ' + ', '.join(f'{k}={v!r}'[:40] for k, v in bound.items()))
                    else:
                        why = f'{len(calls)} starting functions called'
                    chk.ob(rule, lab + ': the function of that layer kind, assumption set and family, each argument bound to the parameter of the same name', ok, why, mi.where(f),
                           key=f'{rule}|{lab}', method='interpreted dispatch with recorded binding')


# ---------------------------------------------------------------------------------------------- propagator (fundamental) matrices
def fundamental(chk, repo, rule, seed, tier):
    """matrix/fundamental_solid.py returns (Y, Y^-1, A) per shell for an incompressible static solid.  Decided as identities in (r, mu, rho, g[, l]):
    Y * Yinv == I, and dY/dr == A * Y when gravity is that of the homogeneous sphere the closed forms assume... the latter only where g enters through rho g r terms
    that the SVC16 solution treats as constant per shell -- so only  Y Yinv == I  and  the l = 2 special case == the generic function at l = 2  are claimed."""
    mod = repo.by_path('TidalPy/radial_solver/matrix/fundamental_solid.py')
    f2 = need_func(mod, 'fundamental_matrix_orderl2'); fg = need_func(mod, 'fundamental_matrix_generic')

    def expr_hook(itp, e, fr):
        if isinstance(e, ast.Subscript) and isinstance(e.value, ast.Attribute) and e.value.attr == 'shape':
            return 1
        # np.ones(num_shells) / np.zeros(num_shells): a per-shell vector, one element in the collapsed reading
        if isinstance(e, ast.Call) and ast.unparse(e.func) in ('np.ones', 'np.zeros') and e.args and not isinstance(e.args[0], (ast.Tuple, ast.List)) and itp.eval(e.args[0], fr) == 1:
            return X.ONE if e.func.attr == 'ones' else X.ZERO
        return NotImplemented
    it = Interp(repo, hooks={'expr': expr_hook, 'drop_full_slices': True})
    r = X.atom('r', 'pos'); mu = X.atom('mu', 'complex'); rho = X.atom('rho', 'pos'); g = X.atom('g', 'pos')
    d = X.Decider(seed=seed + 31, k=2 if tier == 'quick' else 5)

    def mats(f, **kw):
        out = it.call(mod, f, [r, mu, rho, g], kw)
        if not (isinstance(out, tuple) and len(out) == 3 and all(isinstance(o, Arr) for o in out)):
            raise AnalysisError(f'{mod.where(f)}: does not return (fundamental, inverse, derivative) matrices')
        def M(a): return [[a.get((i, j)) for j in range(6)] for i in range(6)]
        return M(out[0]), M(out[1]), M(out[2])
    cases = [('fundamental_matrix_orderl2', f2, {}, 2)] + [(f'fundamental_matrix_generic(order_l={lv})', fg, {'order_l': lv}, lv) for lv in ((2, 3) if tier == 'quick' else (2, 3, 4, 7))]
    store = {}
    for name, f, kw, lv in cases:
        Y, Yi, A = mats(f, **kw)
        store[name] = (Y, Yi, A)
        bad = []
        for i in range(6):
            for j in range(6):
                acc = X.ZERO
                for k in range(6):
                    acc = acc + X.lift(Y[i][k]) * X.lift(Yi[k][j])
                if not d.equal(acc, X.ONE if i == j else X.ZERO):
                    bad.append(f'({i},{j})')
        chk.ob(rule, f'legacy {name}: fundamental matrix times its stated inverse is the identity', not bad, f'entries of Y Yinv - I that do not vanish: {bad[:8]}', mod.where(f),
               key=f'{rule}|legacy {name}|inverse', method='GF(p^2) PIT (36 entries)')
    # the conversion block of propagate.py (SVC16 convention -> TS72 convention) defines how the propagator's unknowns relate to y1..y6
    conv, rows, bcv, mp_ = propagate_conventions(repo, it_plain=Interp(repo, hooks={'drop_full_slices': True}))
    P = SM.params(); lsym3 = None
    for name, f, kw, lv in cases:
        Y, Yi, A = store[name]
        P = SM.params(); P['l'] = X.const(lv)
        Gc = X.lift(it.global_name(mod, 'G')); piv = X.atom('pi', 'pos')
        P['fpG'] = 4 * piv * Gc
        P['r'] = r; P['mu'] = mu; P['rho'] = rho; P['g'] = g
        yref = [X.atom(f'Y{k}', 'complex') for k in range(6)]
        ref = ts72.reference_rhs('solid', True, True, yref, P)
        bad = []
        for i_ in range(6):
            for j_ in range(6):
                sub = {f'Y{k}': (X.ONE if k == j_ else X.ZERO) for k in range(6)}
                rij = X.subst(ref[i_], sub)
                (si, ss), (sj, sjs) = conv[i_], conv[j_]
                got = X.lift(A[si][sj]) * ss * sjs
                if not d.equal(got, rij):
                    bad.append(f'd{ts72.LAYOUT[("solid", True)][i_]}<-{ts72.LAYOUT[("solid", True)][j_]}')
        chk.ob(rule, f'legacy {name}: derivative matrix, read through the SVC16->TS72 conversion of propagate.py, == the static incompressible solid reference system', not bad,
               f'entries differ: {bad[:8]}', mod.where(f), key=f'{rule}|legacy {name}|derivative', method='GF(p^2) PIT (36 entries)')
        # columns solve dy/dr = A y in a homogeneous sphere
        gex = 4 * piv * Gc * rho / 3 * r
        Yu = [[X.subst(X.lift(Y[i_][j_]), {'g': gex}) for j_ in range(6)] for i_ in range(6)]
        Au = [[X.subst(X.lift(A[i_][j_]), {'g': gex}) for j_ in range(6)] for i_ in range(6)]
        bad = []
        for i_ in range(6):
            for j_ in range(6):
                acc = X.ZERO
                for k in range(6):
                    acc = acc + Au[i_][k] * Yu[k][j_]
                if not d.equal(X.diff(Yu[i_][j_], 'r'), acc):
                    bad.append(f'({i_},{j_})')
        chk.ob(rule, f'legacy {name}: every column of the fundamental matrix solves dy/dr = A y in a homogeneous sphere (g = 4 pi G rho r / 3)', not bad, f'entries of dY/dr - A Y that do not vanish: {bad[:8]}',
               mod.where(f), key=f'{rule}|legacy {name}|solves', method='symbolic differentiation + GF(p^2) PIT (36 entries)')
    # surface condition of the propagator: constrained rows and requested values, converted, are (y2, y4, y6) = (0, 0, (2l+1)/R)
    names6 = ts72.LAYOUT[('solid', True)]
    lS = X.atom('l', 'pos'); RS = X.atom('R_world', 'pos')
    want = {'y2': X.ZERO, 'y4': X.ZERO, 'y6': (2 * lS + 1) / RS}
    bad = []
    got_comp = {}
    for row, b in zip(rows, bcv):
        ks = [k for k in range(6) if conv[k][0] == row]
        if len(ks) != 1:
            bad.append(f'row {row} is not a converted component'); continue
        k = ks[0]
        got_comp[names6[k]] = X.lift(b) * conv[k][1]
    for c_, v in want.items():
        if c_ not in got_comp: bad.append(f'{c_} is not constrained at the surface')
        elif not d.equal(got_comp[c_], v): bad.append(f'{c_} = {X.show(got_comp[c_])[:40]}')
    chk.ob(rule, 'legacy propagate: surface condition, read through its own convention conversion, is (y2, y4, y6) = (0, 0, (2l+1)/R)', not bad and len(got_comp) == 3, '; '.join(bad), mp_[1],
           key=f'{rule}|legacy propagate|surface', method='fragment interpretation + GF(p^2) PIT')
    Y2, Yi2, A2 = store['fundamental_matrix_orderl2']; Yg, Yig, Ag = store['fundamental_matrix_generic(order_l=2)']
    for nm, a, b in (('fundamental matrix', Y2, Yg), ('inverse', Yi2, Yig), ('derivative matrix', A2, Ag)):
        bad = [f'({i},{j})' for i in range(6) for j in range(6) if not d.equal(X.lift(a[i][j]), X.lift(b[i][j]))]
        chk.ob(rule, f'legacy fundamental_matrix_orderl2 == fundamental_matrix_generic at l = 2: {nm}', not bad, f'entries differ: {bad[:8]}', mod.where(f2),
               key=f'{rule}|legacy fundamental l2 vs generic|{nm}', method='GF(p^2) PIT (36 entries)')


def propagate_conventions(repo, it_plain):
    """from matrix/propagate.py: (conv, rows, bc, (mod, where)) with conv[k] = (index in the SVC16 vector, sign) of TS72 component k,
    rows = SVC16 rows constrained at the surface, bc = the values they are set to (order_l -> l, world_radius -> R_world)"""
    from ..core.interp import Frame
    mod = repo.by_path('TidalPy/radial_solver/matrix/propagate.py')
    f = need_func(mod, 'propagate')
    ret = [n for n in ast.walk(f) if isinstance(n, ast.Return) and isinstance(n.value, ast.Name)]
    if not ret:
        raise AnalysisError(f'{mod.where(f)}: propagate does not return a named array')
    yname = ret[-1].value.id
    stores = [n for n in f.body if isinstance(n, ast.Assign) and isinstance(n.targets[0], ast.Subscript) and isinstance(n.targets[0].value, ast.Name) and n.targets[0].value.id == yname]
    if len(stores) != 6:
        raise AnalysisError(f'{mod.where(f)}: expected six conversion stores into `{yname}`, found {len(stores)}')
    srcs = {n_.value.id for st in stores for n_ in ast.walk(st.value) if isinstance(n_, ast.Subscript) and isinstance(n_.value, ast.Name)}
    if len(srcs) != 1:
        raise AnalysisError(f'{mod.where(f)}: conversion stores read from {sorted(srcs)}')
    src = list(srcs)[0]
    fr = Frame(mod, 'propagate')
    ysv = Arr(src, default=lambda k: X.atom(f'ysv{k}', 'complex')); yo = Arr(yname)
    fr.vars.update({src: ysv, yname: yo})
    for st in stores:
        it_plain.exec(st, fr)
    dd = X.Decider(seed=5, k=2)
    conv = {}
    for k in range(6):
        v = yo.store.get(k)
        if v is None:
            raise AnalysisError(f'{mod.where(f)}: component {k} of the converted solution is never written')
        hit = [(j, sg) for j in range(6) for sg in (1, -1) if dd.equal(v, sg * ysv.get(j))]
        if len(hit) != 1:
            raise AnalysisError(f'{mod.where(stores[k])}: converted component {k} is not +/- one component of the SVC16 vector')
        conv[k] = hit[0]
    # surface rows: np.vstack((M[a, :, -1], M[b, :, -1], M[c, :, -1]))
    rows = None
    for n in ast.walk(f):
        if isinstance(n, ast.Call) and ast.unparse(n.func) in ('np.vstack', 'numpy.vstack') and n.args and isinstance(n.args[0], ast.Tuple):
            rr = []
            for e_ in n.args[0].elts:
                if isinstance(e_, ast.Subscript) and isinstance(e_.slice, ast.Tuple) and isinstance(e_.slice.elts[0], ast.Constant):
                    rr.append(e_.slice.elts[0].value)
            if len(rr) == 3: rows = rr
    if rows is None:
        raise AnalysisError(f'{mod.where(f)}: surface matrix (np.vstack of three rows) not found')
    # requested values: the 3-vector allocated with np.zeros((3,)) and filled by subscript stores
    bcname = None
    for n in f.body:
        if isinstance(n, ast.Assign) and isinstance(n.targets[0], ast.Name) and isinstance(n.value, ast.Call) and ast.unparse(n.value.func) in ('np.zeros', 'numpy.zeros') \
                and ast.unparse(n.value.args[0]).replace(' ', '') in ('(3,)', '3'):
            bcname = n.targets[0].id
    if bcname is None:
        raise AnalysisError(f'{mod.where(f)}: surface condition vector not found')
    bc = Arr(bcname, default=lambda k: X.ZERO)
    fr2 = Frame(mod, 'propagate'); fr2.vars.update({bcname: bc, 'order_l': X.atom('l', 'pos'), 'world_radius': X.atom('R_world', 'pos')})
    for n in f.body:
        if isinstance(n, ast.Assign) and isinstance(n.targets[0], ast.Subscript) and isinstance(n.targets[0].value, ast.Name) and n.targets[0].value.id == bcname:
            it_plain.exec(n, fr2)
    return conv, rows, [bc.get(k) for k in range(3)], (mod, mod.where(f))


# ---------------------------------------------------------------------------------------------- Kelvin closed form from exact solutions
def kelvin_from_exact_solutions(chk, repo, rule, seed, tier, love_refs=True):
    """Homogeneous incompressible sphere, static limit, complex rigidity.  The three regular columns of the repository's fundamental matrix (exact solutions:
    each is shown here to solve the COMPILED solver's SolidStaticIncompressible system with g = 4 pi G rho r / 3) are combined by the solver's tidal surface
    condition; the Love numbers extracted the way find_love_cf does it are compared with the Kelvin closed form
        k_l = 3/(2(l-1)) / (1 + m_l),  h_l = (2l+1) k_l / 3,  l_l = k_l / l,  m_l = (2l^2+4l+3) mu / (l rho g R)
    and with love1d.complex_love_general / effective_rigidity_general (the homogeneous model of C12).  This is the property's closed form as an exact identity
    for the equations, boundary condition and extraction the solver implements; what remains undecided is only that the numerical integration converges to
    the exact solution."""
    from fractions import Fraction as F
    mod = repo.by_path('TidalPy/radial_solver/matrix/fundamental_solid.py')
    fg = need_func(mod, 'fundamental_matrix_generic')
    mo = repo.by_path('TidalPy/RadialSolver/derivatives/odes.pyx')

    def expr_hook(itp, e, fr):
        if isinstance(e, ast.Subscript) and isinstance(e.value, ast.Attribute) and e.value.attr == 'shape':
            return 1
        if isinstance(e, ast.Call) and ast.unparse(e.func) in ('np.ones', 'np.zeros') and e.args and not isinstance(e.args[0], (ast.Tuple, ast.List)) and itp.eval(e.args[0], fr) == 1:
            return X.ONE if e.func.attr == 'ones' else X.ZERO
        return NotImplemented
    it = Interp(repo, hooks={'expr': expr_hook, 'drop_full_slices': True})
    conv, rows, bcv, mp_ = propagate_conventions(repo, Interp(repo, hooks={'drop_full_slices': True}))
    r = X.atom('r', 'pos'); mu = X.atom('mu', 'complex'); rho = X.atom('rho', 'pos'); R = X.atom('R_planet', 'pos')
    Gc = X.lift(it.global_name(mod, 'G')); piv = X.atom('pi', 'pos')
    d = X.Decider(seed=seed + 37, k=2 if tier == 'quick' else 5)
    ml = repo.by_path('TidalPy/RadialSolver/love.pyx'); fl = need_func(ml, 'find_love_cf')
    m1 = repo.by_path('TidalPy/tides/love1d.py')

    def det3(M):
        return (M[0][0] * (M[1][1] * M[2][2] - M[1][2] * M[2][1]) - M[0][1] * (M[1][0] * M[2][2] - M[1][2] * M[2][0]) + M[0][2] * (M[1][0] * M[2][1] - M[1][1] * M[2][0]))
    for lv in ((2, 3, 4) if tier == 'quick' else (2, 3, 4, 5, 6, 8, 10)):
        gex = 4 * piv * Gc * rho / 3 * r
        out = it.call(mod, fg, [r, mu, rho, gex], {'order_l': lv})
        Ysv = [[X.lift(out[0].get((i, j))) for j in range(6)] for i in range(6)]
        # TS72 components of every column through propagate's own conversion
        Yts = [[conv[k][1] * Ysv[conv[k][0]][j] for j in range(6)] for k in range(6)]
        pt = d.points[0]
        regular = []
        for j in range(6):
            expo = None
            for k in range(6):
                if not d.is_zero(Yts[k][j]):
                    expo = pt.fev(r * X.diff(Yts[k][j], 'r') / Yts[k][j]).real; break
            if expo is not None and expo > 0: regular.append(j)
        if len(regular) != 3:
            raise AnalysisError(f'{mod.where(fg)}: expected three columns regular at the centre, found {regular}')
        # (i) each regular column solves the compiled solver's static incompressible system
        P = SM.params(l=lv); P['r'] = r; P['rho'] = rho; P['mu'] = mu; P['fpG'] = 4 * piv * Gc; P['g'] = gex
        dy, yv, fnode = SM.extract_rhs(repo, mo, SM.CLASSES[('solid', True, True)], P, 6)
        A = SM.matrix_from(dy, 6)
        bad = []
        for j in regular:
            for i in range(6):
                acc = X.ZERO
                for k in range(6):
                    acc = acc + A[i][k] * Yts[k][j]
                if not d.equal(X.diff(Yts[i][j], 'r'), acc):
                    bad.append(f'column {j}, component y{i + 1}')
        chk.ob(rule, f'l={lv}: the three regular closed-form solutions (fundamental matrix columns {regular}) solve SolidStaticIncompressible of the compiled solver in a homogeneous sphere', not bad,
               f'not solutions: {bad[:4]}', mo.where(fnode), key=f'{rule}|exact solutions|l={lv}', method='symbolic differentiation + GF(p^2) PIT')
        # (ii) surface condition and extraction
        YR = [[X.subst(Yts[k][j], {'r': R}) for j in regular] for k in range(6)]
        M = [YR[1], YR[3], YR[5]]
        b = [X.ZERO, X.ZERO, X.const(2 * lv + 1) / R]
        Dt = det3(M)
        cs = []
        for j in range(3):
            Mj = [[(b[i] if c == j else M[i][c]) for c in range(3)] for i in range(3)]
            cs.append(det3(Mj) / Dt)
        ysurf = [YR[k][0] * cs[0] + YR[k][1] * cs[1] + YR[k][2] * cs[2] for k in range(6)]
        gR = X.subst(gex, {'r': R})
        outl = Arr('love')
        Interp(repo).call(ml, fl, [outl, Arr('s', default=lambda k: ysurf[k]), gR])
        k_, h_, l_ = outl.store[0], outl.store[1], outl.store[2]
        m_l = X.const(F(2 * lv * lv + 4 * lv + 3, lv)) * mu / (rho * gR * R)
        kref = X.const(F(3, 2 * (lv - 1))) / (1 + m_l)
        ok = d.equal(k_, kref) and d.equal(h_, (2 * lv + 1) * kref / 3) and d.equal(l_, kref / lv)
        chk.ob(rule, f'l={lv}: exact solution + tidal surface condition (y2, y4, y6) = (0, 0, (2l+1)/R) + find_love_cf gives the Kelvin closed form k, h = (2l+1)k/3, l = k/l (complex rigidity)', ok,
               '' if ok else f'k: {d.describe(k_, kref)}', ml.where(fl), key=f'{rule}|kelvin|l={lv}', method='Cramer solve of the surface system + GF(p^2) PIT')
        if love_refs:
            mu0 = X.atom('mu_static', 'pos')
            er = Interp(repo).call(m1, need_func(m1, 'effective_rigidity_general'), [mu0, gR, R, rho], {'order_l': lv})
            kk = Interp(repo).call(m1, need_func(m1, 'complex_love_general'), [1 / mu, mu0, er], {'order_l': lv})
            ok = d.equal(k_, kk)
            chk.ob(rule, f'l={lv}: the same k equals love1d.complex_love_general(J = 1/mu, mu_static, effective_rigidity_general(...)) (the homogeneous model used for global dissipation)', ok,
                   '' if ok else d.describe(k_, kk), m1.where(need_func(m1, 'complex_love_general')), key=f'{rule}|love1d|l={lv}', method='GF(p^2) PIT')
