"""Sibling implementation: the interpreted (numba) radial solver package TidalPy/radial_solver/ implements the same physics as the compiled
TidalPy/RadialSolver/ the properties are anchored in.  Its kernels are held to the same references (ts72 oracle, flow-invariance, continuity),
which (i) cross-checks our oracle transcription against a second, independently written implementation, and (ii) covers edits to the part of
the solver family that *can* be exercised in this sandbox (no Cython here)."""
from __future__ import annotations
import ast
from ..core import expr as X
from ..core.interp import Interp, Arr
from ..core.report import AnalysisError
from ..oracles import ts72
from . import solver_model as SM
from .common import need_func

DERIV_FILES = {(False, False): 'radial_derivatives_dynamic.py', (False, True): 'radial_derivatives_dynamic_incomp.py',
               (True, False): 'radial_derivatives_static.py', (True, True): 'radial_derivatives_static_incomp.py'}
FUNCS = {'solid': 'radial_derivatives_solid_general', 'liquid': 'radial_derivatives_liquid_general'}


def legacy_rhs(repo, it, mod, f, P, nys, G):
    yre = [X.atom(f'yre{k}') for k in range(nys)]; yim = [X.atom(f'yim{k}') for k in range(nys)]
    yv = Arr('radial_functions', default=lambda k: (yre[k // 2] if k % 2 == 0 else yim[k // 2]))
    byname = {'radius': P['r'], 'radial_functions': yv, 'shear_modulus': P['mu'], 'bulk_modulus': P['K'], 'density': P['rho'], 'gravity': P['g'],
              'frequency': P['w'], 'order_l': P['l'], 'G_to_use': G}
    kw = {}
    for a in f.args.args:
        if a.arg not in byname:
            raise AnalysisError(f'{mod.where(f)}: unexpected parameter {a.arg}')
        kw[a.arg] = byname[a.arg]
    out = it.call(mod, f, [], kw)
    if not isinstance(out, Arr):
        raise AnalysisError(f'{mod.where(f)}: does not return an array')
    written = sorted(out.store)
    if written != list(range(2 * nys)):
        raise AnalysisError(f'{mod.where(f)}: writes dy slots {written}, expected 0..{2 * nys - 1}')
    dy = []
    for k in range(nys):
        a, b = out.store[2 * k], out.store[2 * k + 1]
        if a.op == 'fn' and a.val == 'real' and b.op == 'fn' and b.val == 'imag' and a.args[0] is b.args[0]:
            dy.append(a.args[0])
        else:
            dy.append(a + X.I * b)
    y = [yre[k] + X.I * yim[k] for k in range(nys)]
    return dy, y


def derivatives(chk, repo, d, rule):
    """every legacy derivative kernel == the reference system of its assumption set, entry by entry"""
    it = Interp(repo)
    G = X.atom('G_newton', 'pos')
    n_ent = 0
    for (static, incomp), fname in DERIV_FILES.items():
        mod = repo.by_path('TidalPy/radial_solver/numerical/derivatives/' + fname)
        pi_v = it.global_name(mod, 'pi')
        P = SM.params()
        P['fpG'] = 4 * X.lift(pi_v) * G
        for kind in ('solid', 'liquid'):
            f = need_func(mod, FUNCS[kind])
            names = ts72.LAYOUT[(kind, static)]
            nys = len(names)
            dy, y = legacy_rhs(repo, it, mod, f, P, nys, G)
            A = SM.matrix_from(dy, nys)
            where = mod.where(f)
            lin_bad = []
            for i in range(nys):
                s = X.ZERO
                for j in range(nys):
                    s = s + A[i][j] * y[j]
                if not d.equal(dy[i], s):
                    lin_bad.append(names[i])
            tag = f'legacy {fname[:-3]}.{FUNCS[kind]}'
            chk.ob(rule, f'{tag}: right-hand side is linear and homogeneous in the y vector', not lin_bad, f'non-linear rows: d{lin_bad}', where, method='GF(p^2) PIT')
            yref = [X.atom(f'Y{k}', 'complex') for k in range(nys)]
            ref = ts72.reference_rhs(kind, static, incomp, yref, P)
            for i in range(nys):
                for j in range(nys):
                    sub = {f'Y{k}': (X.ONE if k == j else X.ZERO) for k in range(nys)}
                    rij = X.subst(ref[i], sub)
                    ok = d.equal(A[i][j], rij)
                    n_ent += 1
                    chk.ob(rule, f'{tag}: coefficient d{names[i]}/dr <- {names[j]}', ok, '' if ok else f'code {X.show(A[i][j])[:70]} vs reference: {d.describe(A[i][j], rij)}', where,
                           key=f'{rule}|{tag}|d{names[i]}|{names[j]}', method='GF(p^2) PIT')
            chk.note_analysed('legacy kernels', f'{tag}: {nys}x{nys} matrix')
    return n_ent


def dispatch(chk, repo, d, rule):
    """find_ode + the interpolating wrappers of odes.py: for each (solid?, static?, incompressible?) the ODE returned, called the way the integrator calls it
    (radius, y, *additional_args), evaluates the kernel of exactly that assumption set with the properties interpolated from the arrays of the same name."""
    from ..core.interp import Builtin, FuncRef
    mi = repo.by_path('TidalPy/radial_solver/numerical/derivatives/__init__.py')
    f_find = need_func(mi, 'find_ode')
    G = X.atom('G_newton', 'pos')
    arrays = {k: Arr(k) for k in ('radius_array', 'shear_modulus_array', 'bulk_modulus_array', 'density_array', 'gravity_array')}
    P = SM.params()
    interp_val = {id(arrays['shear_modulus_array']): P['mu'], id(arrays['bulk_modulus_array']): P['K'], id(arrays['density_array']): P['rho'], id(arrays['gravity_array']): P['g']}

    def call_hook(itp, f, args, kwargs, e, fr):
        if isinstance(f, Builtin) and f.name.split('.')[-1] == 'interp':
            if len(args) != 3 or args[0] is not P['r'] or args[1] is not arrays['radius_array'] or id(args[2]) not in interp_val:
                raise AnalysisError(f'{fr.mod.where(e)}: np.interp is not (radius, radius_array, <property array>)')
            return interp_val[id(args[2])]
        return NotImplemented
    it = Interp(repo, hooks={'call': call_hook})
    it0 = Interp(repo)
    for kind in ('solid', 'liquid'):
        for static in (False, True):
            for incomp in (False, True):
                nys = len(ts72.LAYOUT[(kind, static)])
                lab = f'legacy find_ode(is_solid={kind == "solid"}, is_static={static}, is_incompressible={incomp})'
                r = it.call(mi, f_find, [kind == 'solid', static, incomp, arrays['radius_array'], arrays['shear_modulus_array'], arrays['bulk_modulus_array'],
                                         arrays['density_array'], arrays['gravity_array'], P['w']], {'order_l': P['l'], 'G_to_use': G})
                if not (isinstance(r, tuple) and len(r) == 2 and isinstance(r[0], FuncRef) and isinstance(r[1], tuple)):
                    raise AnalysisError(f'{mi.where(f_find)}: find_ode does not return (function, argument tuple)')
                ode, extra = r
                yre = [X.atom(f'yre{k}') for k in range(nys)]; yim = [X.atom(f'yim{k}') for k in range(nys)]
                yv = Arr('y_vector', default=lambda k: (yre[k // 2] if k % 2 == 0 else yim[k // 2]))
                where = ode.mod.where(ode.node)
                try:
                    out = it.call(ode.mod, ode.node, [P['r'], yv] + list(extra))
                except AnalysisError as ex:
                    chk.ob(rule, f'{lab}: returned ODE accepts (radius, y, *additional_args)', False, str(ex)[:200], where, method='interpreted dispatch'); continue
                mk = repo.by_path('TidalPy/radial_solver/numerical/derivatives/' + DERIV_FILES[(static, incomp)])
                fk = need_func(mk, FUNCS[kind])
                yv2 = Arr('radial_functions', default=lambda k: (yre[k // 2] if k % 2 == 0 else yim[k // 2]))
                byname = {'radius': P['r'], 'radial_functions': yv2, 'shear_modulus': P['mu'], 'bulk_modulus': P['K'], 'density': P['rho'], 'gravity': P['g'],
                          'frequency': P['w'], 'order_l': P['l'], 'G_to_use': G}
                ref = it0.call(mk, fk, [], {a.arg: byname[a.arg] for a in fk.args.args})
                ok = isinstance(out, Arr) and sorted(out.store) == sorted(ref.store) and all(d.equal(out.store[k], ref.store[k]) for k in ref.store)
                chk.ob(rule, f'{lab}: the ODE handed to the integrator == {DERIV_FILES[(static, incomp)][:-3]}.{FUNCS[kind]} on the interpolated (mu, K, rho, g) and the given frequency, degree, G',
                       ok, 'derivative vector differs (wrong kernel, or arguments bound to the wrong parameters)', where, method='interpreted dispatch + GF(p^2) PIT')


# ---------------------------------------------------------------------------------------------- starting conditions
INIT_FILES = {(False, False): 'initial_solution_dynamic.py', (False, True): 'initial_solution_dynamic_incomp.py',
              (True, False): 'initial_solution_static.py', (True, True): 'initial_solution_static_incomp.py'}
# (function, kind, number of solutions) per file; functions whose body only raises are reported as not implemented
INIT_FUNCS = [('solid_guess_kamata', 'solid', 3), ('solid_guess_takeuchi', 'solid', 3), ('liquid_guess_kamata', 'liquid', 2), ('liquid_guess_takeuchi', 'liquid', 2),
              ('liquid_guess_saito', 'liquid', 1)]


def flow_invariant(d, Y, A, nys, nsol, rvar='r'):
    """rank[Y | A Y - dY/dr] == rank Y == nsol at every sample point; returns (ok, detail)"""
    Mx = []
    for i in range(nys):
        row = []
        for s in range(nsol):
            acc = X.ZERO
            for j in range(nys):
                acc = acc + A[i][j] * Y[j][s]
            row.append(acc - X.diff(Y[i][s], rvar))
        Mx.append(row)
    for pt in d.points:
        try:
            Yv = [[pt.ev(Y[i][s]) for s in range(nsol)] for i in range(nys)]
            Mv = [[pt.ev(Mx[i][s]) for s in range(nsol)] for i in range(nys)]
        except X.Resample:
            continue
        rY = X.rank_gf(Yv)
        rYM = X.rank_gf([Yv[i] + Mv[i] for i in range(nys)])
        if rY != nsol:
            return False, f'the {nsol} starting vectors are linearly dependent (rank {rY})'
        if rYM != rY:
            offenders = [s for s in range(nsol) if X.rank_gf([Yv[i] + [Mv[i][s]] for i in range(nys)]) != rY]
            res = max(d.residual(Mx[i][s])[0] for i in range(nys) for s in offenders) if offenders else 0
            return False, (f'rank[Y | A Y - dY/dr] = {rYM} > rank Y = {rY}: A*Y_s - dY_s/dr leaves the span of the starting vectors for solution slot(s) {offenders} '
                           f'(float residual up to {res:.3g})')
    return True, ''


def starting(chk, repo, rule, seed, npts):
    """legacy starting-condition functions: span flow-invariance under the legacy derivative kernel of the same assumption set"""
    from ..core.interp import FuncRef, RaiseSignal
    from .c04 import install_rules
    lsym = X.atom('l', 'pos')
    install_rules(lsym)
    G = X.atom('G', 'pos')

    def call_hook(itp, f, args, kwargs, e, fr):
        if isinstance(f, FuncRef):
            nm = f.node.name
            if nm == 'sqrt_neg':
                return X.sqrt(X.lift(args[0]))
            if nm in ('z_calc', 'z_calc_general'):
                l = kwargs.get('order_l', args[1] if len(args) > 1 else 2)
                return X.fn('zfun', X.lift(args[0]), X.lift(l))
            if nm in ('takeuchi_phi_psi', 'takeuchi_phi_psi_general'):
                u = X.lift(args[0]); l = X.lift(kwargs.get('order_l', args[1] if len(args) > 1 else 2))
                if nm.endswith('general'):
                    u = u * u           # the general variant takes z, not z^2
                phi0 = X.fn('phi0', u, l); phi1 = X.fn('phi1', u, l)
                return (phi0, phi1, 2 * (2 * l + 3) / u * (1 - phi0))
        return NotImplemented
    it = Interp(repo, hooks={'call': call_hook})
    it0 = Interp(repo)
    atoms = {'radius': X.atom('r', 'pos'), 'shear_modulus': X.atom('mu', 'complex'), 'bulk_modulus': X.atom('K', 'pos'), 'density': X.atom('rho', 'pos'),
             'frequency': X.atom('w', 'pos'), 'order_l': lsym, 'G_to_use': G}
    n_done = 0
    for (static, incomp), fname in INIT_FILES.items():
        mod = repo.by_path('TidalPy/radial_solver/numerical/initial/' + fname)
        mk = repo.by_path('TidalPy/radial_solver/numerical/derivatives/' + DERIV_FILES[(static, incomp)])
        pi_v = X.lift(it.global_name(mk, 'pi'))
        for (fn, kind, nsol) in INIT_FUNCS:
            f = mod.defs.get(fn)
            if not isinstance(f, ast.FunctionDef):
                continue
            tag = f'legacy {fname[:-3]}.{fn}'
            where = mod.where(f)
            kw = {}
            for a in f.args.args:
                if a.arg not in atoms:
                    raise AnalysisError(f'{where}: unexpected parameter {a.arg}')
                kw[a.arg] = atoms[a.arg]
            try:
                out = it.call(mod, f, [], kw)
            except RaiseSignal:
                chk.note_analysed('legacy starting functions not implemented (raise)', tag); continue
            names = ts72.LAYOUT[(kind, static)]
            nys = len(names)
            if not isinstance(out, Arr):
                raise AnalysisError(f'{where}: does not return an array')
            try:
                Y = [[out.store[(s, i)] for s in range(nsol)] for i in range(nys)]
            except KeyError as ex:
                chk.ob(rule, f'{tag}: writes the {nsol} x {nys} block of starting values', False, f'element {ex} never written', where); continue
            extra = sorted(k for k in out.store if not (isinstance(k, tuple) and k[0] < nsol and k[1] < nys))
            P = SM.params(); P['l'] = lsym; P['fpG'] = 4 * pi_v * G
            P['g'] = 4 * pi_v * G * atoms['density'] / 3 * atoms['radius']
            fk = need_func(mk, FUNCS[kind])
            dy, yv = legacy_rhs(repo, it0, mk, fk, P, nys, G)
            A = SM.matrix_from(dy, nys)
            d = X.Decider(seed=seed + 23, k=npts)
            ok, detail = flow_invariant(d, Y, A, nys, nsol)
            chk.ob(rule, f'{tag}: span of the {nsol} starting vectors is invariant under the {DERIV_FILES[(static, incomp)][:-3]} system of a homogeneous sphere (rank[Y | A Y - Y\'] = rank Y)',
                   ok and not extra, detail + (f' extra elements written: {extra[:4]}' if extra else ''), where, key=f'{rule}|{tag}', method=f'exact rank over GF(p^2) at {len(d.points)} points')
            n_done += 1
            chk.note_analysed('legacy starting functions', tag)
    return n_done


def helper_series(chk, repo, rule, seed):
    """legacy z_calc (downward continued-fraction recursion, unrolled for concrete degree) and takeuchi_phi_psi (series) against the Riccati / Bessel series"""
    from math import factorial
    from .c04 import bessel_S, series_div
    mod = repo.by_path('TidalPy/radial_solver/numerical/initial/functions.py')
    fz = need_func(mod, 'z_calc'); fp = need_func(mod, 'takeuchi_phi_psi')
    it = Interp(repo)
    u = X.atom('u')
    d0 = X.Decider(seed=seed + 29, k=3, pins={'u': 0})
    N = 4
    for lv in (2, 3, 5):
        depth = 6
        z = it.call(mod, fz, [u], {'order_l': lv, 'init_l': lv + depth, 'raise_l_error': True})
        l = X.const(lv)

        def z_series(lnode):
            S0 = bessel_S(lnode, N); S1 = bessel_S(lnode + 1, N)
            q = series_div(S1, S0, N)
            return [X.ZERO] + [q[k] / (2 * lnode + 3) for k in range(N)]
        oracle = z_series(l); below = z_series(l - 1)
        cur = z; bad = []; is_below = True
        for k in range(N + 1):
            coef = cur / factorial(k)
            if not d0.equal(coef, oracle[k]):
                bad.append(f'x^{2 * k}: code {d0.residual(coef)[0]:.6g} vs series {d0.residual(oracle[k])[0]:.6g}')
            if not d0.equal(coef, below[k]):
                is_below = False
            cur = X.diff(cur, 'u')
        hint = ' -- the value returned is z_(l-1)(x) = x j_l(x)/j_(l-1)(x): the recursion runs one step too far' if (bad and is_below) else ''
        chk.ob(rule, f'legacy z_calc(x^2, order_l={lv}) == x j_(l+1)(x)/j_l(x) through x^{2 * N} (recursion started {depth} degrees up)', not bad, '; '.join(bad[:3]) + hint, mod.where(fz),
               key=f'{rule}|legacy z_calc|l={lv}', method='unrolled recursion, pinned GF(p^2) PIT on Taylor coefficients')
    # phi, phi_{l+1}, psi: the legacy series are written through z^4
    lsym = X.atom('l', 'pos')
    out = it.call(mod, fp, [u], {'order_l': lsym})
    if not (isinstance(out, tuple) and len(out) == 3):
        raise AnalysisError(f'{mod.where(fp)}: takeuchi_phi_psi does not return three values')
    N2 = 2
    phi_or = bessel_S(lsym, N2); phi1_or = bessel_S(lsym + 1, N2)
    phi_long = bessel_S(lsym, N2 + 1)
    psi_or = [-(2 * (2 * lsym + 3)) * phi_long[k + 1] for k in range(N2 + 1)]
    for nm, got, orc in (('phi_l', out[0], phi_or), ('phi_(l+1)', out[1], phi1_or), ('psi_l', out[2], psi_or)):
        cur = got; bad = []
        for k in range(N2 + 1):
            coef = cur / factorial(k)
            if not d0.equal(coef, orc[k]):
                bad.append(f'z^{2 * k}')
            cur = X.diff(cur, 'u')
        if not d0.is_zero(cur):
            bad.append(f'terms beyond z^{2 * N2} present')
        chk.ob(rule, f'legacy takeuchi_phi_psi: {nm} series == Bessel series through z^{2 * N2}, symbolic l', not bad, 'coefficients differ at ' + ', '.join(bad), mod.where(fp),
               key=f'{rule}|legacy takeuchi_phi_psi|{nm}', method='pinned GF(p^2) PIT on Taylor coefficients')
