"""C12 — homogeneous-body Love number matches the closed form (formula level)."""
from __future__ import annotations
from ..core import expr as X
from ..core.interp import Interp, Opaque
from ..frontend.pyfront import Repo

LEVEL = 'proof'
TECHNIQUE = 'abstract interpretation of the helper bodies into rational functions + polynomial identity testing against the closed form; callers interpreted with the callee inlined (semantic call-site binding); the public entry point interpreted end to end with scalar and with array inputs (arrays as mutable cells: aliasing and in-place updates are followed) up to l = 5'
LEVEL_TEXT = ('Every obligation is an algebraic identity between the value the source computes (extracted by abstract interpretation, '
              'nothing executed) and the Kelvin closed form, for l = 2..7 and symbolic mu, g, R, rho, J; decided exactly in a finite field. '
              'The agreement with the layered solver is decided at formula level (R12.6): the exact homogeneous solution of the solver\'s static incompressible equations, with its surface condition and Love extraction, equals complex_love_general for l = 2..4 (thorough: up to 10).')
LEVEL_NOTE = ('Trusted: the ast front-end, the interpreter, real/complex algebra without rounding. Misses a false identity with probability < 1e-15 per '
              'sample point. Numerical agreement with the radial solver output is not decided (needs integration).')
EXPLANATION = ('R12.1 general helpers == closed form for l=2..7; R12.2 degree-2 helpers == general helpers at l=2; '
               'R12.3 callers (TidesBase wrappers, collapse_modes) interpreted with callee inlined must yield the closed-form Love number, '
               'which decides argument order at the call sites; R12.4 ragged multi-frequency collapse; R12.5 no in-place update of arguments; R12.6 exact layered-solver solution == complex_love_general; R12.7 the value the public entry point reports under love_number_by_orderl; R12.9 the object-oriented path (LayeredTides on a one-layer world) uses the radius, density and gravity as they are now.')
EXPLANATION += ' R12.8 the array twin: every interpreted call repeated with array arguments (mutable cells) returns the scalar values element for element and leaves the arguments intact.'


EXPLANATION += ' R12.10 no integer-literal power (negative, or >= 3) is taken of a quantity that stays an integer when the arguments are integers (numba types arithmetic by its arguments: 0 for a negative power, silent int64 wrap-around for a large one).'
TECHNIQUE += '; syntactic type flow in numba-compiled kernels (integer-literal powers of integer-typed arguments)'

def run(chk):
    repo = Repo(chk.repo)
    # R12.10: integer arguments are values like any other; numba keeps them integers until they meet a float (an integer-literal power is taken first)
    from .common import int_power_lint
    int_power_lint(chk, repo, 'R12.10', ['TidalPy/tides/love1d.py', 'TidalPy/toolbox/quick_tides.py'])
    m = repo.by_path('TidalPy/tides/love1d.py')
    it = Interp(repo)
    mu = X.atom('mu', 'pos'); g = X.atom('g', 'pos'); R = X.atom('R', 'pos'); rho = X.atom('rho', 'pos')
    J = X.atom('J', 'complex'); er = X.atom('eff_rig', 'pos')
    d = X.Decider(seed=chk.seed, k=3 if chk.tier == 'quick' else 16)
    need = ['complex_love', 'complex_love_general', 'static_love', 'static_love_general', 'effective_rigidity', 'effective_rigidity_general']
    for n in need:
        if n not in m.defs:
            from ..core.report import AnalysisError
            raise AnalysisError(f'anchor function {n} vanished from love1d.py')
        chk.note_analysed('functions', f'love1d.{n}')

    def eq(rule, inst, got, ref, where):
        ok = d.equal(got, ref)
        chk.ob(rule, inst, ok, '' if ok else f'source value differs from reference: {d.describe(got, ref)}', where, method='GF(p^2) PIT')

    from .common import ArrayTwin
    twin = ArrayTwin(chk, 'R12.8', it, d)

    def m_l(l):
        return X.const(2 * l * l + 4 * l + 3) / X.const(l) * mu / (rho * g * R)

    for l in range(2, 8):
        f = m.defs['effective_rigidity_general']
        eq('R12.1', f'effective_rigidity_general l={l}', it.call(m, f, [mu, g, R, rho], {'order_l': l}), m_l(l),
           m.where(f))
        f = m.defs['complex_love_general']
        ref = X.const(3) / X.const(2 * (l - 1)) / (1 + er / (J * mu))
        eq('R12.1', f'complex_love_general l={l}', it.call(m, f, [J, mu, er], {'order_l': l}), ref, m.where(f))
        f = m.defs['static_love_general']
        eq('R12.1', f'static_love_general l={l}', it.call(m, f, [er], {'order_l': l}), X.const(3) / X.const(2 * (l - 1)) / (1 + er), m.where(f))
    # defaults: order_l defaults to 2
    eq('R12.2', 'effective_rigidity == general(l=2, default)', it.call(m, m.defs['effective_rigidity'], [mu, g, R, rho]),
       it.call(m, m.defs['effective_rigidity_general'], [mu, g, R, rho]), m.where(m.defs['effective_rigidity']))
    eq('R12.2', 'complex_love == general(l=2, default)', it.call(m, m.defs['complex_love'], [J, mu, er]),
       it.call(m, m.defs['complex_love_general'], [J, mu, er]), m.where(m.defs['complex_love']))
    eq('R12.2', 'static_love == general(l=2, default)', it.call(m, m.defs['static_love'], [er]),
       it.call(m, m.defs['static_love_general'], [er]), m.where(m.defs['static_love']))
    eq('R12.2', 'effective_rigidity == closed form l=2', it.call(m, m.defs['effective_rigidity'], [mu, g, R, rho]), m_l(2),
       m.where(m.defs['effective_rigidity']))

    # R12.3 call sites
    import ast
    mb = repo.by_path('TidalPy/tides/methods/base.py')
    cls = mb.defs.get('TidesBase')
    if cls is None:
        from ..core.report import AnalysisError
        raise AnalysisError('TidesBase vanished')
    meth = {s.name: s for s in cls.body if isinstance(s, ast.FunctionDef)}
    for l in (2, 3, 5):
        f = meth['calculate_effective_rigidity']
        eq('R12.3', f'TidesBase.calculate_effective_rigidity l={l} == helper as written', it.call(mb, f, [mu, g, R, rho, l]),
           it.call(m, m.defs['effective_rigidity_general'], [mu, g, R, rho, l]), mb.where(f))
        f = meth['calculate_complex_love_number']
        ref = X.const(3) / X.const(2 * (l - 1)) / (1 + er / (J * mu))
        eq('R12.3', f'TidesBase.calculate_complex_love_number l={l}', it.call(mb, f, [mu, J, er, l]), ref, mb.where(f))
    chk.note_analysed('functions', 'TidesBase.calculate_effective_rigidity'); chk.note_analysed('functions', 'TidesBase.calculate_complex_love_number')

    # collapse_modes: interpret the whole function on a symbolic one-frequency, multi-l input
    mm = repo.by_path('TidalPy/tides/modes/mode_manipulation.py')
    f = mm.defs['collapse_modes']
    scale = X.atom('tidal_scale', 'pos'); hm = X.atom('host_mass', 'pos'); sus = X.atom('suscept', 'pos')
    for lmax in (2, 4):
        terms = {('n', 'o'): {l: tuple(X.atom(f't{l}_{k}') for k in range(4)) for l in range(2, lmax + 1)}}
        comp = {('n', 'o'): J}
        out = it.call(mm, f, [g, R, rho, mu, scale, hm, sus, comp, terms, lmax], {'cpl_ctl_method': False})
        love = out[4]
        for l in range(2, lmax + 1):
            k = X.const(3) / X.const(2 * (l - 1)) / (1 + it.call(m, m.defs['effective_rigidity_general'], [mu, g, R, rho, l]) / (J * mu))
            ref = X.fn('real', k) + X.I * X.fn('imag', k) * scale
            eq('R12.3', f'collapse_modes love_number_by_orderl[{l}] (max_l={lmax})', love[l], ref, mm.where(f))
    # R12.4 ragged multi-frequency input: signatures that carry different sets of degrees (as the obliquity-off tables produce: l=2 has m in {0,2},
    # l=3 has m in {1,3}); the Love number applied to the term of (signature, l) must be k_l(J(signature)) - for every channel and in the averages
    sigs = {('n', 'o'): (2,), ('2n', 'o'): (2, 3), ('n', '2o'): (3,), ('3n', '2o'): (2, 4), ('n', '3o'): (4, 3), ('2n', '3o'): (2, 3, 4)}
    for order in (list(sigs), list(reversed(list(sigs)))):
        terms = {sg: {l: tuple(X.atom(f't_{sg[0]}{sg[1]}_{l}_{k}') for k in range(4)) for l in sigs[sg]} for sg in order}
        comp = {sg: X.atom(f'J_{sg[0]}{sg[1]}', 'complex') for sg in order}
        out = it.call(mm, f, [g, R, rho, mu, scale, hm, sus, comp, terms, 4], {'cpl_ctl_method': False})
        ref = [X.ZERO] * 4; by_l = {}
        for sg in order:
            for l in sigs[sg]:
                k = X.const(3) / X.const(2 * (l - 1)) / (1 + m_l(l) / (comp[sg] * mu))
                ks = X.fn('real', k) + X.I * X.fn('imag', k) * scale
                by_l.setdefault(l, []).append(ks)
                negimk = -(X.fn('imag', k) * scale)
                ref[0] = ref[0] + terms[sg][l][0] * negimk * sus
                for c in (1, 2, 3):
                    ref[c] = ref[c] + terms[sg][l][c] * negimk / hm * sus
        tag_ = 'insertion order' if order[0] == ('n', 'o') else 'reversed order'
        for c, nm in enumerate(('tidal_heating', 'dUdM', 'dUdw', 'dUdO')):
            eq('R12.4', f'collapse_modes {nm}: each (signature, l) term is weighted by -Im k_l(J(signature)) with k_l the closed form (6 signatures with different degree sets, {tag_})',
               out[c], ref[c], mm.where(f))
        for l, ks in by_l.items():
            avg = ks[0]
            for k_ in ks[1:]:
                avg = avg + k_
            eq('R12.4', f'collapse_modes love_number_by_orderl[{l}] == mean over the signatures carrying degree {l} of k_{l}(J(signature)) ({tag_})', out[4][l], avg / len(ks), mm.where(f))
    from .common import inplace_lint
    inplace_lint(chk, repo, 'R12.5', ['TidalPy/tides/love1d.py', 'TidalPy/tides/modes/mode_manipulation.py'])
    chk.floor('R12.5', 2)
    chk.floor('R12.4', 14)
    twin.finish(floor=6)
    from . import c13_layered
    c13_layered.geometry_history(chk, repo, 'R12.9')
    chk.floor('R12.9', 4)
    chk.note_analysed('functions', 'mode_manipulation.collapse_modes')
    # R12.6 agreement with the layered solver's equations: exact homogeneous solution + surface condition + extraction == complex_love_general
    from . import legacy_solver
    legacy_solver.kelvin_from_exact_solutions(chk, repo, 'R12.6', chk.seed, chk.tier)
    chk.floor('R12.6', 9)
    entry_point_love(chk, repo)
    chk.floor('R12.1', 18); chk.floor('R12.2', 4); chk.floor('R12.3', 10)
    chk.assume('mu, g, R, rho > 0; compliance J complex; algebra over the reals/complex numbers (no rounding)')


def entry_point_love(chk, repo):
    """R12.7: what the public entry point reports under 'love_number_by_orderl' (observe_at of the property): for a spin-synchronous call every mode of degree l shares one
    forcing frequency, hence one compliance J, and the reported value must be the closed form k_l(J) -- for l = 2 and 3, Maxwell rheology, scalar and array mode."""
    import ast as _ast
    from fractions import Fraction as Fr
    from ..core.interp import FuncRef, Opaque
    mq = repo.by_path('TidalPy/toolbox/quick_tides.py')
    f = mq.defs.get('quick_tidal_dissipation')
    if not isinstance(f, _ast.FunctionDef):
        raise AnalysisError('quick_tidal_dissipation vanished')

    def call_hook(itp, fn_, args, kwargs, e, fr):
        if isinstance(fn_, FuncRef) and fn_.node.name == 'compliance_dict_helper':
            freqs = args[0] if args else kwargs.get('tidal_frequencies')
            return {sig: X.atom('J_sync', 'complex') for sig in freqs}          # synchronous: every non-zero mode has |w| = n
        return NotImplemented

    def branch_hook(itp, st, v, fr):
        if isinstance(v, Opaque) and v.name.startswith('tolerance test'):
            return None
        if isinstance(v, Opaque) and v.name == 'isinstance':
            return False    # isinstance(x, np.ndarray) on a symbolic scalar: the scalar path (array inputs have their own pass)
        return None         # everything else: sign domain, then forked, else the analysis fails closed
    M = X.atom('M_host', 'pos'); m = X.atom('m_target', 'pos'); R = X.atom('R', 'pos'); g = X.atom('g', 'pos'); rho = X.atom('rho', 'pos'); mu = X.atom('mu', 'pos')
    J = X.atom('J_sync', 'complex')
    d = X.Decider(seed=chk.seed + 5, k=2, positive=[M + m])
    for arrays in (False, True):
        it = Interp(repo, hooks={'call': call_hook, 'branch': branch_hook}, max_depth=12)
        it.array_mode = arrays
        for lmax in ((2, 3, 5) if arrays else (2, 3)):
            out = it.call(mq, f, [], dict(host_mass=M, target_radius=R, target_mass=m, target_gravity=g, target_density=rho, target_moi=X.atom('C', 'pos'), viscosity=X.atom('eta', 'pos'),
                                          shear_modulus=mu, rheology='Maxwell', eccentricity=X.atom('e', 'pos'), orbital_frequency=X.atom('n', 'pos'), max_tidal_order_l=lmax,
                                          eccentricity_truncation_lvl=4))
            love = out.get('love_number_by_orderl') if isinstance(out, dict) else None
            bad = []
            for l in range(2, lmax + 1):
                got = love.get(l) if isinstance(love, dict) else None
                got = getattr(got, 'v', got) if type(got).__name__ == 'ArrBox' else got
                m_l = X.const(Fr(2 * l * l + 4 * l + 3, l)) * mu / (rho * g * R)
                ref = X.const(Fr(3, 2 * (l - 1))) / (1 + m_l / (J * mu))
                if not isinstance(got, X.Node) or not d.equal(got, ref):
                    bad.append(f'love_number_by_orderl[{l}] is not 3/(2(l-1)) / (1 + m_l / (J mu))')
            chk.ob('R12.7', f'quick_tidal_dissipation (spin-synchronous, l_max = {lmax}{", array inputs" if arrays else ""}): the reported love_number_by_orderl is the closed form at the one compliance the modes share',
                   not bad, '; '.join(bad), mq.where(f), key=f'R12.7|lmax={lmax}|arrays={arrays}', method='whole-function interpretation (compliance stubbed) + GF(p^2) PIT')
    # the dual-body entry point reports the same quantity once per world: each must be the closed form with THAT world's density, gravity, radius, rigidity and compliance
    fd = mq.defs.get('quick_dual_body_tidal_dissipation')
    if isinstance(fd, _ast.FunctionDef):
        def call_hook2(itp, fn_, args, kwargs, e, fr):
            if isinstance(fn_, FuncRef) and fn_.node.name == 'compliance_dict_helper':
                freqs = args[0] if args else kwargs.get('tidal_frequencies')
                ci = args[2] if len(args) > 2 else kwargs.get('complex_compliance_input_0', kwargs.get('input_tuple'))
                eta_ = ci[1] if isinstance(ci, (tuple, list)) and len(ci) > 1 else None
                eta_ = getattr(eta_, 'v', eta_)
                nm_ = eta_.val[0] if isinstance(eta_, X.Node) and eta_.op == 'atom' else 'unknown'
                return {sig: X.atom('J_of_' + nm_, 'complex') for sig in freqs}
            return NotImplemented
        W = [dict(R=X.atom(f'R{i}', 'pos'), m=X.atom(f'M{i}', 'pos'), g=X.atom(f'g{i}', 'pos'), rho=X.atom(f'rho{i}', 'pos'), C=X.atom(f'C{i}', 'pos'), eta=X.atom(f'eta{i}', 'pos'),
                  mu=X.atom(f'mu{i}', 'pos')) for i in (0, 1)]
        d2 = X.Decider(seed=chk.seed + 6, k=2, positive=[W[0]['m'] + W[1]['m']])
        for arrays in (False, True):
            it = Interp(repo, hooks={'call': call_hook2, 'branch': branch_hook}, max_depth=14)
            it.array_mode = arrays
            for lmax in (2, 3):
                out = it.call(mq, fd, [], dict(radii=(W[0]['R'], W[1]['R']), masses=(W[0]['m'], W[1]['m']), gravities=(W[0]['g'], W[1]['g']), densities=(W[0]['rho'], W[1]['rho']),
                                               mois=(W[0]['C'], W[1]['C']), viscosities=(W[0]['eta'], W[1]['eta']), shear_moduli=(W[0]['mu'], W[1]['mu']), rheologies=('Maxwell', 'Maxwell'),
                                               eccentricity=X.atom('e', 'pos'), orbital_frequency=X.atom('n', 'pos'), max_tidal_order_l=lmax, eccentricity_truncation_lvl=4))
                bad = []
                for i, wname in enumerate(('host', 'secondary')):
                    love = out.get(wname, {}).get('love_number_by_orderl') if isinstance(out, dict) and isinstance(out.get(wname), dict) else None
                    w = W[i]; Jw = X.atom(f'J_of_eta{i}', 'complex')
                    for l in range(2, lmax + 1):
                        got = love.get(l) if isinstance(love, dict) else None
                        got = getattr(got, 'v', got) if type(got).__name__ == 'ArrBox' else got
                        m_l = X.const(Fr(2 * l * l + 4 * l + 3, l)) * w['mu'] / (w['rho'] * w['g'] * w['R'])
                        ref = X.const(Fr(3, 2 * (l - 1))) / (1 + m_l / (Jw * w['mu']))
                        if not isinstance(got, X.Node) or not d2.equal(got, ref):
                            bad.append(f"['{wname}']['love_number_by_orderl'][{l}] is not the closed form with that world's own rho, g, R, mu, J" + (': ' + d2.describe(got, ref) if isinstance(got, X.Node) else ''))
                chk.ob('R12.7', f'quick_dual_body_tidal_dissipation (both worlds spin-synchronous, l_max = {lmax}{", array inputs" if arrays else ""}): each world reports the closed form with its own density, gravity, radius, rigidity and compliance',
                       not bad, '; '.join(bad[:2]), mq.where(fd), key=f'R12.7|dual|lmax={lmax}|arrays={arrays}', method='whole-function interpretation (compliance stubbed per world) + GF(p^2) PIT')
    chk.floor('R12.7', 9)
