"""C07 — rheology models return the exact, passive complex modulus of their law (formula level)."""
from __future__ import annotations
import ast, os
from ..core import expr as X, ratfunc as R
from ..core.interp import Interp, Obj, Arr, FuncRef, Builtin, concrete
from ..core.report import AnalysisError
from ..frontend.pyfront import Repo
from .common import eps_mask, need_class, need_func, methods, make_eq

LEVEL = 'other'
TECHNIQUE = 'abstract interpretation of each rheology class (change_args then _implementation, guard branches selected by region) into rational/power-law expressions; modulus * published compliance == 1 by polynomial identity testing; guard values compared with rational-function limits (leading coefficients; power laws (c x^k)^alpha carry degree k*alpha and a limit is taken only when one monomial dominates for every alpha in (0,1)); access paths interpreted with the implementation stubbed'
LEVEL_TEXT = ('For all frequencies, rigidities, viscosities and model parameters at once: the main branch of each model is the reciprocal of the published compliance (exact identity), the legacy '
              'compliance functions are the same law, guard-branch returns are the limits of the main branch for the rational models, every access path applies the same implementation to the right '
              'elements, and the name lookup is exhaustive. Passivity and |M| <= mu follow from the compliance identities by sign reasoning stated in the evidence.')
LEVEL_NOTE = ('Trusted: Cython-subset front-end, interpreter, our transcription of the published compliances (Maxwell, Voigt-Kelvin, Burgers, Andrade 1910 / Efroimsky 2012, Sundberg & Cooper 2010), '
              'real algebra. x**alpha is exp(alpha log x). Not decided: ulp-level accuracy, overflow thresholds.')
EXPLANATION = ('R07.1 modulus * J_ref == 1 on the main branch, 7 models; R07.2 legacy compliance == J_ref under compliance = 1/mu, Voigt offset = 1/scale; R07.3 guard returns == limits (rational models), '
               'Maxwell-family guards agree; R07.4 Re J >= 1/mu and Im J <= 0 from the form of J_ref; R07.5 access paths, no writes to self in _implementation, exhaustive find_rheology.')
EXPLANATION += ' R07.10 compliance_dict_helper applies the compliance function to every frequency with all live and constant parameters in order. R07.7 the array twin: every interpreted call repeated with array arguments (mutable cells) returns the scalar values element for element and leaves the arguments intact.'
EXPLANATION += ' R07.8 every float_eps guard of a legacy compliance function is evaluated at the corners of the stated parameter range (omega 1e-12..1e2, mu 1e3..1e13, eta 1..1e30): a guard taken inside the range must leave the value equal to the published law; the failing corner is the witness.'

MODELS = ('Elastic', 'Newton', 'Maxwell', 'Voigt', 'Burgers', 'Andrade', 'SundbergCooper')
NARGS = {'Elastic': 0, 'Newton': 0, 'Maxwell': 0, 'Voigt': 2, 'Burgers': 2, 'Andrade': 2, 'SundbergCooper': 4}


# the property's parameter range (its quantifier): the float_eps guards of the legacy functions are written for frequency -> 0 and must not be taken inside it
BOX = {'omega': (1e-12, 1e2), 'mu': (1e3, 1e13), 'eta': (1e0, 1e30), 'alpha': (0.2, 0.5), 'zeta': (1.0, 1.0), 'c_mu': (5.0, 5.0), 'c_eta': (0.02, 0.02)}
FLOAT_EPS = 2.220446049250313e-16


def guard_reach(chk, fname, J, Jref, where):
    """R07.8: every `|E| <= float_eps` guard of a legacy compliance function is evaluated at the corners of the property's parameter box (E is a product of powers of the
    parameters, so |E| is extremal at a corner).  A guard that is taken at a corner replaces a term of the law inside the stated range: the value there must still be the
    published compliance.  A failing corner is the reported witness (concrete omega, mu, eta)."""
    import itertools, math
    guards = {}
    stack = [J]; seen = set()
    while stack:
        x = stack.pop()
        if x.uid in seen: continue
        seen.add(x.uid)
        if x.op == 'cmp':
            for side, other in ((x.args[1], x.args[0]), (x.args[0], x.args[1])):
                if side.op == 'atom' and side.val[0] == 'float_eps':
                    guards[other.uid] = other
        stack.extend(x.args)
    bad = []
    ntaken = 0
    for E in guards.values():
        names = sorted({a_.val[0] for a_ in X.atoms_of(E)} & set(BOX))
        other = sorted({a_.val[0] for a_ in X.atoms_of(J)} | {a_.val[0] for a_ in X.atoms_of(Jref)})
        for corner in itertools.product(*[sorted(set(BOX[n_])) for n_ in names]):
            env = {n_: BOX[n_][0] for n_ in other if n_ in BOX}
            env.update(dict(zip(names, corner)))
            env.update({'float_eps': FLOAT_EPS, 'pi': math.pi})
            v = abs(X.float_eval(E, env))
            if not (v <= FLOAT_EPS) or v == 0.0 or v != v:
                continue
            ntaken += 1
            got = X.float_eval(J, env); ref = X.float_eval(Jref, env)
            if got != got or ref != ref or abs(got - ref) > 1e-9 * abs(ref):
                pt = ', '.join(f'{n_} = {env[n_]:g}' for n_ in ('omega', 'mu', 'eta') if n_ in env)
                bad.append(f'the guard `|{X.show(E)[:50]}| <= float_eps` is taken at {pt} (inside the stated range) and the function returns {got:.4g} where the law gives {ref:.4g}')
                break
    chk.ob('R07.8', f'legacy {fname}: no float_eps guard replaces a term of the law inside the stated parameter range ({len(guards)} guards, corners of omega in [1e-12, 1e2], mu in [1e3, 1e13], eta in [1, 1e30])',
           not bad, '; '.join(bad[:2]), where, key=f'R07.8|{fname}', method='corner evaluation of the extracted guard expressions (monomials: extremal at corners); witness point reported')


TECHNIQUE += '; numpy tolerance tests (isclose) as their defining comparisons, entered on both sides by threshold-directed sampling; strided-memoryview lint on the array helpers'

EXPLANATION += ' R07.11 the array helpers accept contiguous buffers only where they walk a raw pointer (scalar call == array helper element for element).'

def run(chk):
    repo = Repo(chk.repo)
    mm = repo.by_path('TidalPy/rheology/models.pyx')
    mb = repo.by_path('TidalPy/rheology/base.pyx')
    w = X.atom('omega', 'pos'); mu = X.atom('mu', 'pos'); eta = X.atom('eta', 'pos')
    cm = X.atom('c_mu', 'pos'); ce = X.atom('c_eta', 'pos'); al = X.atom('alpha', 'pos'); ze = X.atom('zeta', 'pos')
    pi = X.atom('pi', 'pos')
    d = X.Decider(seed=chk.seed, k=3 if chk.tier == 'quick' else 12, mask_hook=eps_mask)
    eq = make_eq(chk, d)
    region = {'low': False, 'high': False, 'lowmod': False}

    def if_test(itp, st, fr):
        """the extreme-value guards of _implementation, recognised by what they compare (however the threshold is written: a named constant, a literal, a local):
        |frequency| below a tiny constant -> 'low', above a huge one (or isinf) -> 'high', modulus below a small constant -> 'lowmod'"""
        kinds = set()
        for cmp_ in [n_ for n_ in ast.walk(st.test) if isinstance(n_, ast.Compare) and len(n_.ops) == 1]:
            try:
                a_ = X.lift(itp.eval(cmp_.left, fr)); b_ = X.lift(itp.eval(cmp_.comparators[0], fr))
            except Exception:
                continue
            op = type(cmp_.ops[0]).__name__
            for sym, cst, o_ in ((a_, b_, op), (b_, a_, {'Lt': 'Gt', 'LtE': 'GtE', 'Gt': 'Lt', 'GtE': 'LtE'}.get(op, op))):
                c_ = concrete(cst)
                if c_ is None or concrete(sym) is not None: continue
                names = {t_.val[0] for t_ in X.atoms_of(sym)}
                if names and names <= {'omega', 'omega_signed'} and o_ in ('Lt', 'LtE') and 0 <= float(c_) < 1e-6: kinds.add('low')
                if names and names <= {'omega', 'omega_signed'} and o_ in ('Gt', 'GtE') and float(c_) > 1e3: kinds.add('high')
                if names == {'mu'} and o_ in ('Lt', 'LtE') and 0 <= float(c_) < 1e3: kinds.add('lowmod')
        if len(kinds) == 1:
            return region[kinds.pop()]
        return None

    def stmt(itp, st, fr):
        if isinstance(st, ast.Expr) and ast.unparse(st).startswith('super().'):
            return True
        return False
    it = Interp(repo, hooks={'if_test': if_test, 'stmt': stmt})

    # published compliances
    Jmax = 1 / mu - X.I / (w * eta)
    mu_v = cm * mu; eta_v = ce * eta
    Jvoigt = 1 / (mu_v + X.I * w * eta_v)
    tau = eta / mu
    gam = X.fn('gamma', al + 1)
    Jand_extra = 1 / mu * X.power(w * tau * ze, -al) * gam * (X.fn('cos', al * pi / 2) - X.I * X.fn('sin', al * pi / 2))
    JREF = {'Elastic': 1 / mu, 'Newton': -X.I / (w * eta), 'Maxwell': Jmax, 'Voigt': Jvoigt, 'Burgers': Jmax + Jvoigt,
            'Andrade': Jmax + Jand_extra, 'SundbergCooper': Jmax + Jand_extra + Jvoigt}
    ARGS = {'Elastic': (), 'Newton': (), 'Maxwell': (), 'Voigt': (cm, ce), 'Burgers': (cm, ce), 'Andrade': (al, ze), 'SundbergCooper': (cm, ce, al, ze)}

    objs = {}
    main = {}
    for name in MODELS:
        cls = need_class(mm, name)
        ms = methods(cls)
        if '_implementation' not in ms:
            raise AnalysisError(f'{name}._implementation vanished')
        self_obj = Obj(cls=('class', mm, cls), name=name)
        if 'change_args' in ms:
            it.call(mm, ms['change_args'], [ARGS[name]], self_obj=self_obj)
        elif NARGS[name]:
            raise AnalysisError(f'{name}.change_args vanished')
        objs[name] = (self_obj, ms)
        region.update(low=False, high=False, lowmod=False)
        # every outcome of a test the implementation makes on its arguments besides the recognised extreme-value guards (a shortcut for a stiff or a soft limit): the
        # published law is demanded on each of them -- an arm that returns an expansion of the law instead of the law fails here
        from ..core.interp import PathExplorer

        def one_impl(fork, ms=ms, self_obj=self_obj):
            it.hooks['fork'] = fork
            try: return it.call(mm, ms['_implementation'], [w, mu, eta], self_obj=self_obj)
            finally: it.hooks.pop('fork', None)
        arms_ = PathExplorer(max_paths=16).run(one_impl)
        M = arms_[0][1]
        main[name] = M
        where = mm.where(ms['_implementation'])
        eq('R07.1', f'{name}: modulus(omega, mu, eta, params) * J_published == 1', M * JREF[name], X.ONE, where, key=f'R07.1|{name}')
        for tr_, M_arm in arms_[1:]:
            eq('R07.1', f'{name}: modulus(omega, mu, eta, params) * J_published == 1' + PathExplorer.label(tr_), M_arm * JREF[name], X.ONE, where, key=f'R07.1|{name}|' + PathExplorer.label(tr_))
        chk.note_analysed('functions', f'models.{name}._implementation')
        # frequency enters only through |frequency|: M(-omega) == M(omega)
        wn = X.atom('omega_signed')
        def one_neg(fork, ms=ms, self_obj=self_obj, wn=wn):
            it.hooks['fork'] = fork
            try: return it.call(mm, ms['_implementation'], [wn, mu, eta], self_obj=self_obj)
            finally: it.hooks.pop('fork', None)
        Mn = PathExplorer(max_paths=16).run(one_neg)[0][1]
        eq('R07.1', f'{name}: depends on |frequency| only', X.subst(Mn, {'omega_signed': -w}), M, where)
        # no writes to self in _implementation (prange thread safety)
        writes = [ast.unparse(n_) for n_ in ast.walk(ms['_implementation']) if isinstance(n_, ast.Attribute) and isinstance(n_.ctx, ast.Store)]
        chk.ob('R07.5', f'{name}._implementation writes no object state (safe under prange)', not writes, f'stores: {writes}', where, method='AST effect lint')
        # default arguments of __init__ have the documented count
        if '__init__' in ms:
            dflt = ms['__init__'].args.defaults
            narg = None
            for n_ in ast.walk(ms['__init__']):
                if isinstance(n_, ast.keyword) and n_.arg == 'expected_num_args':
                    narg = ast.literal_eval(n_.value)
            ok = narg == NARGS[name]
            if dflt and isinstance(dflt[0], ast.Tuple):
                ok = ok and len(dflt[0].elts) == NARGS[name]
            chk.ob('R07.5', f'{name}: expected_num_args and default args tuple have {NARGS[name]} entries', ok, f'expected_num_args={narg}', mm.where(ms['__init__']), method='AST')

    # ---------------- R07.3 guard branches
    def guard_value(name, **reg):
        region.update(low=False, high=False, lowmod=False); region.update(reg)
        self_obj, ms = objs[name]
        def one_g(fork):
            it.hooks['fork'] = fork
            try: return it.call(mm, ms['_implementation'], [w, mu, eta], self_obj=self_obj)
            finally: it.hooks.pop('fork', None)
        try:
            from ..core.interp import PathExplorer as _PE
            v = _PE(max_paths=16).run(one_g)[0][1]
        finally:
            region.update(low=False, high=False, lowmod=False)
        return v
    rational = ('Newton', 'Maxwell', 'Voigt', 'Burgers')
    for name in MODELS:
        where = mm.where(objs[name][1]['_implementation'])
        if name == 'Elastic':
            continue
        for reg, var, wh, label in ((dict(low=True), w, 'zero', 'frequency -> 0'), (dict(high=True), w, 'inf', 'frequency -> inf'), (dict(lowmod=True), mu, 'zero', 'modulus -> 0')):
            gv = guard_value(name, **reg)
            inst = f'{name}: guard return for {label} == limit of the main branch'
            if name not in rational:
                # power-law models: compare with the Maxwell sibling's guard (same family) instead of a limit
                gm = guard_value('Maxwell', **reg)
                ok = gv is gm or d.equal(to_node(gv), to_node(gm)) if not has_inf(gv) and not has_inf(gm) else repr(gv) == repr(gm)
                chk.ob('R07.3', f'{name}: guard return for {label} agrees with the Maxwell sibling', ok, f'{show(gv)} vs Maxwell {show(gm)}', where, method='sibling agreement')
                try:
                    lim = R.limit_power_law(main[name], var, wh, alpha_names=(al.val[0],))
                except AnalysisError as ex:
                    chk.undecide('R07.3', inst, f'power-law limit not decided: {ex}')
                    continue
            else:
                lim = R.limit(main[name], var, wh)
            if has_inf(gv):
                ok = lim[0] == 'infinite'
                chk.ob('R07.3', inst, ok, f'guard returns an infinite component, limit is {lim[0]}', where, key=f'R07.3|{name}|{label}', method='leading-coefficient limit')
                continue
            gvn = to_node(gv)
            if lim[0] == 'zero':
                ok = d.is_zero(gvn)
            elif lim[0] == 'finite':
                ok = R.frac_equal(lim[1], gvn)
            else:
                ok = False
            chk.ob('R07.3', inst, ok, f'guard returns {show(gv)}, limit is {lim[0]}' + (f' {fmt_frac(lim[1])}' if len(lim) > 1 else ''), where, key=f'R07.3|{name}|{label}', method='leading-coefficient limit')

    # ---------------- R07.2 legacy compliance functions
    ml = repo.by_path('TidalPy/rheology/complex_compliance/compliance_models.py')

    it2 = Interp(repo)          # find_factorial (Gamma(x + 1) through scipy.special) is interpreted like everything else
    from .common import ArrayTwin
    twin = ArrayTwin(chk, 'R07.7', it2, d)
    comp = 1 / mu
    legacy = {'elastic': ('Elastic', ()), 'newton': ('Newton', ()), 'maxwell': ('Maxwell', ()), 'voigt': ('Voigt', (1 / cm, ce)), 'burgers': ('Burgers', (1 / cm, ce)),
              'andrade': ('Andrade', (al, ze)), 'sundberg': ('SundbergCooper', (1 / cm, ce, al, ze))}
    for fname, (model, extra) in legacy.items():
        f = need_func(ml, fname)
        J = it2.call(ml, f, [w, comp, eta] + list(extra))
        eq('R07.2', f'legacy {fname}(omega, 1/mu, eta, ...) == J_published ({model})', J, JREF[model], ml.where(f), key=f'R07.2|{fname}')
        eq('R07.2', f'legacy {fname} * models.{model} == 1', J * main[model], X.ONE, ml.where(f))
        guard_reach(chk, fname, J, JREF[model], ml.where(f))
    # the frequency-dependent-zeta variants: andrade_freq / sundberg_freq are the base law with zeta replaced by zeta * exp(E), E = -falloff (|omega / omega_c| - 1) clipped to
    # [0, 100] (the documented behaviour: below the critical frequency the Andrade element fades towards Maxwell, at and above it the law is the plain one)
    wc = X.atom('critical_freq', 'pos'); fo = X.atom('critical_freq_falloff', 'pos')
    xexp = -fo * (X.fn('abs', w / wc) - 1)
    Eref = X.cmp('>=', xexp, X.const(100)) * 100 + X.cmp('>', xexp, X.ZERO) * X.cmp('<', xexp, X.const(100)) * xexp
    for fname, base, extra in (('andrade_freq', 'andrade', ()), ('sundberg_freq', 'sundberg', (1 / cm, ce))):
        ffq = ml.defs.get(fname); fbase = ml.defs.get(base)
        if not isinstance(ffq, ast.FunctionDef) or not isinstance(fbase, ast.FunctionDef):
            continue
        Jf = it2.call(ml, ffq, [w, comp, eta] + list(extra) + [al, ze, wc, fo])
        Jb = it2.call(ml, fbase, [w, comp, eta] + list(extra) + [al, ze * X.fn('exp', Eref)])
        eq('R07.2', f'legacy {fname} == legacy {base} with zeta * exp(clip(-falloff (|omega/omega_c| - 1), 0, 100))', Jf, Jb, ml.where(ffq), key=f'R07.2|{fname}')
    # the compiled models switch to their extreme-value returns below MIN_FREQUENCY / above MAX_FREQUENCY / below MIN_MODULUS: those thresholds must lie outside the stated range
    mc = repo.by_path('TidalPy/utilities/constants_x.pyx')
    itc = Interp(repo)
    for cname, bound, side in (('MIN_FREQUENCY', BOX['omega'][0], 'below'), ('MAX_FREQUENCY', BOX['omega'][1], 'above'), ('MIN_MODULUS', BOX['mu'][0], 'below')):
        try:
            cv = itc.global_name(mc, cname)
        except AnalysisError:
            cv = None
        cval = None
        if cv is not None:
            from ..core.interp import concrete as _conc
            c_ = _conc(X.lift(cv)) if not isinstance(cv, (int, float)) else cv
            cval = float(c_) if c_ is not None else None
        ok = cval is not None and (cval <= bound if side == 'below' else cval >= bound)
        chk.ob('R07.8', f'{cname} lies {side} the stated range (the extreme-value return of the compiled models is not taken inside it)', ok, f'{cname} = {cval!r}, range bound {bound:g}', mc.rel(),
               key=f'R07.8|{cname}', method='constant extraction')
    f = need_func(ml, 'off')
    eq('R07.2', 'legacy off == elastic compliance', it2.call(ml, f, [w, comp, eta]), 1 / mu, ml.where(f))

    # ---------------- R07.10 the legacy helper that evaluates a compliance function for every tidal frequency (used by the ComplexCompliance holder and by quick_tides)
    mcc = repo.by_path('TidalPy/rheology/complex_compliance/complex_compliance.py')
    fh_ = mcc.defs.get('compliance_dict_helper')
    if isinstance(fh_, ast.FunctionDef):
        freqs = {(1, 0): X.atom('w_a', 'pos'), (2, 1): X.atom('w_b', 'pos'), (0, 3): X.atom('w_c', 'pos')}
        live = (X.atom('live_compliance', 'pos'), X.atom('live_viscosity', 'pos')); consts = (X.atom('const_1', 'pos'), X.atom('const_2', 'pos'))
        law = (lambda *a_, **k_: X.fn('LAW', *[X.lift(v_) for v_ in a_]))          # an uninterpreted function of exactly the arguments it is handed, in their order
        for inputs_, tag in ((consts, 'two constant parameters'), ((), 'no constant parameters')):
            got = Interp(repo).call(mcc, fh_, [dict(freqs), law, live, inputs_])
            bad = []
            if not isinstance(got, dict) or set(got) != set(freqs):
                bad.append(f'keys {sorted(got) if isinstance(got, dict) else got!r}')
            else:
                for sig, fq in freqs.items():
                    if X.lift(got[sig]) is not X.fn('LAW', fq, *live, *inputs_):
                        bad.append(f'{sig}: {X.show(X.lift(got[sig]))[:70]}')
            chk.ob('R07.10', f'compliance_dict_helper: every frequency signature maps to compliance_func(frequency, *live_inputs, *inputs) ({tag})', not bad, '; '.join(bad[:3]), mcc.where(fh_),
                   key=f'R07.10|{tag}', method='interpretation with the compliance function uninterpreted')
    else:
        raise AnalysisError('compliance_dict_helper vanished')

    # ---------------- R07.4 sign structure of the published compliances (derived facts)
    cosap = X.fn('cos', al * pi / 2); sinap = X.fn('sin', al * pi / 2)
    pw = X.power(w * tau * ze, -al)
    P_and = 1 / mu * pw * gam
    dpos = X.Decider(seed=chk.seed + 5, k=3, mask_hook=eps_mask)
    re_parts = {'Maxwell': X.ZERO, 'Burgers': mu_v / (mu_v * mu_v + w * w * eta_v * eta_v), 'Andrade': P_and * cosap,
                'SundbergCooper': P_and * cosap + mu_v / (mu_v * mu_v + w * w * eta_v * eta_v)}
    im_parts = {'Maxwell': 1 / (w * eta), 'Burgers': 1 / (w * eta) + w * eta_v / (mu_v * mu_v + w * w * eta_v * eta_v), 'Andrade': 1 / (w * eta) + P_and * sinap,
                'SundbergCooper': 1 / (w * eta) + P_and * sinap + w * eta_v / (mu_v * mu_v + w * w * eta_v * eta_v)}
    for name in re_parts:
        ok1 = dpos.equal(X.fn('real', JREF[name]), 1 / mu + re_parts[name])
        ok2 = dpos.equal(X.fn('imag', JREF[name]), -im_parts[name])
        chk.ob('R07.4', f'{name}: Re J == 1/mu + (sum of products of positive quantities), Im J == -(sum of products of positive quantities)', ok1 and ok2,
               'decomposition of the published compliance fails', 'vstatic/props/c07.py', method='GF(p^2) PIT + syntactic positivity (cos, sin of alpha*pi/2 positive for alpha in (0,1))')
    from .common import precision_lint
    precision_lint(chk, repo, 'R07.9', ['TidalPy/rheology/*.pyx'], floor_funcs=3)
    from .common import strided_view_lint
    strided_view_lint(chk, repo, 'R07.11', ['TidalPy/rheology/*.pyx'])          # (no floor: a source without address-of sites has nothing to violate)
    chk.assume('alpha in (0,1) so cos(alpha pi/2), sin(alpha pi/2) > 0; all parameters positive: then Re J >= 1/mu > 0 and Im J <= 0, hence Re M, Im M >= 0 and |M| = 1/|J| <= mu')

    # ---------------- R07.5 access paths
    base = need_class(mb, 'RheologyModelBase')
    bm = methods(base)
    calls = []

    def impl_stub(itp, f, args, kwargs, e, fr):
        if isinstance(f, FuncRef) and f.node.name == '_implementation':
            calls.append(tuple(args))
            return X.fn('IMPL', *[X.lift(a) for a in args])
        return NotImplemented
    it3 = Interp(repo, hooks={'call': impl_stub})
    n = 3
    selfo = Obj(cls=('class', mb, base), name='model')
    freq = Arr('freq', default=lambda k: X.atom(f'f{k}'), shape=(n,)); mod = Arr('mod', default=lambda k: X.atom(f'm{k}', 'pos'), shape=(n,))
    vis = Arr('vis', default=lambda k: X.atom(f'v{k}', 'pos'), shape=(n,))
    for meth, args, expect in (
            ('_vectorize_frequency', lambda out: [freq, mu, eta, out, n], lambda i: (freq.get(i), mu, eta)),
            ('_vectorize_modulus_viscosity', lambda out: [w, mod, vis, out, n], lambda i: (w, mod.get(i), vis.get(i))),
            ('vectorize_frequency', lambda out: [freq, mu, eta, out], lambda i: (freq.get(i), mu, eta)),
            ('vectorize_modulus_viscosity', lambda out: [w, mod, vis, out], lambda i: (w, mod.get(i), vis.get(i)))):
        if meth not in bm:
            raise AnalysisError(f'RheologyModelBase.{meth} vanished')
        out = Arr('out', shape=(n,))
        it3.call(mb, bm[meth], args(out), self_obj=selfo)
        bad = []
        if sorted(out.store) != list(range(n)):
            bad.append(f'slots written {sorted(out.store)} != 0..{n - 1}')
        else:
            for i in range(n):
                ref = X.fn('IMPL', *[X.lift(a) for a in expect(i)])
                if out.store[i] is not ref:
                    bad.append(f'out[{i}] = {X.show(out.store[i])[:60]}')
        chk.ob('R07.5', f'RheologyModelBase.{meth}: out[i] = _implementation(element i, ...) for every i', not bad, '; '.join(bad[:3]), mb.where(bm[meth]), method='interpretation with the implementation stubbed')
    if '__call__' in bm:
        r = it3.call(mb, bm['__call__'], [w, mu, eta], self_obj=selfo)
        chk.ob('R07.5', 'RheologyModelBase.__call__ returns _implementation(frequency, modulus, viscosity)', r is X.fn('IMPL', w, mu, eta), f'returns {show(r)}', mb.where(bm['__call__']),
               method='interpretation with the implementation stubbed')
    # find_rheology
    ff = need_func(mm, 'find_rheology')
    table = {'elastic': 'Elastic', 'off': 'Elastic', 'newton': 'Newton', 'viscous': 'Newton', 'maxwell': 'Maxwell', 'voigt': 'Voigt', 'voigtkelvin': 'Voigt', 'burgers': 'Burgers',
             'andrade': 'Andrade', 'sundberg': 'SundbergCooper', 'sundbergcooper': 'SundbergCooper'}
    it4 = Interp(repo)
    from ..core.interp import RaiseSignal
    for nm, clsname in table.items():
        for variant in (nm, nm.upper(), ' ' + nm.capitalize() + ' '):
            try:
                r = it4.call(mm, ff, [variant])
                ok = isinstance(r, tuple) and r[0] == 'class' and r[2].name == clsname
                detail = f'returns {r[2].name if isinstance(r, tuple) else r!r}'
            except RaiseSignal as ex:
                ok = False; detail = f'raises {ex.text}'
            chk.ob('R07.5', f'find_rheology({variant!r}) -> {clsname}', ok, detail, mm.where(ff), method='interpretation')
    try:
        r = it4.call(mm, ff, ['no_such_model'])
        chk.ob('R07.5', 'find_rheology(unknown) raises', False, f'returns {r!r}', mm.where(ff))
    except RaiseSignal:
        chk.ob('R07.5', 'find_rheology(unknown) raises', True, '', mm.where(ff), method='interpretation')
    # exports
    mi = repo.by_path('TidalPy/rheology/__init__.py')
    for name in MODELS + ('find_rheology',):
        r = repo.resolve(mi, name)
        ok = r is not None and r[0] == 'def' and r[1] is mm
        chk.ob('R07.5', f'rheology package exports {name} from models.pyx', ok, f'resolves to {r[:2] if r else None}', mi.rel(), method='import resolution')
    from .common import inplace_lint
    inplace_lint(chk, repo, 'R07.6', ['TidalPy/rheology/complex_compliance/compliance_models.py'])
    chk.floor('R07.6', 1)
    twin.finish(floor=7)
    chk.floor('R07.1', 14); chk.floor('R07.2', 15); chk.floor('R07.3', 12); chk.floor('R07.4', 4); chk.floor('R07.5', 50)


def has_inf(v):
    from ..core.interp import Opaque
    if isinstance(v, Opaque): return True
    return False


def to_node(v):
    return v if isinstance(v, X.Node) else X.lift(v)


def show(v):
    return X.show(v)[:80] if isinstance(v, X.Node) else repr(v)


def fmt_frac(fr):
    def fp(p):
        out = []
        for m, c in list(p.items())[:4]:
            mon = '*'.join((X.node_by_uid(k[1]).val[0] if k[0] == 'a' else f'node{k[1]}') + (f'^{e}' if e != 1 else '') for k, e in m) or '1'
            out.append(f'({c[0]}{"+" + str(c[1]) + "i" if c[1] else ""})*{mon}')
        return ' + '.join(out)
    return f'[{fp(fr[0])}] / [{fp(fr[1])}]'
