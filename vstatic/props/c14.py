"""C14 — tidal potentials are harmonic, self-consistent and agree with each other (formula level)."""
from __future__ import annotations
import ast
from ..core import expr as X
from ..core.interp import Interp
from ..core.report import AnalysisError
from ..frontend.pyfront import Repo

LEVEL = 'other'
TECHNIQUE = 'abstract interpretation of the 8 potential functions (mode loops unrolled, both use_static values); symbolic differentiation of the extracted potential; Laplace identity, modal/non-modal agreement and Taylor-coefficient agreement of sibling implementations decided by polynomial identity testing with trigonometric atoms; a second interpretation with array inputs (arrays are mutable cells: aliasing and in-place updates are followed) and the limit values e = 0, obliquity = 0 passed as exact numbers'
LEVEL_TEXT = ('Each returned tuple is extracted symbolically for every mode; derivative consistency and the degree-2 surface Laplace identity are decided exactly for all angles, times, n, spin, e, '
              'obliquity; sibling agreement is decided on exact Taylor coefficients (pinned evaluation of symbolic partial derivatives).')
LEVEL_NOTE = ('Trusted: front-end, interpreter, differentiation rules, real algebra. sqrt(1-cos^2 t) is sin t on the declared domain (0, pi) (sample points are drawn with sin t positive). '
              'The frequency switch (|mode| > threshold) is evaluated as "non-zero frequency" on the generic region and as 0 where the mode frequency is identically zero.')
EXPLANATION = ('R14.1 returned first/second derivatives == symbolic partial derivatives of the returned potential, per mode; R14.2 Laplace identity per mode; '
               'R14.3 per-mode variants summed == non-modal counterpart, frequency/mode tables agree with the mode names; R14.4 limits between siblings; R14.5 the same consistency on the own spin-orbit resonance (mode frequency zero, static switch active). R14.6 with array inputs and with e = 0 / obliquity = 0 passed as numbers, every field of every mode equals the generic formula at that value (special cases on exact zeros, buffers shared between modes).')

FILES = {
    'sync_low_e': 'synchronous_low_e', 'nsr_noobl': 'nsr_med_eccen_no_obliquity', 'nsr_modes_noobl': 'nsr_modes_med_eccen_no_obliquity',
    'nsr_medobl': 'nsr_med_eccen_med_obliquity', 'nsr_modes_medobl': 'nsr_modes_med_eccen_med_obliquity',
    'nsr_genobl': 'nsr_med_eccen_gen_obliquity', 'nsr_modes_genobl': 'nsr_modes_med_eccen_gen_obliquity', 'nsr_modes_lowe_genobl': 'nsr_modes_low_eccen_gen_obliquity',
}
NAMES = ('U', 'U_t', 'U_p', 'U_tt', 'U_pp', 'U_tp')


def switch_mask(node, pt=None):
    """|mode| > MIN_SPIN_ORBITAL_DIFF : true unless the mode frequency is exactly zero at the sample point"""
    a, b = node.args
    if not (b.op == 'const' and 0 < b.val < 1e-6) and not (a.op == 'const' and 0 < a.val < 1e-6):
        return None
    other, op = (a, node.val) if b.op == 'const' else (b, {'<': '>', '<=': '>=', '>': '<', '>=': '<='}.get(node.val, node.val))
    zero = False
    if pt is not None:
        try:
            zero = pt.ev(other) == (0, 0)
        except X.Resample:
            zero = False
    if zero:
        return {'>': 0, '>=': 0, '<': 1, '<=': 1}.get(op)
    return {'>': 1, '>=': 1, '<': 0, '<=': 0}.get(op)


EXPLANATION += ' R14.7 no integer-literal power (negative, or >= 3) is taken of a quantity that stays an integer when the arguments are integers (numba types arithmetic by its arguments: 0 for a negative power, silent int64 wrap-around for a large one).'
TECHNIQUE += '; syntactic type flow in numba-compiled kernels (integer-literal powers of integer-typed arguments)'

def run(chk):
    repo = Repo(chk.repo)
    # R14.7: integer arguments are values like any other; numba keeps them integers until they meet a float (an integer-literal power is taken first)
    from .common import int_power_lint
    int_power_lint(chk, repo, 'R14.7', ['TidalPy/tides/potential/*.py'])
    it = Interp(repo)
    r = X.atom('radius', 'pos'); lon = X.atom('longitude'); col = X.atom('colatitude'); t = X.atom('time')
    n = X.atom('n', 'pos'); o = X.atom('o'); e = X.atom('e', 'pos'); ob = X.atom('obliquity'); M = X.atom('host_mass', 'pos'); a = X.atom('a', 'pos')
    sin_t = X.fn('sin', col); cos_t = X.fn('cos', col)
    K = 2 if chk.tier == 'quick' else 6
    d = X.Decider(seed=chk.seed, k=K, positive=[sin_t], mask_hook=switch_mask)

    def generic_arm(itp, st, v, fr, dec=None):
        # a test `x != 0` / `x == 0` on a symbolic quantity (np.any(coefficient)): the generic arm is taken (x is zero only on a measure-zero set unless it
        # vanishes identically); the exact-zero arms are what R14.6 runs with the limit values passed as numbers
        if isinstance(v, X.Node) and v.op == 'cmp' and v.val in ('!=', '=='):
            z = (dec or d).is_zero(X.add(v.args[0], X.neg(v.args[1])))
            return (not z) if v.val == '!=' else z
        return None
    it.hooks['fork'] = generic_arm
    results = {}     # (key, use_static, spin) -> (freqs, modes, tuples)
    mods = {}
    for key, fn_ in FILES.items():
        m = repo.by_path(f'TidalPy/tides/potential/{fn_}.py')
        f = m.defs.get('tidal_potential')
        if not isinstance(f, ast.FunctionDef):
            raise AnalysisError(f'{m.rel()}: tidal_potential vanished')
        mods[key] = (m, f)

    def call(key, use_static, spin=o, obliq=ob):
        k = (key, use_static, spin.uid, obliq.uid if isinstance(obliq, X.Node) else obliq)
        if k in results: return results[k]
        m, f = mods[key]
        params = [p.arg for p in f.args.args]
        env = {'radius': r, 'longitude': lon, 'colatitude': col, 'time': t, 'orbital_frequency': n, 'rotation_frequency': spin, 'eccentricity': e,
               'obliquity': obliq, 'host_mass': M, 'semi_major_axis': a, 'use_static': use_static}
        kw = {p: env[p] for p in params}
        out = it.call(m, f, [], kw)
        if not (isinstance(out, tuple) and len(out) == 3 and isinstance(out[2], dict)):
            raise AnalysisError(f'{m.where(f)}: unexpected return shape')
        results[k] = out
        return out

    # ---------------- R14.1 / R14.2 per implementation, per flag, per mode
    for key in FILES:
        m, f = mods[key]
        flags = (False, True) if 'use_static' in [p.arg for p in f.args.args] else (False,)
        for us in flags:
            freqs, modes, tuples = call(key, us)
            chk.note_analysed('functions', f'{FILES[key]} use_static={us}: {len(tuples)} modes')
            for name, tup in tuples.items():
                if len(tup) != 6:
                    chk.ob('R14.1', f'{FILES[key]} static={us} mode {name}: tuple of 6', False, f'{len(tup)} elements', m.where(f)); continue
                U, Ut, Up, Utt, Upp, Utp = tup
                dU_t = X.diff(U, 'colatitude'); dU_p = X.diff(U, 'longitude')
                refs = (None, dU_t, dU_p, X.diff(dU_t, 'colatitude'), X.diff(dU_p, 'longitude'), X.diff(dU_t, 'longitude'))
                bad = []
                for i in range(1, 6):
                    if not d.equal(tup[i], refs[i]):
                        bad.append(f'{NAMES[i]} != d{NAMES[i][2:]} of returned U ({d.describe(tup[i], refs[i])})')
                inst = f'{FILES[key]} static={us} mode {name}'
                chk.ob('R14.1', inst + ': five returned derivatives == partial derivatives of the returned potential', not bad, '; '.join(bad[:3]), m.where(f),
                       key=f'R14.1|{inst}', method='symbolic differentiation + GF(p^2) PIT')
                lap = sin_t * sin_t * Utt + sin_t * cos_t * Ut + Upp + 6 * sin_t * sin_t * U
                ok = d.is_zero(lap)
                chk.ob('R14.2', inst + ': sin^2 U_tt + sin cos U_t + U_pp + 6 sin^2 U == 0', ok, '' if ok else d.describe(lap, X.ZERO), m.where(f),
                       key=f'R14.2|{inst}', method='GF(p^2) PIT')
                # frequency / mode tables
                okf = name in freqs and name in modes and d.equal(freqs[name], X.fn('abs', modes[name]))
                mref = mode_from_name(name, n, o)
                if mref is not None and key != 'sync_low_e':
                    if not (key.startswith('nsr_') and 'modes' not in key):
                        okf = okf and d.equal(modes[name], mref)
                chk.ob('R14.3', inst + ': frequency == |mode| and mode == its name', okf, 'frequency/mode table disagrees with the mode name', m.where(f),
                       key=f'R14.3|freq|{inst}', method='GF(p^2) PIT')

    # ---------------- R14.5 spin-orbit resonances: a mode whose frequency vanishes is governed by the static switch; with use_static=True it is kept,
    #                  and what is kept must still be a consistent harmonic field (derivatives of the returned potential, Laplace identity)
    from fractions import Fraction as Fr
    import re as _re

    def coeffs(name):
        m_ = _re.fullmatch(r'([+-]?\d*)([no])(?:([+-]\d*)([no]))?', name.replace(' ', ''))
        if not m_: return None
        def co(c): return int(c + '1') if c in ('', '+', '-') else int(c)
        cn = co_ = 0
        for c, v in ((m_.group(1), m_.group(2)), (m_.group(3), m_.group(4))):
            if v is None: continue
            if v == 'n': cn += co(c)
            else: co_ += co(c)
        return co_, cn
    n_res = 0
    for key in FILES:
        m, f = mods[key]
        if 'use_static' not in [p.arg for p in f.args.args]:
            continue
        names = list(call(key, True)[2])
        ratios = sorted({Fr(-c[1], c[0]) for c in map(coeffs, names) if c and c[0] != 0})
        if chk.tier == 'quick':
            ratios = [q for q in ratios if q in (Fr(1), Fr(3, 2), Fr(1, 2), Fr(2))] or ratios[:2]
        for q in ratios:
            spin_res = X.const(q) * n
            for us in (True, False):
                freqs, modes, tuples = call(key, us, spin=spin_res)
                for name, tup in tuples.items():
                    c = coeffs(name)
                    resonant = bool(c) and c[0] != 0 and Fr(-c[1], c[0]) == q
                    if not resonant or len(tup) != 6:
                        continue
                    n_res += 1
                    U, Ut, Up, Utt, Upp, Utp = tup
                    dU_t = X.diff(U, 'colatitude'); dU_p = X.diff(U, 'longitude')
                    refs = (None, dU_t, dU_p, X.diff(dU_t, 'colatitude'), X.diff(dU_p, 'longitude'), X.diff(dU_t, 'longitude'))
                    bad = [f'{NAMES[i]} != d{NAMES[i][2:]} of returned U ({d.describe(tup[i], refs[i])})' for i in range(1, 6) if not d.equal(tup[i], refs[i])]
                    lap = sin_t * sin_t * Utt + sin_t * cos_t * Ut + Upp + 6 * sin_t * sin_t * U
                    if not d.is_zero(lap):
                        bad.append(f'Laplace identity fails ({d.describe(lap, X.ZERO)})')
                    inst = f'{FILES[key]} static={us} mode {name} at the resonance spin = {q} n (mode frequency zero)'
                    chk.ob('R14.5', inst + ': returned derivatives == derivatives of the returned potential, and the degree-2 Laplace identity', not bad, '; '.join(bad[:3]), m.where(f),
                           key=f'R14.5|{inst}', method='symbolic differentiation + GF(p^2) PIT on the resonant (measure-zero) region')
    chk.note_analysed('resonances', f'{n_res} (implementation, flag, mode) triples analysed with the spin pinned to the mode\'s own resonance')
    chk.floor('R14.5', 8)

    # ---------------- R14.3 modal sum == non-modal
    pairs = (('nsr_modes_noobl', 'nsr_noobl'), ('nsr_modes_medobl', 'nsr_medobl'), ('nsr_modes_genobl', 'nsr_genobl'))
    for km, kn in pairs:
        for us in (False, True):
            tm = call(km, us)[2]; tn = call(kn, us)[2]
            if len(tn) != 1:
                raise AnalysisError(f'{FILES[kn]}: expected a single combined entry')
            comb = next(iter(tn.values()))
            bad = []
            for i in range(6):
                s = X.ZERO
                for tup in tm.values():
                    s = s + tup[i]
                if not d.equal(s, comb[i]):
                    bad.append(f'{NAMES[i]}: {d.describe(s, comb[i])}')
            inst = f'sum over modes of {FILES[km]} == {FILES[kn]} (use_static={us})'
            chk.ob('R14.3', inst, not bad, '; '.join(bad[:3]), mods[km][0].where(mods[km][1]), key=f'R14.3|{inst}', method='GF(p^2) PIT')

    # ---------------- R14.4 limits
    def total(key, us, spin=o, obliq=ob):
        tup = call(key, us, spin, obliq)[2]
        out = [X.ZERO] * 6
        for v in tup.values():
            out = [x + y for x, y in zip(out, v)]
        return out

    def taylor_agree(rule, inst, A, B, orders, where, extra_pins=None):
        """A, B lists of 6 nodes; orders: list of dicts {atom: k}; all mixed partials at the origin must agree"""
        bad = []
        for od in orders:
            pins = {k: 0 for k in od}
            pins.update(extra_pins or {})
            dd = X.Decider(seed=chk.seed + 11, k=K, positive=[sin_t], mask_hook=switch_mask, pins=pins)
            for i in range(6):
                x, y = A[i], B[i]
                for atom_, k in od.items():
                    for _ in range(k):
                        x = X.diff(x, atom_); y = X.diff(y, atom_)
                try:
                    same_ = dd.equal(x, y)
                except AnalysisError as ex:
                    if 'pole' not in str(ex):
                        raise
                    # a derivative has a pole at the expansion point: one side is not differentiable there (|sin I| written as sqrt(1 - cos^2 I)) or is written with a
                    # removable singularity.  Decide by the order of A - B along rays through the point, both signs: agreement of all partials up to total degree D means
                    # A - B = O(delta^(D+1)) on every ray.
                    why = ray_order(A[i], B[i], orders, extra_pins)
                    if why:
                        bad.append(f'{NAMES[i]}: {why}')
                        return chk.ob(rule, inst, False, '; '.join(bad[:4]), where, key=f'{rule}|{inst}', method='order of the difference along rays through the expansion point (float evaluation of the extracted expressions)')
                    continue
                if not same_:
                    bad.append(f'{NAMES[i]} coefficient of ' + '*'.join(f'{a_}^{k}' for a_, k in od.items()) + f': {dd.describe(x, y)}')
                    break
        chk.ob(rule, inst, not bad, '; '.join(bad[:4]), where, key=f'{rule}|{inst}', method='pinned GF(p^2) PIT on symbolic partial derivatives')

    def ray_order(a_node, b_node, orders, extra_pins):
        import itertools, math
        atoms_ = sorted({k_ for od_ in orders for k_ in od_})
        D = max(sum(od_.values()) for od_ in orders)
        fixed = {'colatitude': 1.1, 'longitude': 0.7, 'time': 0.37, 'n': 1.3, 'o': 0.41, 'radius': 1.2, 'host_mass': 0.9, 'a': 1.7, 'e': 0.05, 'obliquity': 0.3, 'pi': math.pi}
        fixed.update({k_: float(v_) for k_, v_ in (extra_pins or {}).items()})
        worst = None
        for signs in itertools.product(*[((1,) if a_ == 'e' else (1, -1)) for a_ in atoms_]):
            vals = []
            for delta in (2e-2, 2e-3):
                env = dict(fixed)
                for a_, s_ in zip(atoms_, signs):
                    env[a_] = s_ * delta * (0.8 if a_ == 'e' else 1.0)
                va = X.float_eval(a_node, env, seed=7); vb = X.float_eval(b_node, env, seed=7)
                if va != va or vb != vb:
                    return 'the expressions cannot be evaluated next to the expansion point'
                vals.append((abs(va - vb), max(abs(va), abs(vb), 1e-300)))
            (d1, s1), (d2, s2) = vals
            if d1 <= 1e-11 * s1 and d2 <= 1e-11 * s2:
                continue
            ratio = d1 / max(d2, 1e-300)
            if ratio < 0.2 * 10 ** (D + 1):
                ray = ', '.join(f'{a_} {"<" if s_ < 0 else ">"} 0' for a_, s_ in zip(atoms_, signs))
                order = math.log10(max(ratio, 1e-300))
                return (f'along the ray {ray} the two variants differ at order ~{order:.1f} in the small parameter (agreement of all terms up to total degree {D} needs order {D + 1}); '
                        f'difference {d1:.3g} at 2e-2, {d2:.3g} at 2e-3')
        return None

    # dynamic (time-dependent) part: use_static=False for every pair
    us = False
    # (i) exactly at zero obliquity
    for kg, k0 in (('nsr_genobl', 'nsr_noobl'), ('nsr_medobl', 'nsr_noobl'), ('nsr_modes_genobl', 'nsr_modes_noobl'), ('nsr_modes_medobl', 'nsr_modes_noobl')):
        taylor_agree('R14.4', f'{FILES[kg]} at obliquity = 0 == {FILES[k0]} (time-dependent part)', total(kg, us), total(k0, us), [{'obliquity': 0}], mods[kg][0].where(mods[kg][1]))
    # (ii) medium == general through second order in obliquity, total degree 3 in (e, obliquity)
    orders = [{'e': i, 'obliquity': j} for j in range(0, 3) for i in range(0, 4 - j)]
    for kg, k2 in (('nsr_genobl', 'nsr_medobl'), ('nsr_modes_genobl', 'nsr_modes_medobl')):
        taylor_agree('R14.4', f'{FILES[k2]} == {FILES[kg]} through obliquity^2 (total degree 3 in e, obliquity) (time-dependent part)', total(k2, us), total(kg, us), orders,
                     mods[k2][0].where(mods[k2][1]))
    # (i', ii') the same limits for the non-modal variants with the static part requested, on spin-orbit resonances: there some modes have zero frequency and only survive
    #          because use_static=True also switches the frequency test off -- a variant that handles the flag differently from its siblings shows up here and nowhere else
    from fractions import Fraction as _Fr
    for q in ((_Fr(1), _Fr(3, 2)) if chk.tier == 'quick' else (_Fr(1), _Fr(3, 2), _Fr(2), _Fr(1, 2), _Fr(-1))):
        sp = X.const(q) * n
        for kg, k0 in (('nsr_genobl', 'nsr_noobl'), ('nsr_medobl', 'nsr_noobl')):
            taylor_agree('R14.4', f'{FILES[kg]} at obliquity = 0 == {FILES[k0]} with use_static=True on the resonance spin = {q} n', total(kg, True, spin=sp), total(k0, True, spin=sp), [{'obliquity': 0}],
                         mods[kg][0].where(mods[kg][1]))
        taylor_agree('R14.4', f'{FILES["nsr_medobl"]} == {FILES["nsr_genobl"]} through obliquity^2 (total degree 3) with use_static=True on the resonance spin = {q} n', total('nsr_medobl', True, spin=sp),
                     total('nsr_genobl', True, spin=sp), orders, mods['nsr_medobl'][0].where(mods['nsr_medobl'][1]))
    # (iii) low-e general == med-e general through e^1
    taylor_agree('R14.4', f'{FILES["nsr_modes_lowe_genobl"]} == {FILES["nsr_modes_genobl"]} through e^1 (time-dependent part)', total('nsr_modes_lowe_genobl', us), total('nsr_modes_genobl', us),
                 [{'e': 0}, {'e': 1}], mods['nsr_modes_lowe_genobl'][0].where(mods['nsr_modes_lowe_genobl'][1]))

    # static part S = total(use_static=True) - total(use_static=False) on the generic region; the per-mode variants add it once per mode
    # (that is R14.3's business), so it is normalised by the number of modes before siblings are compared.
    def static_part(key):
        tt = total(key, True); tf = total(key, False)
        nm = len(call(key, True)[2])
        return [(x - y) / nm for x, y in zip(tt, tf)]
    for kg, k0 in (('nsr_genobl', 'nsr_noobl'), ('nsr_medobl', 'nsr_noobl'), ('nsr_modes_genobl', 'nsr_modes_noobl'), ('nsr_modes_medobl', 'nsr_modes_noobl')):
        taylor_agree('R14.4', f'static term of {FILES[kg]} at obliquity = 0 == static term of {FILES[k0]}', static_part(kg), static_part(k0), [{'obliquity': 0}], mods[kg][0].where(mods[kg][1]))
    for kg, k2 in (('nsr_genobl', 'nsr_medobl'), ('nsr_modes_genobl', 'nsr_modes_medobl')):
        taylor_agree('R14.4', f'static term of {FILES[k2]} == static term of {FILES[kg]} through obliquity^2 (total degree 3)', static_part(k2), static_part(kg), orders, mods[k2][0].where(mods[k2][1]))
    taylor_agree('R14.4', f'static term of {FILES["nsr_modes_lowe_genobl"]} == static term of {FILES["nsr_modes_genobl"]} through e^1', static_part('nsr_modes_lowe_genobl'), static_part('nsr_modes_genobl'),
                 [{'e': 0}, {'e': 1}], mods['nsr_modes_lowe_genobl'][0].where(mods['nsr_modes_lowe_genobl'][1]))
    for km, kn in pairs:
        taylor_agree('R14.4', f'per-mode static term of {FILES[km]} == static term of {FILES[kn]}', static_part(km), static_part(kn), [{}], mods[km][0].where(mods[km][1]))
    # (iv) synchronous: NSR at spin = n, through e^1, equals synchronous_low_e (time-dependent part)
    sync = total('sync_low_e', False)
    for k0 in ('nsr_noobl', 'nsr_modes_noobl'):
        taylor_agree('R14.4', f'{FILES[k0]} at spin = n through e^1 == synchronous_low_e', total(k0, False, spin=n), sync, [{'e': 0}, {'e': 1}], mods[k0][0].where(mods[k0][1]))
    exact_limits(chk, repo, mods, call, dict(radius=r, longitude=lon, colatitude=col, time=t, orbital_frequency=n, rotation_frequency=o, eccentricity=e, obliquity=ob, host_mass=M,
                                           semi_major_axis=a), K, sin_t, generic_arm)
    chk.floor('R14.1', 100); chk.floor('R14.2', 100); chk.floor('R14.3', 100); chk.floor('R14.4', 15)
    chk.assume('colatitude in (0, pi) so that sqrt(1 - cos^2) = sin; non-zero mode frequencies on the generic region')


def exact_limits(chk, repo, mods, call, env, K, sin_t, generic_arm):
    """R14.6: the functions are interpreted once more with numpy-array inputs (array mode: `x = y` aliases, `x += c` updates in place) and with the limit values the
    property names passed as exact numbers (e = 0, obliquity = 0, both).  What they return there must be what the generic formula gives at that value, mode by mode:
    a special case taken on exact zeros, or buffers shared between modes, cannot change any of the six fields."""
    from ..core.interp import PathExplorer
    n_inst = 0
    for key in FILES:
        m, f = mods[key]
        params = [p.arg for p in f.args.args]
        configs = [('generic', {})]
        if 'eccentricity' in params: configs.append(('e = 0', {'eccentricity': 0}))
        if 'obliquity' in params: configs.append(('obliquity = 0', {'obliquity': 0}))
        if 'eccentricity' in params and 'obliquity' in params and chk.tier != 'quick': configs.append(('e = 0, obliquity = 0', {'eccentricity': 0, 'obliquity': 0}))
        flags = (False, True) if 'use_static' in params else (False,)
        for us in flags:
            ref = call(key, us)[2]
            for cname, over in configs:
                pins = {('e' if k_ == 'eccentricity' else 'obliquity'): 0 for k_ in over}
                dd = X.Decider(seed=chk.seed + 23, k=K, positive=[sin_t], mask_hook=switch_mask, pins=pins)
                it = Interp(repo)
                it.array_mode = True
                kw = {p: env[p] for p in params if p in env}
                kw.update({k_: X.const(v_) for k_, v_ in over.items()})
                if 'use_static' in params: kw['use_static'] = us

                it.hooks['fork'] = lambda itp, st, v, fr, dd=dd: generic_arm(itp, st, v, fr, dd)
                bad = []
                for out in (it.call(m, f, [], dict(kw)),):
                    lab = ''
                    if not (isinstance(out, tuple) and len(out) == 3 and isinstance(out[2], dict)):
                        bad.append('unexpected return shape' + lab); continue
                    got = out[2]
                    if set(got) != set(ref):
                        bad.append(f'mode names differ: {sorted(set(got) ^ set(ref))[:4]}' + lab); continue
                    for name, tup in got.items():
                        for i in range(min(len(tup), 6)):
                            if not dd.equal(X.lift(tup[i]), ref[name][i]):
                                bad.append(f'mode {name} {NAMES[i]}: {dd.describe(X.lift(tup[i]), ref[name][i])}' + lab)
                                break
                inst = f'{FILES[key]} static={us}, array inputs, {cname}: every field of every mode == the generic formula' + ('' if not over else ' at that value')
                chk.ob('R14.6', inst, not bad, '; '.join(bad[:3]), m.where(f), key=f'R14.6|{FILES[key]}|{us}|{cname}', method='array-mode interpretation (aliasing, in-place updates) + pinned GF(p^2) PIT')
                n_inst += 1
    chk.note_analysed('exact limits', f'{n_inst} (implementation, flag, limit) runs with array inputs')
    chk.floor('R14.6', 30)


def mode_from_name(name, n, o):
    """'2o-3n' -> 2*o - 3*n ; returns None when the name is not of that form"""
    import re
    s = name.replace(' ', '')
    m = re.fullmatch(r'([+-]?\d*)([no])(?:([+-]\d*)([no]))?', s)
    if not m:
        return None
    def co(c): return int(c + '1') if c in ('', '+', '-') else int(c)
    val = co(m.group(1)) * (n if m.group(2) == 'n' else o)
    if m.group(3) is not None:
        val = val + co(m.group(3)) * (n if m.group(4) == 'n' else o)
    return val
