"""C11 — spin-orbit evolution rates conserve energy and angular momentum (formula level)."""
from __future__ import annotations
import ast
from ..core import expr as X
from ..core.interp import Interp, FuncRef, Opaque, Obj
from ..core.report import AnalysisError
from ..frontend.pyfront import Repo

LEVEL = 'other'
TECHNIQUE = 'abstract interpretation of the rate formulas into rational functions; conservation laws decided as polynomial identities (Kepler relation substituted); structural masked-division lint; semantic call-site binding by interpreting the callers (functional and OOP) with stubs; closed loop through the interpreted mode summation (calculate_terms -> collapse_modes -> rate functions)'
LEVEL_TEXT = ('The conservation laws are identities between the formulas in dynamics/*.py and the potential derivatives; they are extracted by abstract '
              'interpretation and decided exactly for symbolic masses, a, e, n, spin (generic region e>0), plus the e=0 clause as a structural rule on the '
              'mask idiom, sibling agreement, the pointwise-kernel rule and the argument binding at every call site.')
LEVEL_NOTE = ('Trusted: front-end, interpreter, real algebra (no rounding). The identity dUdw == dUdO at zero obliquity is taken from the extracted inclination tables '
              '(non-zero F_lmp(0) only for m = l-2p). Numerical values of heating themselves come from C10/C12 clauses.')
EXPLANATION = ('R11.1 energy: d/dt(-G m1 m2/2a) + sum C spin dspin/dt + sum host*(n dUdM - spin dUdO) == 0 with n^2 a^3 = G(m1+m2); angular momentum at zero obliquity. '
               'R11.2 sibling agreement (combined vs separate functions; dual with body 2 off == single). R11.3 call-site binding. R11.4 masked division (e=0 gives 0, not NaN). '
               'R11.6 pointwise kernels. R11.7 closed loop: with the potential derivatives and heating produced by the real mode summation, dE_orb/dt + sum C spin dspin/dt + heating == 0 and (obliquity off) dL_orb/dt + sum C dspin/dt == 0, single and dual dissipation. R11.8 no in-place update of arguments. R11.9 the public entry points end to end: the returned heating(s), da/dt, de/dt and spin-rate derivative(s) balance energy (and angular momentum with obliquity tides off), scalar and array inputs.')
EXPLANATION += ' R11.10 the array twin: every interpreted call repeated with array arguments (mutable cells) returns the scalar values element for element and leaves the arguments intact.'


from .common import eps_mask        # (one definition: answered only for quantities that are non-negative by their shape)


def fdefs(m, names):
    out = {}
    for n in names:
        f = m.defs.get(n)
        if not isinstance(f, ast.FunctionDef):
            raise AnalysisError(f'{m.rel()}: anchor function {n} vanished')
        out[n] = f
    return out


EXPLANATION += ' R11.10 no integer-literal power (negative, or >= 3) is taken of a quantity that stays an integer when the arguments are integers (numba types arithmetic by its arguments: 0 for a negative power, silent int64 wrap-around for a large one).'
TECHNIQUE += '; syntactic type flow in numba-compiled kernels (integer-literal powers of integer-typed arguments)'
EXPLANATION += ' R11.9 also with mixed shapes: an array spin rate with a scalar orbit and an array orbital frequency with a scalar spin rate, an array eccentricity or an array viscosity with everything else scalar (the entry point broadcasts the scalar side itself).'

def run(chk):
    repo = Repo(chk.repo)
    # R11.10: integer arguments are values like any other; numba keeps them integers until they meet a float (an integer-literal power is taken first)
    from .common import int_power_lint
    int_power_lint(chk, repo, 'R11.10', ['TidalPy/dynamics/*.py'])
    it = Interp(repo)
    ms = repo.by_path('TidalPy/dynamics/single_dissipation.py')
    md = repo.by_path('TidalPy/dynamics/dual_dissipation.py')
    S = fdefs(ms, ['spin_rate_derivative', 'semi_major_axis_derivative', 'eccentricity_derivative', 'semia_eccen_derivatives'])
    D = fdefs(md, ['semi_major_axis_derivative', 'eccentricity_derivative', 'semia_eccen_derivatives'])
    a = X.atom('a', 'pos'); n = X.atom('n', 'pos'); e = X.atom('e', 'pos')
    m1 = X.atom('m1', 'pos'); m2 = X.atom('m2', 'pos')
    C1 = X.atom('C1', 'pos'); C2 = X.atom('C2', 'pos'); s1 = X.atom('spin1'); s2 = X.atom('spin2')
    dM1 = X.atom('dUdM1'); dw1 = X.atom('dUdw1'); dO1 = X.atom('dUdO1')
    dM2 = X.atom('dUdM2'); dw2 = X.atom('dUdw2'); dO2 = X.atom('dUdO2')
    one_minus_e2 = 1 - e * e
    d = X.Decider(seed=chk.seed, k=3 if chk.tier == 'quick' else 16, positive=[one_minus_e2], mask_hook=eps_mask)

    def eq(rule, inst, got, ref, where, key=None):
        ok = d.equal(got, ref)
        chk.ob(rule, inst, ok, '' if ok else f'identity fails: {d.describe(got, ref)}', where, key=key, method='GF(p^2) PIT')
    from .common import ArrayTwin
    twin = ArrayTwin(chk, 'R11.10', it, d)

    G = n * n * a * a * a / (m1 + m2)          # Kepler's third law as the repo's own conversion defines it (C17)
    # orbital energy and angular momentum as functions of (a, e) with n eliminated
    Gat = X.atom('G', 'pos')
    E_orb = -Gat * m1 * m2 / (2 * a)
    L_orb = m1 * m2 / (m1 + m2) * X.sqrt(Gat * (m1 + m2) * a * one_minus_e2)
    dE_da = X.subst(X.diff(E_orb, 'a'), {'G': G})
    dL_da = X.subst(X.diff(L_orb, 'a'), {'G': G}); dL_de = X.subst(X.diff(L_orb, 'e'), {'G': G})

    # ---- single body: body 1 dissipates, body 2 raises the tide
    da = it.call(ms, S['semi_major_axis_derivative'], [a, n, m1, dM1, m2])
    de = it.call(ms, S['eccentricity_derivative'], [a, n, e, m1, dM1, dw1, m2])
    ds = it.call(ms, S['spin_rate_derivative'], [dO1, C1, m2])
    heat1 = m2 * (n * dM1 - s1 * dO1)
    where = ms.where(S['semi_major_axis_derivative'])
    eq('R11.1', 'single: dE_orb/dt + C spin dspin/dt + heating == 0', dE_da * da + C1 * s1 * ds + heat1, X.ZERO, where)
    eq('R11.1', 'single: dL_orb/dt + C dspin/dt == host*(dUdO - dUdw)  (zero when dUdw == dUdO)', dL_da * da + dL_de * de + C1 * ds, m2 * (dO1 - dw1),
       ms.where(S['eccentricity_derivative']))
    # ---- dual
    da2 = it.call(md, D['semi_major_axis_derivative'], [a, n, m1, dM1, m2, dM2])
    de2 = it.call(md, D['eccentricity_derivative'], [a, n, e, m1, dM1, dw1, m2, dM2, dw2])
    dsa = it.call(ms, S['spin_rate_derivative'], [dO1, C1, m2]); dsb = it.call(ms, S['spin_rate_derivative'], [dO2, C2, m1])
    heat2 = m1 * (n * dM2 - s2 * dO2)
    eq('R11.1', 'dual: dE_orb/dt + sum C spin dspin/dt + total heating == 0', dE_da * da2 + C1 * s1 * dsa + C2 * s2 * dsb + heat1 + heat2, X.ZERO, md.where(D['semi_major_axis_derivative']))
    eq('R11.1', 'dual: dL_orb/dt + sum C dspin/dt == sum host*(dUdO - dUdw)', dL_da * da2 + dL_de * de2 + C1 * dsa + C2 * dsb, m2 * (dO1 - dw1) + m1 * (dO2 - dw2),
       md.where(D['eccentricity_derivative']))
    # dUdw == dUdO at zero obliquity: table fact (non-zero F_lmp(0)^2 only where m = l - 2p)
    I = X.atom('I')
    nfact = 0
    for l in range(2, 8):
        mi = repo.by_path(f'TidalPy/tides/inclination_funcs/orderl{l}.py')
        f = mi.defs.get('calc_inclination_off')
        tab = it.call(mi, f, [I])
        for (m, p), v in tab.items():
            nfact += 1
            chk.ob('R11.1', f'zero-obliquity table l={l} ({m},{p}): m == l-2p (so dUdw term == dUdO term)', m == l - 2 * p,
                   f'non-zero obliquity-off entry with m={m} != l-2p={l - 2 * p}', mi.where(f), method='table enumeration')
    # and calculate_terms builds dUdw with (l-2p), dUdO with m from the same multiplier: checked in C10 (R10.1)

    # ---- R11.2 siblings
    both = it.call(ms, S['semia_eccen_derivatives'], [a, n, e, m1, dM1, dw1, m2])
    eq('R11.2', 'single: semia_eccen_derivatives[0] == semi_major_axis_derivative', both[0], da, ms.where(S['semia_eccen_derivatives']))
    eq('R11.2', 'single: semia_eccen_derivatives[1] == eccentricity_derivative', both[1], de, ms.where(S['semia_eccen_derivatives']))
    both2 = it.call(md, D['semia_eccen_derivatives'], [a, n, e, m1, dM1, dw1, m2, dM2, dw2])
    eq('R11.2', 'dual: semia_eccen_derivatives[0] == semi_major_axis_derivative', both2[0], da2, md.where(D['semia_eccen_derivatives']))
    eq('R11.2', 'dual: semia_eccen_derivatives[1] == eccentricity_derivative', both2[1], de2, md.where(D['semia_eccen_derivatives']))
    z = X.ZERO
    eq('R11.2', 'dual with body 2 not dissipating == single (da/dt)', it.call(md, D['semi_major_axis_derivative'], [a, n, m1, dM1, m2, z]), da, md.where(D['semi_major_axis_derivative']))
    eq('R11.2', 'dual with body 2 not dissipating == single (de/dt)', it.call(md, D['eccentricity_derivative'], [a, n, e, m1, dM1, dw1, m2, z, z]), de, md.where(D['eccentricity_derivative']))
    eq('R11.2', 'dual is symmetric under exchange of the bodies (da/dt)', it.call(md, D['semi_major_axis_derivative'], [a, n, m2, dM2, m1, dM1]), da2, md.where(D['semi_major_axis_derivative']))
    eq('R11.2', 'dual is symmetric under exchange of the bodies (de/dt)', it.call(md, D['eccentricity_derivative'], [a, n, e, m2, dM2, dw2, m1, dM1, dw1]), de2, md.where(D['eccentricity_derivative']))

    # ---- R11.4 masked division
    for mod, fs in ((ms, S), (md, D)):
        for name, f in fs.items():
            if 'eccen' not in name:
                continue
            args = {'single': [a, n, e, m1, dM1, dw1, m2], 'dual': [a, n, e, m1, dM1, dw1, m2, dM2, dw2]}['single' if mod is ms else 'dual']
            val = it.call(mod, f, args)
            val = val[1] if isinstance(val, tuple) else val
            sites = masked_divisions(val)
            inst = f'{mod.name.split(".")[-1]}.{name}'
            # the property: at e = 0 the value must be 0, not NaN: every division in the expression must have a denominator that
            # is non-zero at e = 0 (pin e := 0 and evaluate all denominators)
            bad = []
            d0 = X.Decider(seed=chk.seed + 7, k=2, pins={'e': 0}, mask_hook=eps_mask)
            for dn in all_denominators(val):
                try:
                    if d0.is_zero(dn):
                        bad.append(dn)
                except AnalysisError:
                    bad.append(dn)
            chk.ob('R11.4', f'{inst}: no denominator vanishes at e = 0', not bad,
                   f'{len(bad)} division(s) by a quantity that is 0 at e = 0 are evaluated before the mask multiplies them (0 * (x/0) = NaN; ZeroDivisionError for scalars): '
                   + '; '.join(X.show(b)[:80] for b in bad[:2]), mod.where(f), key=f'R11.4|{inst}', method='pinned evaluation of denominators')
            # and the value at e = 0 is 0 in the e<=eps region when denominators are safe
            if not bad:
                chk.ob('R11.4', f'{inst}: value at e = 0 is 0', d0.is_zero(val), 'non-zero rate at e = 0', mod.where(f), method='pinned evaluation')
            chk.note_analysed('functions', inst)

    # ---- R11.6 pointwise kernels
    for mod, fs in ((ms, S), (md, D)):
        for name, f in fs.items():
            offenders = non_pointwise(f)
            chk.ob('R11.6', f'{mod.name.split(".")[-1]}.{name} is elementwise', not offenders, f'non-elementwise constructs: {offenders[:3]}', mod.where(f), method='AST effect lint')

    # ---- R11.3 call-site binding
    callsites(chk, repo, it, ms, md, S, D)
    oop_callsites(chk, repo, ms, md, S, D)
    # ---- R11.7 the loop closed through the real mode summation
    twin.finish(floor=7)
    closed_loop(chk, repo, ms, md, S, D)
    entry_points(chk, repo)
    from .common import inplace_lint
    inplace_lint(chk, repo, 'R11.8', ['TidalPy/dynamics/single_dissipation.py', 'TidalPy/dynamics/dual_dissipation.py', 'TidalPy/toolbox/quick_tides.py', 'TidalPy/tides/modes/mode_manipulation.py', 'TidalPy/utilities/conversions/conversions.py'])
    chk.floor('R11.8', 5)
    chk.floor('R11.1', 4 + 18); chk.floor('R11.2', 8); chk.floor('R11.4', 4); chk.floor('R11.6', 7); chk.floor('R11.3', 8); chk.floor('R11.7', 12)
    chk.assume('masses, a, n, C > 0; 0 < e < 1 on the generic region; n^2 a^3 = G(m1+m2)')


def _eps_right(nd):
    return True


def all_denominators(node):
    out = []; seen = set(); stack = [node]
    while stack:
        x = stack.pop()
        if x.uid in seen: continue
        seen.add(x.uid)
        if x.op == 'div': out.append(x.args[1])
        if x.op == 'powi' and x.val < 0: out.append(x.args[0])
        stack.extend(x.args)
    return out


def masked_divisions(node):
    return []


NON_ELEMENTWISE = {'sum', 'prod', 'mean', 'average', 'median', 'std', 'var', 'max', 'min', 'amax', 'amin', 'nanmax', 'nanmin', 'nansum', 'argmax', 'argmin', 'cumsum', 'cumprod', 'dot',
                   'matmul', 'trapz', 'interp', 'sort', 'argsort', 'flip', 'roll', 'diff', 'gradient', 'concatenate', 'stack', 'vstack', 'hstack', 'unique', 'any', 'all', 'nonzero',
                   'take', 'searchsorted', 'convolve', 'cross', 'outer', 'einsum', 'allclose', 'array_equal', 'linspace', 'arange', 'meshgrid', 'reshape', 'ravel', 'flatten', 'transpose'}


def non_pointwise(f):
    """constructs that make element i of the result depend on other elements of the inputs (or on their number): reductions, re-orderings, indexing, loops, and branches on the data.
    Elementwise numpy functions (ufuncs, the three-argument np.where, maximum / minimum / clip, ...) are fine."""
    bad = []
    nodes = []
    params = {a.arg for a in f.args.args + f.args.kwonlyargs}
    for st in f.body:
        nodes.extend(ast.walk(st))
    for nd in nodes:
        if isinstance(nd, (ast.Subscript, ast.For, ast.While, ast.ListComp)):
            bad.append(f'{type(nd).__name__}@{nd.lineno}')
        if isinstance(nd, ast.If):
            # a branch on a flag / on `x is None` is not data-dependent; an ordering test on values is
            t = nd.test
            data_dep = any(isinstance(x, ast.Compare) and any(isinstance(o, (ast.Lt, ast.LtE, ast.Gt, ast.GtE, ast.Eq, ast.NotEq)) for o in x.ops)
                           and not any(isinstance(c, ast.Constant) and c.value is None for c in [x.left] + x.comparators) for x in ast.walk(t))
            if data_dep:
                bad.append(f'If@{nd.lineno}')
        if isinstance(nd, ast.Call):
            fn_ = ast.unparse(nd.func)
            last = fn_.split('.')[-1]
            if (fn_.startswith('np.') or fn_.startswith('numpy.')) and last in NON_ELEMENTWISE:
                bad.append(f'{fn_}@{nd.lineno}')
            if (fn_.startswith('np.') or fn_.startswith('numpy.')) and last == 'where' and len(nd.args) != 3:
                bad.append(f'{fn_} (index form)@{nd.lineno}')
            if isinstance(nd.func, ast.Attribute) and last in NON_ELEMENTWISE and not (fn_.startswith('np.') or fn_.startswith('numpy.')) and isinstance(nd.func.value, ast.Name) and nd.func.value.id in params:
                bad.append(f'{fn_}()@{nd.lineno}')          # method form on an argument: x.sum(), x.max()
    return bad


# ---------------------------------------------------------------------------------------------- call sites
def callsites(chk, repo, it0, ms, md, S, D):
    """Interpret each caller with the upstream producers stubbed: the stubs return tagged atoms, and the dynamics functions are
    replaced by recorders, so the binding (which value reaches which parameter) is read off exactly."""
    mq = repo.by_path('TidalPy/toolbox/quick_tides.py')
    records = []

    def call_hook(itp, f, args, kwargs, e, fr):
        if isinstance(f, FuncRef):
            nm = f.node.name
            if f.mod in (ms, md) and nm in ('semia_eccen_derivatives', 'spin_rate_derivative', 'semi_major_axis_derivative', 'eccentricity_derivative'):
                params = [p.arg for p in f.node.args.args]
                bound = dict(zip(params, args)); bound.update(kwargs)
                records.append((f.mod is md, nm, bound, fr.mod.where(e)))
                if nm == 'semia_eccen_derivatives':
                    return (X.atom('da_dt'), X.atom('de_dt'))
                return X.atom(nm)
            if nm == 'find_mode_manipulators':
                return (Stub('calculate_terms'), Stub('collapse_modes'), Stub('eccentricity_func'), Stub('inclination_func'))
            if nm in ('calc_tidal_susceptibility',):
                return X.atom('suscept[' + ','.join(tag(a) for a in args) + ']')
            if nm in ('compliance_dict_helper', 'days2rads', 'rads2days', 'orbital_motion2semi_a', 'semi_a2orbital_motion'):
                return X.atom(nm + '[' + ','.join(tag(a) for a in args[:3]) + ']')
        if isinstance(f, Stub):
            if f.name == 'collapse_modes':
                host = args[5] if len(args) > 5 else kwargs.get('tidal_host_mass')
                t = tag(host)
                return (X.atom(f'heat<{t}>'), X.atom(f'dUdM<{t}>'), X.atom(f'dUdw<{t}>'), X.atom(f'dUdO<{t}>'), {}, {}, {})
            if f.name == 'calculate_terms':
                return ({}, {})
            return X.atom(f.name + '()')
        return NotImplemented

    def branch_hook(itp, st, v, fr):
        if isinstance(v, Opaque) and v.name == 'isinstance':
            return False    # isinstance(x, np.ndarray) on a symbolic scalar: the scalar path (array inputs have their own pass)
        if isinstance(v, Opaque) and v.name.startswith('tolerance test'):
            return False    # np.allclose / np.isclose of two independent symbolic inputs: the generic state, in which they differ (the binding rule is about that path)
        return None         # everything else: sign domain, then forked, else the analysis fails closed

    it = Interp(repo, hooks={'call': call_hook, 'branch': branch_hook}, max_depth=10)
    host = X.atom('HOST_MASS', 'pos'); tm = X.atom('TARGET_MASS', 'pos'); moi = X.atom('TARGET_MOI', 'pos')
    f = mq.defs.get('quick_tidal_dissipation')
    if not isinstance(f, ast.FunctionDef):
        raise AnalysisError('quick_tidal_dissipation vanished')
    kw = dict(host_mass=host, target_radius=X.atom('R', 'pos'), target_mass=tm, target_gravity=X.atom('g', 'pos'), target_density=X.atom('rho', 'pos'),
              target_moi=moi, viscosity=X.atom('eta', 'pos'), shear_modulus=X.atom('mu', 'pos'), rheology='Maxwell',
              eccentricity=X.atom('e', 'pos'), obliquity=X.atom('I'), orbital_frequency=X.atom('n', 'pos'), spin_frequency=X.atom('spin'),
              calculate_orbit_spin_derivatives=True)
    try:
        it.call(mq, f, [], kw)
    except AnalysisError as ex:
        raise AnalysisError(f'quick_tidal_dissipation could not be interpreted for call-site binding: {ex}')
    where = mq.where(f)
    se = [r for r in records if r[1] == 'semia_eccen_derivatives' and not r[0]]
    sp = [r for r in records if r[1] == 'spin_rate_derivative']
    if len(se) != 1 or len(sp) != 1:
        raise AnalysisError(f'quick_tidal_dissipation: expected one call each of semia_eccen_derivatives/spin_rate_derivative, saw {len(se)}/{len(sp)}')
    b = se[0][2]
    ok = (b.get('mass_1') is tm and b.get('mass_2') is host and tag(b.get('dU_dM_1')) == 'dUdM<HOST_MASS>' and tag(b.get('dU_dw_1')) == 'dUdw<HOST_MASS>'
          and tag(b.get('semi_major_axis')).startswith('orbital_motion2semi_a') or (b.get('mass_1') is tm and b.get('mass_2') is host and tag(b.get('dU_dM_1')) == 'dUdM<HOST_MASS>' and tag(b.get('dU_dw_1')) == 'dUdw<HOST_MASS>'))
    ok = ok and tag(b.get('orbital_motion')) == 'n' and tag(b.get('eccentricity')) == 'e'
    chk.ob('R11.3', 'quick_tidal_dissipation -> semia_eccen_derivatives(a, n, e, m_target, dUdM, dUdw, m_host)', ok,
           'binding is ' + ', '.join(f'{k}={tag(v)}' for k, v in b.items()), se[0][3], method='interpreted caller with stubs')
    b = sp[0][2]
    ok = tag(b.get('dU_dO')) == 'dUdO<HOST_MASS>' and b.get('moment_of_inertia') is moi and b.get('host_mass') is host
    chk.ob('R11.3', 'quick_tidal_dissipation -> spin_rate_derivative(dUdO, C_target, m_host)', ok,
           'binding is ' + ', '.join(f'{k}={tag(v)}' for k, v in b.items()), sp[0][3], method='interpreted caller with stubs')
    chk.note_analysed('callers', 'quick_tides.quick_tidal_dissipation')

    # dual
    records.clear()
    f = mq.defs.get('quick_dual_body_tidal_dissipation')
    if not isinstance(f, ast.FunctionDef):
        raise AnalysisError('quick_dual_body_tidal_dissipation vanished')
    M = (X.atom('M0', 'pos'), X.atom('M1', 'pos')); Cs = (X.atom('C0', 'pos'), X.atom('C1', 'pos'))
    kw = dict(radii=(X.atom('R0', 'pos'), X.atom('R1', 'pos')), masses=M, gravities=(X.atom('g0', 'pos'), X.atom('g1', 'pos')),
              densities=(X.atom('rho0', 'pos'), X.atom('rho1', 'pos')), mois=Cs,
              viscosities=(X.atom('eta0', 'pos'), X.atom('eta1', 'pos')), shear_moduli=(X.atom('mu0', 'pos'), X.atom('mu1', 'pos')),
              rheologies=('Maxwell', 'Maxwell'), eccentricity=X.atom('e', 'pos'), obliquities=(X.atom('I0'), X.atom('I1')),
              orbital_frequency=X.atom('n', 'pos'), spin_frequencies=(X.atom('sp0'), X.atom('sp1')))
    try:
        it.call(mq, f, [], kw)
    except AnalysisError as ex:
        raise AnalysisError(f'quick_dual_body_tidal_dissipation could not be interpreted for call-site binding: {ex}')
    se = [r for r in records if r[1] == 'semia_eccen_derivatives' and r[0]]
    sp = [r for r in records if r[1] == 'spin_rate_derivative']
    if len(se) != 1 or len(sp) != 2:
        raise AnalysisError(f'quick_dual_body_tidal_dissipation: expected 1 dual derivative call and 2 spin calls, saw {len(se)}/{len(sp)}')
    b = se[0][2]
    # body with mass M0 is tidally perturbed by M1: its potentials are those collapsed with tidal host mass M1
    ok = (b.get('mass_1') is M[0] and tag(b.get('dU_dM_1')) == 'dUdM<M1>' and tag(b.get('dU_dw_1')) == 'dUdw<M1>'
          and b.get('mass_2') is M[1] and tag(b.get('dU_dM_2')) == 'dUdM<M0>' and tag(b.get('dU_dw_2')) == 'dUdw<M0>')
    chk.ob('R11.3', 'quick_dual_body_tidal_dissipation -> semia_eccen_derivatives_dual(a, n, e, m0, dUdM[raised by m1], dUdw[..], m1, dUdM[raised by m0], dUdw[..])', ok,
           'binding is ' + ', '.join(f'{k}={tag(v)}' for k, v in b.items()), se[0][3], method='interpreted caller with stubs')
    for i, r in enumerate(sp):
        b = r[2]
        other = M[1 - i]
        ok = tag(b.get('dU_dO')) == f'dUdO<{tag(other)}>' and b.get('moment_of_inertia') is Cs[i] and b.get('host_mass') is other
        chk.ob('R11.3', f'quick_dual_body_tidal_dissipation world {i} -> spin_rate_derivative(dUdO, C_{i}, m_{1 - i})', ok,
               'binding is ' + ', '.join(f'{k}={tag(v)}' for k, v in b.items()), r[3], method='interpreted caller with stubs')
    chk.note_analysed('callers', 'quick_tides.quick_dual_body_tidal_dissipation')


class Stub:
    def __init__(self, name): self.name = name


def tag(v):
    if isinstance(v, X.Node):
        return v.val[0] if v.op == 'atom' else X.show(v)[:60]
    return repr(v)[:40]


# ---------------------------------------------------------------------------------------------- R11.7 closed loop
def closed_loop(chk, repo, ms, md, S, D):
    """The conservation laws with the potential derivatives and the heating taken from the REAL mode summation
    (calculate_terms -> collapse_modes, interpreted over the extracted eccentricity / inclination tables, every term kept symbolic),
    instead of free atoms: energy uses the *returned* heating, angular momentum the *returned* dUdw / dUdO (obliquity-off tables).
    This is the part of the property that spans modes, dissipation and dynamics."""
    mm = repo.by_path('TidalPy/tides/modes/mode_manipulation.py')
    f_terms = mm.defs.get('calculate_terms'); f_coll = mm.defs.get('collapse_modes')
    if not (isinstance(f_terms, ast.FunctionDef) and isinstance(f_coll, ast.FunctionDef)):
        raise AnalysisError('mode_manipulation.calculate_terms / collapse_modes vanished')
    it = Interp(repo, max_depth=10)
    mh = repo.by_path('TidalPy/tides/modes/mode_calc_helper/__init__.py')
    elook = it.global_name(mh, 'eccentricity_functions_lookup'); ilook = it.global_name(mh, 'inclination_functions_lookup')
    a = X.atom('a', 'pos'); n = X.atom('n', 'pos'); e = X.atom('e', 'pos')
    m = [X.atom('m1', 'pos'), X.atom('m2', 'pos')]
    C = [X.atom('C1', 'pos'), X.atom('C2', 'pos')]; spins = [X.atom('spin1'), X.atom('spin2')]
    Rs = [X.atom('R1', 'pos'), X.atom('R2', 'pos')]; Is = [X.atom('I1'), X.atom('I2')]
    sus = [X.atom('suscept1', 'pos'), X.atom('suscept2', 'pos')]
    gs = [X.atom('g1', 'pos'), X.atom('g2', 'pos')]; rhos = [X.atom('rho1', 'pos'), X.atom('rho2', 'pos')]
    mus = [X.atom('mu1', 'pos'), X.atom('mu2', 'pos')]; scales = [X.atom('scale1', 'pos'), X.atom('scale2', 'pos')]
    one_minus_e2 = 1 - e * e
    K = 2 if chk.tier == 'quick' else 6
    d = X.Decider(seed=chk.seed + 11, k=K, positive=[one_minus_e2], mask_hook=eps_mask)
    G = n * n * a * a * a / (m[0] + m[1])
    Gat = X.atom('G', 'pos')
    E_orb = -Gat * m[0] * m[1] / (2 * a)
    L_orb = m[0] * m[1] / (m[0] + m[1]) * X.sqrt(Gat * (m[0] + m[1]) * a * one_minus_e2)
    dE_da = X.subst(X.diff(E_orb, 'a'), {'G': G})
    dL_da = X.subst(X.diff(L_orb, 'a'), {'G': G}); dL_de = X.subst(X.diff(L_orb, 'e'), {'G': G})

    def body(i, N, L, obl, sync, cpl):
        """mode sum of body i (tide raised by the other body); returns (heating, dUdM, dUdw, dUdO, number of terms)"""
        ef = elook[N][L]; inf = ilook[obl][L]
        # (a registry may hold the table functions themselves or callable wrappers around them: either is applied)
        from ..core.interp import Obj as _Obj
        if not (isinstance(ef, (FuncRef, _Obj)) and isinstance(inf, (FuncRef, _Obj))):
            raise AnalysisError('lookup tables do not hold callables of the repository')
        etab = it.apply(ef, [e], {}, None, None); itab = it.apply(inf, [Is[i]], {}, None, None)
        sp = n if sync else spins[i]
        uniq, res = it.call(mm, f_terms, [sp, n, a, Rs[i], etab, itab], {'multiply_modes_by_sign': True})
        comp = {sig: X.atom(f'J{i}_{sig[0]}_{sig[1]}'.replace('-', 'm'), 'complex') for sig in res}
        out = it.call(mm, f_coll, [gs[i], Rs[i], rhos[i], mus[i], scales[i], m[1 - i], sus[i], comp, res, L], {'cpl_ctl_method': cpl})
        nt = sum(len(v) for v in res.values())
        return out[0], out[1], out[2], out[3], nt, sp

    if chk.tier == 'quick':
        configs = [(2, 2, True), (2, 3, False), (4, 2, False), (2, 4, True), (6, 3, False), (2, 5, False)]
    else:
        configs = [(N, L, ob) for N in (2, 4, 8, 12) for L in (2, 3, 4, 5) for ob in (True, False)] + [(20, 2, False), (2, 7, False), (2, 7, True)]
    where_e = ms.where(S['semi_major_axis_derivative']); where_s = ms.where(S['spin_rate_derivative'])
    where_de = md.where(D['semi_major_axis_derivative']); where_dl = md.where(D['eccentricity_derivative'])
    if all(o.ok for o in chk.obls if o.rule in ('R11.1', 'R11.2')):
        # the rate formulas conserve energy and angular momentum for arbitrary potential derivatives (R11.1 held), so a failure of the
        # closed loop lies in what the mode summation returns
        where_e = where_s = where_de = where_dl = mm.where(f_terms) + ' (calculate_terms/collapse_modes; the rate formulas themselves satisfy R11.1)'
    for (N, L, obl) in configs:
        for sync in (False, True):
            for cpl in ((False, True) if (N, L) == configs[0][:2] else (False,)):
                cfg = f'N={N} lmax={L} obliquity={"on" if obl else "off"} {"spin is n" if sync else "generic spin"}' + (' CPL/CTL' if cpl else '')
                h1, dM1, dw1, dO1, nt1, sp1 = body(0, N, L, obl, sync, cpl)
                da = it.call(ms, S['semi_major_axis_derivative'], [a, n, m[0], dM1, m[1]])
                de = it.call(ms, S['eccentricity_derivative'], [a, n, e, m[0], dM1, dw1, m[1]])
                ds = it.call(ms, S['spin_rate_derivative'], [dO1, C[0], m[1]])
                r = dE_da * da + C[0] * sp1 * ds + h1
                ok = d.is_zero(r)
                chk.ob('R11.7', f'single, {cfg}: dE_orb/dt + C spin dspin/dt + (returned tidal heating) == 0 over {nt1} (signature,l) groups', ok,
                       '' if ok else 'energy is not conserved with the heating and potential derivatives the mode summation returns: ' + d.describe(r, X.ZERO), where_e,
                       method='GF(p^2) PIT')
                if not obl:
                    r = dL_da * da + dL_de * de + C[0] * ds
                    ok = d.is_zero(r)
                    chk.ob('R11.7', f'single, {cfg}: dL_orb/dt + C dspin/dt == 0 (zero obliquity)', ok,
                           '' if ok else 'angular momentum is not conserved with the returned dUdM, dUdw, dUdO: ' + d.describe(r, X.ZERO), where_s, method='GF(p^2) PIT')
                # dual
                h2, dM2, dw2, dO2, nt2, sp2 = body(1, N, L, obl, sync, cpl)
                da2 = it.call(md, D['semi_major_axis_derivative'], [a, n, m[0], dM1, m[1], dM2])
                de2 = it.call(md, D['eccentricity_derivative'], [a, n, e, m[0], dM1, dw1, m[1], dM2, dw2])
                ds2 = it.call(ms, S['spin_rate_derivative'], [dO2, C[1], m[0]])
                r = dE_da * da2 + C[0] * sp1 * ds + C[1] * sp2 * ds2 + h1 + h2
                ok = d.is_zero(r)
                chk.ob('R11.7', f'dual, {cfg}: dE_orb/dt + sum C spin dspin/dt + (returned heating of both bodies) == 0', ok,
                       '' if ok else 'energy is not conserved: ' + d.describe(r, X.ZERO), where_de, method='GF(p^2) PIT')
                if not obl:
                    r = dL_da * da2 + dL_de * de2 + C[0] * ds + C[1] * ds2
                    ok = d.is_zero(r)
                    chk.ob('R11.7', f'dual, {cfg}: dL_orb/dt + sum C dspin/dt == 0 (zero obliquity)', ok,
                           '' if ok else 'angular momentum is not conserved: ' + d.describe(r, X.ZERO), where_dl, method='GF(p^2) PIT')
        chk.note_analysed('mode-sum configurations', f'N={N} lmax={L} obliquity={"on" if obl else "off"}')


# ---------------------------------------------------------------------------------------------- R11.3 (OOP call sites)
def oop_callsites(chk, repo, ms, md, S, D):
    """PhysicsOrbit.calculate_orbital_derivatives (three branches: dual, host only, body only) and TidalWorld.calc_spin_derivative, interpreted on the abstract
    object graph of C13 with free potential derivatives: the stored rates must be those of the dynamics functions with (dissipating body mass, its dUdM, dUdw, the
    other body's mass) in that order, dn/dt = -(3/2)(n/a) da/dt, and dspin/dt = host mass * dUdO / C."""
    from . import c13
    it0 = Interp(repo)
    d = X.Decider(seed=chk.seed + 13, k=2, positive=[1 - X.atom('e0', 'pos') * X.atom('e0', 'pos'), X.atom('M_host', 'pos') + X.atom('M_world', 'pos')], mask_hook=eps_mask)
    mo = repo.by_path('TidalPy/structures/orbit/physics.py'); mw = repo.by_path('TidalPy/structures/world_types/tidal.py')
    for scen in ('body only', 'host only', 'dual'):
        it = c13.make_interp(repo)
        st = c13.state_atoms('0')
        s = c13.build(repo, it, st, False, True)
        c13.full_init(it, s)
        a = s.orbit.attrs['_semi_major_axes'][1]; n = s.orbit.attrs['_orbital_frequencies'][1]; e = s.orbit.attrs['_eccentricities'][1]
        wd = {k: X.atom(f'world_{k}') for k in ('dUdM', 'dUdw', 'dUdO')}; hd = {k: X.atom(f'host_{k}') for k in ('dUdM', 'dUdw', 'dUdO')}
        ta = s.tides.attrs
        if scen in ('body only', 'dual'):
            ta['_dUdM'], ta['_dUdw'], ta['_dUdO'] = wd['dUdM'], wd['dUdw'], wd['dUdO']
        else:
            ta['_dUdM'] = ta['_dUdw'] = ta['_dUdO'] = None
        if scen in ('host only', 'dual'):
            s.host.attrs.update({'tides_on': True, 'tides': Opaque('host tides'), 'dUdM': hd['dUdM'], 'dUdw': hd['dUdw'], 'dUdO': hd['dUdO']})
        c13.call(it, s.orbit, 'calculate_orbital_derivatives', s.world)
        da = s.orbit.attrs['_semi_major_axis_time_derivatives'][1]; de = s.orbit.attrs['_eccentricity_time_derivatives'][1]; dn = s.orbit.attrs['_orbital_motion_time_derivatives'][1]
        Mh, Mw = st['M_host'], st['M_world']
        if scen == 'body only':
            ref = it0.call(ms, S['semia_eccen_derivatives'], [a, n, e, Mw, wd['dUdM'], wd['dUdw'], Mh])
        elif scen == 'host only':
            ref = it0.call(ms, S['semia_eccen_derivatives'], [a, n, e, Mh, hd['dUdM'], hd['dUdw'], Mw])
        else:
            ref = it0.call(md, D['semia_eccen_derivatives'], [a, n, e, Mh, hd['dUdM'], hd['dUdw'], Mw, wd['dUdM'], wd['dUdw']])
        ok = all(isinstance(v, X.Node) for v in (da, de, dn)) and d.equal(da, ref[0]) and d.equal(de, ref[1]) and d.equal(dn, -X.const(3) / 2 * (n / a) * ref[0])
        chk.ob('R11.3', f'PhysicsOrbit.calculate_orbital_derivatives ({scen} dissipating): stored da/dt, de/dt == dynamics functions with (body mass, its dUdM, dUdw, other mass) in order; dn/dt == -(3/2)(n/a) da/dt', ok,
               'stored rates differ from the dynamics functions evaluated with the bodies\' own potential derivatives', mo.rel(), key=f'R11.3|calculate_orbital_derivatives|{scen}', method='abstract object graph + GF(p^2) PIT')
    # spin derivative
    it = c13.make_interp(repo)
    st = c13.state_atoms('0')
    s = c13.build(repo, it, st, False, True)
    c13.full_init(it, s)
    dO = X.atom('world_dUdO'); s.tides.attrs['_dUdO'] = dO
    r = c13.call(it, s.world, 'calc_spin_derivative')
    ref = it0.call(ms, S['spin_rate_derivative'], [dO, st['C'], st['M_host']])
    ok = isinstance(r, X.Node) and d.equal(r, ref) and d.equal(s.world.attrs['_tidal_polar_torque'], st['M_host'] * dO)
    chk.ob('R11.3', 'TidalWorld.calc_spin_derivative == spin_rate_derivative(dUdO, C, host mass); polar torque == host mass * dUdO', ok, 'differs', mw.rel(), key='R11.3|calc_spin_derivative',
           method='abstract object graph + GF(p^2) PIT')


# ---------------------------------------------------------------------------------------------- R11.9 the entry points end to end
def entry_points(chk, repo):
    """quick_tidal_dissipation(..., calculate_orbit_spin_derivatives=True) and quick_dual_body_tidal_dissipation(...) interpreted as a whole (only the rheology's compliance
    evaluation is a stub: one free complex compliance per unique frequency and body): what the caller gets back -- the heating(s), da/dt, de/dt and the spin-rate derivative(s) of
    the returned dictionaries -- must satisfy the energy balance, and the angular-momentum balance when obliquity tides are off, with a from Kepler's third law."""
    from ..core.interp import Opaque, PathExplorer
    mq = repo.by_path('TidalPy/toolbox/quick_tides.py')
    fs = mq.defs.get('quick_tidal_dissipation'); fdu = mq.defs.get('quick_dual_body_tidal_dissipation')
    if not (isinstance(fs, ast.FunctionDef) and isinstance(fdu, ast.FunctionDef)):
        raise AnalysisError('quick_tidal_dissipation / quick_dual_body_tidal_dissipation vanished')
    body = {'i': 0}

    def call_hook(itp, fn_, args, kwargs, e, fr):
        if isinstance(fn_, FuncRef) and fn_.node.name == 'compliance_dict_helper':
            freqs = args[0] if args else kwargs.get('tidal_frequencies')
            visc = args[2][0] if len(args) > 2 and isinstance(args[2], tuple) and args[2] else None
            who = '|'.join(X.show(X.lift(getattr(a_, 'v', a_)))[:12] for a_ in args[2]) if visc is not None else 'x'      # the body: its (compliance, viscosity) pair
            return {sig: X.atom(f'J[{who}]{sig[0]}_{sig[1]}'.replace('-', 'm'), 'complex') for sig in freqs}
        return NotImplemented

    def branch_hook(itp, st, v, fr):
        if isinstance(v, Opaque) and v.name.startswith('tolerance test'):
            return None
        if isinstance(v, Opaque) and v.name == 'isinstance':
            return False    # isinstance(x, np.ndarray) on a symbolic scalar: the scalar path (array inputs have their own pass)
        return None         # everything else: sign domain, then forked, else the analysis fails closed
    Gc = X.atom('const_G', 'pos')
    e = X.atom('e', 'pos'); n = X.atom('n', 'pos')
    d = X.Decider(seed=chk.seed + 91, k=2, positive=[X.atom('M0', 'pos') + X.atom('M1', 'pos'), 1 - e * e], mask_hook=eps_mask)

    def balances(out_single, masses, mois, spins, heats, dspins, da, de, obliq_off):
        M0, M1 = masses
        a = X.fn('cbrt', Gc * (M0 + M1) / (n * n))
        dE_orb = Gc * M0 * M1 / (2 * a * a) * da
        dE_rot = sum((C_ * s_ * ds_ for C_, s_, ds_ in zip(mois, spins, dspins)), X.ZERO)
        heat = sum(heats, X.ZERO)
        bad = []
        if not d.is_zero(dE_orb + dE_rot + heat):
            bad.append('energy: d/dt(-G m1 m2 / 2a) + sum C spin dspin/dt + (returned heating) != 0')
        if obliq_off:
            mu_ = M0 * M1 / (M0 + M1)
            L = mu_ * X.sqrt(Gc * (M0 + M1) * a * (1 - e * e))
            dL = X.diff(L, 'a_sym') if False else mu_ * X.sqrt(Gc * (M0 + M1)) * (X.sqrt(1 - e * e) / (2 * X.sqrt(a)) * da - X.sqrt(a) * e / X.sqrt(1 - e * e) * de)
            if not d.is_zero(dL + sum((C_ * ds_ for C_, ds_ in zip(mois, dspins)), X.ZERO)):
                bad.append('angular momentum: d/dt(mu sqrt(G M a (1 - e^2))) + sum C dspin/dt != 0')
        return bad
    from ..core.interp import ArrBox
    for arrays in (False, True, 'spin', 'orbit', 'ecc', 'visc'):
        it = Interp(repo, hooks={'call': call_hook, 'branch': branch_hook}, max_depth=12)
        it.array_mode = arrays is True
        mode = {False: '', True: ', array inputs', 'spin': ', array spin rate with a scalar orbit', 'orbit': ', array orbital frequency with a scalar spin rate',
                'ecc': ', array eccentricity with everything else scalar', 'visc': ', array viscosity with a scalar rigidity'}[arrays]
        # single body
        M = X.atom('M0', 'pos'); m = X.atom('M1', 'pos'); C = X.atom('C1', 'pos'); spin = X.atom('spin1')
        for obl_on in (False, True):
            if arrays in ('spin', 'orbit', 'ecc', 'visc') and obl_on: continue
            kw = dict(host_mass=M, target_radius=X.atom('R1', 'pos'), target_mass=m, target_gravity=X.atom('g1', 'pos'), target_density=X.atom('rho1', 'pos'), target_moi=C,
                      viscosity=X.atom('eta1', 'pos'), shear_modulus=X.atom('mu1', 'pos'), rheology='Maxwell', eccentricity=e, orbital_frequency=n, spin_frequency=spin,
                      calculate_orbit_spin_derivatives=True, eccentricity_truncation_lvl=4)
            if obl_on: kw.update(obliquity=X.atom('I1'), use_obliquity=True)
            if arrays == 'spin': kw['spin_frequency'] = ArrBox(spin)         # mixed shapes: the scalar side is broadcast by the entry point itself
            if arrays == 'orbit': kw['orbital_frequency'] = ArrBox(n)
            if arrays == 'ecc': kw['eccentricity'] = ArrBox(e)
            if arrays == 'visc': kw['viscosity'] = ArrBox(kw['viscosity'])

            def one(fork, kw=kw):
                it.hooks['fork'] = fork
                try: return it.call(mq, fs, [], dict(kw))
                finally: it.hooks.pop('fork', None)
            bad = []
            for tr_, out in PathExplorer(max_paths=16).run(one):
                need = ('tidal_heating', 'semi_major_axis_derivative', 'eccentricity_derivative', 'spin_rate_derivative')
                if not isinstance(out, dict) or any(k_ not in out for k_ in need):
                    bad.append('the result dictionary lacks ' + str([k_ for k_ in need if not isinstance(out, dict) or k_ not in out])); continue
                b_ = balances(out, (M, m), [C], [spin], [X.lift(out['tidal_heating'])], [X.lift(out['spin_rate_derivative'])], X.lift(out['semi_major_axis_derivative']), X.lift(out['eccentricity_derivative']), not obl_on)
                bad += [x_ + PathExplorer.label(tr_) for x_ in b_]
            lab = f'quick_tidal_dissipation (derivatives requested, obliquity tides {"on" if obl_on else "off"}{mode})'
            chk.ob('R11.9', f'{lab}: the returned heating, da/dt, de/dt and spin-rate derivative balance energy' + ('' if obl_on else ' and angular momentum'), not bad, '; '.join(bad[:2]), mq.where(fs),
                   key=f'R11.9|{lab}', method='whole-function interpretation (real mode summation, compliance stubbed) + GF(p^2) PIT')
        if arrays in ('spin', 'orbit', 'ecc', 'visc'): continue
        # dual body
        Ms = (X.atom('M0', 'pos'), X.atom('M1', 'pos')); Cs = (X.atom('C0', 'pos'), X.atom('C1', 'pos')); sps = (X.atom('spin0'), X.atom('spin1'))
        for obl_on in (False, True):
            kw = dict(radii=(X.atom('R0', 'pos'), X.atom('R1', 'pos')), masses=Ms, gravities=(X.atom('g0', 'pos'), X.atom('g1', 'pos')), densities=(X.atom('rho0', 'pos'), X.atom('rho1', 'pos')),
                      mois=Cs, viscosities=(X.atom('eta0', 'pos'), X.atom('eta1', 'pos')), shear_moduli=(X.atom('mu0', 'pos'), X.atom('mu1', 'pos')), rheologies=('Maxwell', 'Maxwell'),
                      eccentricity=e, orbital_frequency=n, spin_frequencies=sps, eccentricity_truncation_lvl=4)
            if obl_on: kw.update(obliquities=(X.atom('I0'), X.atom('I1')), use_obliquity=True)

            def one2(fork, kw=kw):
                it.hooks['fork'] = fork
                try: return it.call(mq, fdu, [], dict(kw))
                finally: it.hooks.pop('fork', None)
            bad = []
            for tr_, out in PathExplorer(max_paths=16).run(one2):
                worlds = [k_ for k_ in ('host', 'secondary') if isinstance(out, dict) and isinstance(out.get(k_), dict)]
                if len(worlds) != 2 or 'semi_major_axis_derivative' not in out:
                    bad.append('the result dictionary lacks the per-world results or the orbital derivatives'); continue
                heats = [X.lift(out[w_]['tidal_heating']) for w_ in worlds]; dsp = [X.lift(out[w_]['spin_rate_derivative']) for w_ in worlds]
                b_ = balances(out, Ms, list(Cs), list(sps), heats, dsp, X.lift(out['semi_major_axis_derivative']), X.lift(out['eccentricity_derivative']), not obl_on)
                bad += [x_ + PathExplorer.label(tr_) for x_ in b_]
                # a system total, where reported, is the sum of the two worlds' heating as reported for them
                if 'tidal_heating' in out and not d.equal(X.lift(out['tidal_heating']), heats[0] + heats[1]):
                    bad.append('the system total of the heating is not the sum of the two worlds\' reported heating')
            lab = f'quick_dual_body_tidal_dissipation (obliquity tides {"on" if obl_on else "off"}{mode})'
            chk.ob('R11.9', f'{lab}: the two worlds\' returned heating and spin-rate derivatives and the returned da/dt, de/dt balance energy' + ('' if obl_on else ' and angular momentum'), not bad,
                   '; '.join(bad[:2]), mq.where(fdu), key=f'R11.9|{lab}', method='whole-function interpretation (real mode summation, compliance stubbed) + GF(p^2) PIT')
    # call-history independence of the dual entry point: scenarios sharing e and the two worlds, differing in one option, in one interpreter state and in two orders
    Ms = (X.atom('M0', 'pos'), X.atom('M1', 'pos')); Cs = (X.atom('C0', 'pos'), X.atom('C1', 'pos')); sps = (X.atom('spin0'), X.atom('spin1'))
    base_kw = dict(radii=(X.atom('R0', 'pos'), X.atom('R1', 'pos')), masses=Ms, gravities=(X.atom('g0', 'pos'), X.atom('g1', 'pos')), densities=(X.atom('rho0', 'pos'), X.atom('rho1', 'pos')),
                   mois=Cs, viscosities=(X.atom('eta0', 'pos'), X.atom('eta1', 'pos')), shear_moduli=(X.atom('mu0', 'pos'), X.atom('mu1', 'pos')), rheologies=('Maxwell', 'Maxwell'),
                   eccentricity=e, orbital_frequency=n, spin_frequencies=sps)
    scen = {'e^2, l<=2': dict(eccentricity_truncation_lvl=2), 'e^4, l<=2': dict(eccentricity_truncation_lvl=4), 'e^2, l<=3': dict(eccentricity_truncation_lvl=2, max_tidal_order_l=3),
            'e^2, l<=2, obliquity tides': dict(eccentricity_truncation_lvl=2, obliquities=(X.atom('I0'), X.atom('I1')), use_obliquity=True)}

    def flat(out):
        vals = {}
        for w_ in ('host', 'secondary'):
            for q in ('tidal_heating', 'spin_rate_derivative'):
                vals[f'{w_}.{q}'] = X.lift(out[w_][q])
        for q in ('semi_major_axis_derivative', 'eccentricity_derivative'):
            vals[q] = X.lift(out[q])
        return vals

    def fresh_it():
        i_ = Interp(repo, hooks={'call': call_hook, 'branch': branch_hook}, max_depth=12)
        return i_
    alone = {}
    for nm_, kw_ in scen.items():
        a_ = dict(base_kw); a_.update(kw_)
        alone[nm_] = flat(fresh_it().call(mq, fdu, [], a_))
    bad = []
    for order in (list(scen), list(reversed(list(scen)))):
        ih = fresh_it(); done = []
        for nm_ in order:
            a_ = dict(base_kw); a_.update(scen[nm_])
            got = flat(ih.call(mq, fdu, [], a_))
            for q, v_ in got.items():
                if not d.equal(v_, alone[nm_][q]):
                    bad.append(f'[{nm_}] after [{" ; ".join(done)}]: {q} differs from the same call in a fresh process'); break
            done.append(nm_)
    chk.ob('R11.9', 'quick_dual_body_tidal_dissipation: a call returns the same heating and rates whatever was called before it (four scenarios sharing e and the worlds, in two orders)', not bad,
           '; '.join(bad[:2]), mq.where(fdu), key='R11.9|call-history', method='sequences of calls in one interpreter state vs fresh states, GF(p^2) PIT')
    chk.floor("R11.9", 13)
