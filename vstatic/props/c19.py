"""C19 — thermal building blocks are additive, monotone and sign-correct (formula level)."""
from __future__ import annotations
import ast
from fractions import Fraction as F
from ..core import expr as X
from ..core.interp import Interp
from ..core.regions import ghost_mask, sign_of, POS, NEG, ZERO, NONNEG, NONPOS, UNK
from ..core.report import AnalysisError
from ..frontend.pyfront import Repo
from .common import need_func, make_eq

LEVEL = 'other'
TECHNIQUE = 'abstract interpretation into expression DAGs; mask-sums specialised per region with ghost orderings (region -> value tables); identities by polynomial identity testing; monotonicity by symbolic differentiation + sign-domain analysis under stated positivity assumptions'
LEVEL_TEXT = ('Radiogenic additivity/half-life/linearity/reference-time facts are exact identities. For the piecewise laws every region is enumerated (ghost orderings), the partition is checked, '
              'region values are compared with the stated laws and derivative signs are decided in a sign domain; what the sign domain cannot settle is listed as undecided, never as a violation.')
LEVEL_NOTE = ('Trusted: front-end, interpreter, differentiation and sign rules, positivity assumptions listed in the evidence. Not decided: Arrhenius with the extra T factor (not monotone for T > E/R), '
              'the float-eps switch in `convection` at contrasts below 2.2e-16.')
EXPLANATION = 'R19.8 the radiogenic laws evaluated at the shipped isotope tables keep every intermediate inside the doubles wherever the heating is; R19.1 radiogenics; R19.2 piecewise region tables and floors (melting laws); R19.3 kind consistency of mask-sum branches; R19.4 derivative signs (cooling, viscosity, Henning viscosity).'
EXPLANATION += ' R19.7 the array twin: every interpreted call repeated with array arguments (mutable cells) returns the scalar values element for element and leaves the arguments intact.'


TECHNIQUE += '; floor tests decided only between quantities of one kind (parameter kinds of both operands)'

EXPLANATION += ' R19.9 no integer-literal power (negative, or >= 3) is taken of a quantity that stays an integer when the arguments are integers (numba types arithmetic by its arguments: 0 for a negative power, silent int64 wrap-around for a large one).'
TECHNIQUE += '; syntactic type flow in numba-compiled kernels (integer-literal powers of integer-typed arguments)'

def run(chk):
    repo = Repo(chk.repo)
    # R19.9: integer arguments are values like any other; numba keeps them integers until they meet a float (an integer-literal power is taken first)
    from .common import int_power_lint
    int_power_lint(chk, repo, 'R19.9', ['TidalPy/cooling/cooling_models.py', 'TidalPy/rheology/viscosity/viscosity_models.py', 'TidalPy/radiogenics/radiogenic_models.py', 'TidalPy/rheology/partial_melt/melting_models.py'])
    it = Interp(repo)
    d = X.Decider(seed=chk.seed, k=3 if chk.tier == 'quick' else 10)
    eq = make_eq(chk, d)
    from .common import ArrayTwin
    twin = ArrayTwin(chk, 'R19.7', it, d)

    def fact(inst, got, ref, where=None):
        """a formula the code is observed to implement: recorded as evidence, not demanded (C19 states signs and orderings, not the scaling laws)"""
        chk.note_analysed('formulas', f'{inst}: {"holds" if d.equal(got, ref) else "does NOT hold (not a clause of C19)"}')

    # ------------------------------------------------------------------ R19.1 radiogenics
    mr = repo.by_path('TidalPy/radiogenics/radiogenic_models.py')
    f_iso = need_func(mr, 'isotope'); f_fix = need_func(mr, 'fixed'); f_off = need_func(mr, 'off')
    t = X.atom('time'); mass = X.atom('mass', 'pos'); tref = X.atom('t_ref')
    K = 3
    fr = [X.atom(f'massfrac{i}', 'pos') for i in range(K)]; cc = [X.atom(f'conc{i}', 'pos') for i in range(K)]
    hl = [X.atom(f'halflife{i}', 'pos') for i in range(K)]; hp = [X.atom(f'q{i}', 'pos') for i in range(K)]
    from ..core.interp import PathExplorer

    def call_paths(mod, f, args):
        """every arm (with non-empty interior) of the data-dependent tests of f: [(label, value)]; comparisons that stay inside the value as masks are sampled by the decider"""
        def one(fork):
            it.hooks['fork'] = fork
            try: return it.call(mod, f, list(args))
            finally: it.hooks.pop('fork', None)
        out = [(PathExplorer.label(tr_), v_) for tr_, v_ in PathExplorer(max_paths=32).run(one) if not any(PathExplorer.arm(c_, o_)[0] == 'equality' for (c_, _w, _t, o_) in tr_)]
        if not out: raise AnalysisError(f'{f.name}: no path with non-empty interior')
        return out
    vals = call_paths(mr, f_iso, [t, mass, tuple(fr), tuple(cc), tuple(hl), tuple(hp), tref])
    val = vals[0][1]
    where = mr.where(f_iso)
    ln_half = X.fn('log', X.const(F(1, 2)))
    ref = X.ZERO
    for i in range(K):
        ref = ref + fr[i] * cc[i] * hp[i] * X.fn('exp', ln_half / hl[i] * (t - tref))
    singles = [call_paths(mr, f_iso, [t, mass, (fr[i],), (cc[i],), (hl[i],), (hp[i],), tref])[0][1] for i in range(K)]
    for plab, pv in vals:
        eq('R19.1', 'isotope: heating == mass * sum_i f_i c_i q_i exp(ln(1/2) (t - t_ref)/halflife_i)' + plab, pv, mass * ref, where)
        eq('R19.1', 'isotope: additive over isotopes (all == sum of single-isotope calls)' + plab, pv, singles[0] + singles[1] + singles[2], where)
    for i in range(K):
        eq('R19.1', f'isotope {i}: value(t + halflife) == value(t) / 2', X.subst(singles[i], {'time': t + hl[i]}), singles[i] / 2, where)
        eq('R19.1', f'isotope {i}: value(t_ref) == mass * f c q', X.subst(singles[i], {'time': tref}), mass * fr[i] * cc[i] * hp[i], where)
    k = X.atom('k_scale', 'pos')
    eq('R19.1', 'isotope: linear in mass', X.subst(val, {'mass': k * mass}), k * val, where)
    eq('R19.1', 'isotope: linear in concentration', X.subst(singles[0], {'conc0': k * cc[0]}), k * singles[0], where)
    q = X.atom('fixed_q', 'pos'); ahl = X.atom('avg_halflife', 'pos')
    vf = it.call(mr, f_fix, [t, mass, q, ahl, tref])
    eq('R19.1', 'fixed: heating == mass q exp(ln(1/2)(t - t_ref)/halflife)', vf, mass * q * X.fn('exp', ln_half / ahl * (t - tref)), mr.where(f_fix))
    eq('R19.1', 'fixed: value(t + halflife) == value(t) / 2', X.subst(vf, {'time': t + ahl}), vf / 2, mr.where(f_fix))
    eq('R19.1', 'fixed: value(t_ref) == mass q', X.subst(vf, {'time': tref}), mass * q, mr.where(f_fix))
    eq('R19.1', 'off: zero heating', it.call(mr, f_off, [t, mass]), X.ZERO, mr.where(f_off))
    # default reference time (argument omitted): the same law with t_ref = the default
    call_paths(mr, f_iso, [t, mass, tuple(fr), tuple(cc), tuple(hl), tuple(hp)]); it.call(mr, f_fix, [t, mass, q, ahl])
    chk.note_analysed('functions', 'radiogenic_models.isotope/fixed/off')
    # R19.8 "equals the reference value at the reference time", "halves after one half-life" in doubles: with the isotope tables the package ships (half-lives from 0.72 Myr to
    # 14 Gyr quoted at 4600 Myr) and times from the formation of the solar system to a few Gyr past the reference time, every product and exponential the law is evaluated
    # through is an ordinary double whenever the heating itself is one.  exp(g (t - t_ref)) is; exp(-g t_ref) * exp(g t) is not (2^6389 * 2^-6389 for Al-26).
    from .common import unrepresentable_intermediates
    import tomllib, math
    from fractions import Fraction as Fr
    mdc = repo.by_path('TidalPy/defaultc.py')
    cfg_txt = None
    for n_ in ast.walk(mdc.tree):
        if isinstance(n_, ast.Assign) and isinstance(n_.value, ast.Constant) and isinstance(n_.value.value, str) and 'known_isotope_data' in n_.value.value:
            cfg_txt = n_.value.value
    if cfg_txt is None:
        raise AnalysisError('TidalPy/defaultc.py: the default configuration text (known_isotope_data) vanished')
    known = tomllib.loads(cfg_txt)['physics']['radiogenics']['known_isotope_data']
    ntab = 0
    for tname, tab in sorted(known.items()):
        rt = tab.get('ref_time', tab.get('reference_time', 4600.0))
        isos = {k_: v_ for k_, v_ in tab.items() if isinstance(v_, dict)}
        if not isos: continue
        ntab += 1
        args = [t, mass, tuple(X.const(Fr(str(v_['iso_mass_fraction']))) for v_ in isos.values()), tuple(X.const(Fr(str(v_['element_concentration']))) for v_ in isos.values()),
                tuple(X.const(Fr(str(v_['half_life']))) for v_ in isos.values()), tuple(X.const(Fr(str(v_['hpr']))) for v_ in isos.values()), X.const(Fr(str(rt)))]
        expr_ = X.lift(it.call(mr, f_iso, args))
        hmin = min(float(v_['half_life']) for v_ in isos.values())
        bad = []
        for tv in (rt, rt - hmin, rt + hmin, rt - 100.0, rt + 100.0, rt / 2, 0.0, rt + 2000.0):
            hz = unrepresentable_intermediates(expr_, {'time': repr(float(tv)), 'mass': '1e22', 'ln_half': repr(math.log(0.5))})
            if hz:
                bad.append(f't = {tv:g}: `{hz[0][0]}` = {hz[0][1]} {hz[0][2]}')
        chk.ob('R19.8', f'isotope() with the shipped table {tname} ({len(isos)} isotopes, reference time {rt:g}): no intermediate leaves the range of doubles at times where the heating is representable', not bad,
               '; '.join(bad[:2]), mr.where(f_iso), key=f'R19.8|isotope|{tname}', method='extended-range evaluation (mpmath) of every sub-expression of the extracted law at the shipped data')
    # fixed(): the documented default reference time with average half-lives down to the shortest shipped one
    for ahl_v in (0.72, 5.0, 100.0, 4500.0):
        args = [t, mass, X.const(Fr('1e-11')), X.const(Fr(str(ahl_v)))]
        expr_ = X.lift(it.call(mr, f_fix, args))
        bad = []
        for tv in (4600.0, 4600.0 - ahl_v, 4600.0 + ahl_v, 4500.0, 4700.0):
            hz = unrepresentable_intermediates(expr_, {'time': repr(tv), 'mass': '1e22', 'ln_half': repr(math.log(0.5))})
            if hz: bad.append(f't = {tv:g}: `{hz[0][0]}` = {hz[0][1]} {hz[0][2]}')
        chk.ob('R19.8', f'fixed() with the default reference time and an average half-life of {ahl_v:g}: no intermediate leaves the range of doubles at times where the heating is representable', not bad,
               '; '.join(bad[:2]), mr.where(f_fix), key=f'R19.8|fixed|{ahl_v:g}', method='extended-range evaluation (mpmath) of every sub-expression of the extracted law')
    if ntab < 2:
        raise AnalysisError(f'only {ntab} shipped isotope tables found')
    chk.floor('R19.8', 6)

    # ------------------------------------------------------------------ R19.2 / R19.3 melting laws
    mm = repo.by_path('TidalPy/rheology/partial_melt/melting_models.py')
    f_hen = need_func(mm, 'henning'); f_spo = need_func(mm, 'spohn'); f_moff = need_func(mm, 'off')
    melt = X.atom('melt_fraction'); T = X.atom('temperature', 'pos'); eta0 = X.atom('premelt_viscosity', 'pos'); etal = X.atom('liquid_viscosity', 'pos')
    mu0 = X.atom('premelt_shear', 'pos'); sol = X.atom('solidus', 'pos'); liq = X.atom('liquidus', 'pos'); mul_ = X.atom('liquid_shear', 'pos')
    crit = X.atom('crit_melt_frac', 'pos'); width = X.atom('crit_melt_frac_width', 'pos')
    s1 = X.atom('hn_visc_slope_1', 'pos'); s2 = X.atom('hn_visc_falloff_slope', 'pos'); p1 = X.atom('hn_shear_param_1', 'pos'); p2 = X.atom('hn_shear_param_2', 'pos')
    s3 = X.atom('hn_shear_falloff_slope', 'pos')
    visc, shear = it.call(mm, f_hen, [melt, T, eta0, etal, mu0, sol, liq, mul_, crit, width, s1, s2, p1, p2, s3])
    whereh = mm.where(f_hen)
    ghosts = {'melt < 0': F(-1, 10), 'melt = 0': F(0), '0 < melt < crit': F(1, 4), 'melt = crit': F(1, 2), 'crit < melt < crit+width': F(21, 40),
              'melt = crit+width': F(11, 20), 'melt > crit+width': F(3, 4)}

    kind_mismatch = []

    def kind_of(name):
        return 'viscosity' if 'visc' in name else ('rigidity' if 'shear' in name else None)

    def floor_policy(active):
        def fb(node):
            # comparisons of the computed value with the liquid value OF THE SAME KIND (final floor): `value <= liquid` is `active`.  A viscosity compared with the liquid
            # rigidity (or the other way round) is no floor test: it is left undecided (the region then keeps a residual mask, which is reported) and noted for R19.3.
            if node.args[1].op == 'atom' and node.args[1].val[0] in ('liquid_viscosity', 'liquid_shear'):
                want = kind_of(node.args[1].val[0])
                have = {kind_of(a.val[0]) for a in X.atoms_of(node.args[0])} - {None}
                if have and have != {want}:
                    kind_mismatch.append(f'a {"/".join(sorted(have))} value is compared with {node.args[1].val[0]}: {X.show(node)[:90]}')
                    return None
                return {'<=': active, '>': not active, '<': active, '>=': not active}.get(node.val)
            return None
        return fb
    regions = {}
    for label, gv in ghosts.items():
        g = {'melt_fraction': gv, 'crit_melt_frac': F(1, 2), 'crit_melt_frac_width': F(1, 20)}
        for active in (False, True):
            hook = ghost_mask(g, floor_policy(active))
            regions[(label, active)] = (X.specialize(visc, hook), X.specialize(shear, hook))
    # partition: with the floor inactive, exactly one branch of the 4-way mask-sum is selected at every ghost point => value has no residual masks
    for (label, active), (v, s) in regions.items():
        from ..core.regions import masks_in
        left = masks_in(v) + masks_in(s)
        chk.ob('R19.2', f'henning region [{label}], floor {"active" if active else "inactive"}: all masks decided (regions partition the melt axis)', not left,
               f'undecided masks remain: {[X.show(m_)[:60] for m_ in left[:2]]}', whereh, method='ghost-ordering specialisation')
    exp = lambda a: X.fn('exp', a)
    expect_v = {'melt < 0': eta0, 'melt = 0': eta0, '0 < melt < crit': eta0 * exp(-s1 * melt), 'melt = crit': eta0 * exp(-s1 * crit) * exp(-s2 * (melt - crit)),
                'crit < melt < crit+width': eta0 * exp(-s1 * crit) * exp(-s2 * (melt - crit)), 'melt = crit+width': eta0 * exp(-s1 * crit) * exp(-s2 * (melt - crit)), 'melt > crit+width': etal}
    bdt = sol + crit * (liq - sol)
    expect_s = {'melt < 0': mu0, 'melt = 0': mu0, '0 < melt < crit': mu0 * exp(p1 / T - p2), 'melt = crit': mu0 * exp(p1 / bdt - p2) * exp(-s3 * (melt - crit)),
                'crit < melt < crit+width': mu0 * exp(p1 / bdt - p2) * exp(-s3 * (melt - crit)), 'melt = crit+width': mu0 * exp(p1 / bdt - p2) * exp(-s3 * (melt - crit)), 'melt > crit+width': mul_}
    for label in ghosts:
        v, s = regions[(label, False)]
        eq('R19.2', f'henning viscosity on [{label}] (above the floor)', v, expect_v[label], whereh, key=f'R19.2|henning viscosity|{label}')
        eq('R19.2', f'henning shear on [{label}] (above the floor)', s, expect_s[label], whereh, key=f'R19.2|henning shear|{label}')
        v2, s2_ = regions[(label, True)]
        eq('R19.2', f'henning viscosity on [{label}] when the law falls to/below the liquid value == liquid viscosity', v2, etal, whereh)
        eq('R19.2', f'henning shear on [{label}] when the law falls to/below the liquid value == liquid shear', s2_, mul_, whereh)
    # continuity of the viscosity law at crit (needed for monotonicity across the boundary)
    eq('R19.2', 'henning viscosity continuous at melt = crit', X.subst(expect_v['0 < melt < crit'], {'melt_fraction': crit}), X.subst(regions[('melt = crit', False)][0], {'melt_fraction': crit}), whereh)
    # R19.4 henning: d(viscosity)/d(melt) <= 0 inside each region
    for label in ('melt < 0', '0 < melt < crit', 'crit < melt < crit+width', 'melt > crit+width'):
        dv = X.diff(regions[(label, False)][0], 'melt_fraction')
        sg = sign_of(dv)
        record_sign(chk, 'R19.4', f'henning: d viscosity / d melt <= 0 on [{label}]', sg, (NEG, NONPOS, ZERO), whereh)
    # spohn + off floors
    fsv = X.atom('fs_visc_power_slope', 'pos'); fpv = X.atom('fs_visc_power_phase', 'pos'); fss = X.atom('fs_shear_power_slope', 'pos'); fps = X.atom('fs_shear_power_phase', 'pos')
    sv, ss = it.call(mm, f_spo, [melt, T, etal, mul_, fsv, fpv, fss, fps])
    for active in (False, True):
        hook = ghost_mask({}, floor_policy(active))
        v = X.specialize(sv, hook); s = X.specialize(ss, hook)
        if active:
            eq('R19.2', 'spohn viscosity floored at the liquid viscosity', v, etal, mm.where(f_spo)); eq('R19.2', 'spohn shear floored at the liquid shear', s, mul_, mm.where(f_spo))
        else:
            eq('R19.2', 'spohn viscosity law above the floor == 10^(slope/T - phase)', v, X.power(X.const(10), fsv / T - fpv), mm.where(f_spo))
            eq('R19.2', 'spohn shear law above the floor == 10^(slope/T - phase)', s, X.power(X.const(10), fss / T - fps), mm.where(f_spo))
    ov, os_ = it.call(mm, f_moff, [melt, eta0, mu0])
    eq('R19.2', 'off: viscosity unchanged', ov, eta0, mm.where(f_moff)); eq('R19.2', 'off: shear unchanged', os_, mu0, mm.where(f_moff))
    chk.ob('R19.3', 'melting laws: every floor test compares a value with the liquid value of its own kind (viscosity with liquid viscosity, rigidity with liquid rigidity)', not kind_mismatch,
           '; '.join(sorted(set(kind_mismatch))[:3]), whereh, key='R19.3|floor tests compare like with like', method='parameter kinds of the operands of every comparison with a liquid value')
    # R19.3 kind consistency: branches of the shear mask-sum may only mention rigidity-kind parameters (and dimensionless/temperature ones), viscosity branches only viscosity-kind
    visc_kind = {'premelt_viscosity', 'liquid_viscosity'}; shear_kind = {'premelt_shear', 'liquid_shear'}
    for label in ghosts:
        v, s = regions[(label, False)]
        av = {a.val[0] for a in X.atoms_of(v)}; as_ = {a.val[0] for a in X.atoms_of(s)}
        chk.ob('R19.3', f'henning [{label}]: viscosity branch built from viscosities only', not (av & shear_kind), f'mentions {sorted(av & shear_kind)}', whereh, key=f'R19.3|visc|{label}', method='atom-support (kind) analysis')
        chk.ob('R19.3', f'henning [{label}]: shear branch built from rigidities only', not (as_ & visc_kind), f'mentions {sorted(as_ & visc_kind)}', whereh, key=f'R19.3|shear|{label}', method='atom-support (kind) analysis')
    chk.note_analysed('functions', 'melting_models.henning/spohn/off')

    # ------------------------------------------------------------------ R19.4 cooling
    mc = repo.by_path('TidalPy/cooling/cooling_models.py')
    f_conv = need_func(mc, 'convection'); f_cond = need_func(mc, 'conduction'); f_coff = need_func(mc, 'off')
    dT = X.atom('delta_temp', 'pos'); eta = X.atom('viscosity', 'pos'); kth = X.atom('thermal_conductivity', 'pos'); kap = X.atom('thermal_diffusivity', 'pos')
    alp = X.atom('thermal_expansion', 'pos'); L = X.atom('layer_thickness', 'pos'); g = X.atom('gravity', 'pos'); rho = X.atom('density', 'pos')
    ca = X.atom('convection_alpha', 'pos'); cb = X.atom('convection_beta', 'pos'); rac = X.atom('critical_rayleigh', 'pos')
    cond = it.call(mc, f_cond, [dT, kth, L])
    fact('conduction: flux == k dT / L', cond[0], kth * dT / L, mc.where(f_cond))
    record_sign(chk, 'R19.4', 'conduction: flux > 0 for dT > 0', cond[0], (POS,), mc.where(f_cond))
    record_sign(chk, 'R19.4', 'conduction: d flux / d dT >= 0', X.diff(cond[0], 'delta_temp'), (POS, NONNEG), mc.where(f_cond))
    conv = it.call(mc, f_conv, [dT, eta, kth, kap, alp, L, g, rho, ca, cb, rac])
    wherec = mc.where(f_conv)
    ra_ref = alp * rho * g * dT * L ** 3 / (eta * kap)

    def base_policy(node):
        # the analysed region: contrast above the float-eps switch, layer thicker than MIN_THICKNESS
        a, b = node.args
        def is_atom(n, nm): return n.op == 'atom' and n.val[0] == nm
        if is_atom(b, 'float_eps') and is_atom(a, 'delta_temp'):
            return {'>': 1, '>=': 1, '<': 0, '<=': 0}.get(node.val)
        if is_atom(a, 'float_eps') and is_atom(b, 'delta_temp'):
            return {'<': 1, '<=': 1, '>': 0, '>=': 0}.get(node.val)
        if b.op == 'const' and b.val == 50 and is_atom(a, 'layer_thickness'):
            return {'>': 1, '>=': 1, '<': 0, '<=': 0}.get(node.val)
        if a.op == 'const' and a.val == 50 and is_atom(b, 'layer_thickness'):
            return {'<': 1, '<=': 1, '>': 0, '>=': 0}.get(node.val)
        return None
    from ..core.regions import masks_in
    conv = tuple(expand_minmax(v_) for v_ in conv)
    # thresholds an *input* is compared against (a floor or cap added to an input): every ordering of the input against them is a region of its own
    thresholds = {}
    for v_ in conv:
        for m_ in masks_in(v_):
            a_, b_ = m_.args
            if base_policy(m_) is not None:
                continue
            if a_.op == 'atom' and b_.op == 'const':
                thresholds.setdefault(a_.val[0], set()).add(F(b_.val))
            elif b_.op == 'atom' and a_.op == 'const':
                thresholds.setdefault(b_.val[0], set()).add(F(a_.val))
    ghost_sets = [({}, '')]
    for nm, cs in sorted(thresholds.items()):
        cs = sorted(cs)
        pts = [(cs[0] / 2 if cs[0] > 0 else cs[0] - 1, f'{nm} < {cs[0]}')]
        for i_, c_ in enumerate(cs):
            pts.append((c_, f'{nm} == {c_}'))
            nxt = cs[i_ + 1] if i_ + 1 < len(cs) else None
            pts.append(((c_ + nxt) / 2 if nxt is not None else c_ * 2 + 1, f'{nm} > {c_}' if nxt is None else f'{c_} < {nm} < {nxt}'))
        ghost_sets = [(dict(g_, **{nm: gv}), (lb + ', ' if lb else '') + l2) for (g_, lb) in ghost_sets for (gv, l2) in pts]
    if len(ghost_sets) > 64:
        raise AnalysisError(f'{wherec}: {len(ghost_sets)} threshold regions in convection()')
    cond_flux = cond[0]
    nregions = 0
    for g_, glab in ghost_sets:
        # every comparison that is left after the input orderings (Nusselt number against its floor, Rayleigh number against the critical one, ...) splits the
        # region in two: left side above / below the right side (the boundary itself is covered by the witness search across boundaries below)
        pre = [X.specialize(v_, ghost_mask(g_, base_policy)) for v_ in conv]
        pairs = []
        for v_ in pre:
            for m_ in masks_in(v_):
                if not any(m_.args[0] is p_[0] and m_.args[1] is p_[1] for p_ in pairs) and not any(m_.args[0] is p_[1] and m_.args[1] is p_[0] for p_ in pairs):
                    pairs.append((m_.args[0], m_.args[1]))
        if len(pairs) > 4:
            raise AnalysisError(f'{wherec}: {len(pairs)} independent comparisons inside convection() on one input region')
        import itertools
        for assign in itertools.product((True, False), repeat=len(pairs)):
            def hook(node, assign=assign, pairs=pairs):
                for (pa, pb), above in zip(pairs, assign):
                    if node.args[0] is pa and node.args[1] is pb:
                        return {'>': above, '>=': above, '<': not above, '<=': not above, '==': False, '!=': True}.get(node.val)
                    if node.args[0] is pb and node.args[1] is pa:
                        return {'<': above, '<=': above, '>': not above, '>=': not above, '==': False, '!=': True}.get(node.val)
                return None
            flux, bl, ra, nu = (X.specialize(v_, hook) for v_ in pre)
            conds = [f'{X.show(pa)[:40]} {">" if above else "<"} {X.show(pb)[:24]}' for (pa, pb), above in zip(pairs, assign)]
            lab = '; '.join(conds + ([glab] if glab else [])) or 'single region'
            left = [m_ for v_ in (flux, bl, ra, nu) for m_ in masks_in(v_)]
            if left:
                chk.undecide('R19.4', f'convection region [{lab}]', f'comparison(s) not decided by the region assignment: {[X.show(m_)[:60] for m_ in left[:2]]}')
                continue
            nregions += 1
            if not glab:
                chk.note_analysed('formulas', f'convection [{lab}]: Rayleigh {"==" if d.equal(ra, ra_ref) else "!="} alpha rho g dT L^3 / (eta kappa); Nusselt = {X.show(nu)[:70]}')
            record_sign(chk, 'R19.4', f'convection [{lab}]: flux > 0', flux, (POS,), wherec)
            record_sign(chk, 'R19.4', f'convection [{lab}]: d flux / d dT >= 0', X.diff(flux, 'delta_temp'), (POS, NONNEG), wherec)
            record_sign(chk, 'R19.4', f'convection [{lab}]: d flux / d viscosity <= 0', X.diff(flux, 'viscosity'), (NEG, NONPOS, ZERO), wherec)
            # convection >= conduction across the same layer: flux == Nu x (conductive flux) with the region's own Nusselt number, and Nu >= 1 either because
            # it is a constant >= 1 there or because the region is *defined* by Nu lying above a constant >= 1
            ok_fac = d.equal(flux, cond_flux * nu)
            nu_ok = nu.op == 'const' and nu.val >= 1
            for (pa, pb), above in zip(pairs, assign):
                lo, hi = (pb, pa) if above else (pa, pb)          # region condition: hi > lo
                if lo.op == 'const' and lo.val >= 1 and d.equal(hi, nu):
                    nu_ok = True
            sg = sign_of(flux - cond_flux)
            chk.ob('R19.4', f'convection [{lab}]: flux >= conductive flux across the same layer', sg in (POS, NONNEG, ZERO) or (ok_fac and nu_ok),
                   f'flux is not Nu x conduction with Nu >= 1 guaranteed on this region (Nu here: {X.show(nu)[:60]}) and the sign of (convection - conduction) is {sg}', wherec, method='factorisation + sign domain')
    chk.note_analysed('regions', f'convection: {nregions} regions analysed (orderings of inputs against thresholds {dict((k, sorted(map(str, v))) for k, v in thresholds.items())} x outcomes of the remaining comparisons)')
    # across region boundaries: the flux must not step the wrong way.  Exhibited on the extracted formula at concrete inputs (pairs of
    # viscosities / contrasts straddling every threshold and far apart); a report names the inputs.
    import random as _r
    rng = _r.Random(chk.seed + 190)
    flux_full = conv[0]
    names = ['delta_temp', 'viscosity', 'thermal_conductivity', 'thermal_diffusivity', 'thermal_expansion', 'layer_thickness', 'gravity', 'density',
             'convection_alpha', 'convection_beta', 'critical_rayleigh']
    nprobe = 300 if chk.tier == 'quick' else 3000
    worst = {'viscosity': None, 'delta_temp': None}

    def fval(env):
        e2 = dict(env); e2['float_eps'] = 2.220446049250313e-16
        return X.float_eval(flux_full, e2).real
    all_masks = []
    for m_ in masks_in(flux_full):
        if not any(m_ is q_ for q_ in all_masks): all_masks.append(m_)
    nloc = [0]
    for _ in range(nprobe):
        env = {'delta_temp': 10 ** rng.uniform(-1, 3), 'viscosity': 10 ** rng.uniform(-4, 22), 'thermal_conductivity': rng.uniform(0.5, 6), 'thermal_diffusivity': 10 ** rng.uniform(-7, -5),
               'thermal_expansion': 10 ** rng.uniform(-5.5, -4), 'layer_thickness': 10 ** rng.uniform(2, 6.5), 'gravity': rng.uniform(0.1, 25), 'density': rng.uniform(900, 9000),
               'convection_alpha': rng.uniform(0.3, 1.5), 'convection_beta': rng.uniform(0.2, 0.4), 'critical_rayleigh': rng.uniform(400, 2500)}
        for var, direction in (('viscosity', -1), ('delta_temp', +1)):
            cands = []
            for c_ in sorted(thresholds.get(var, ())):
                c_ = float(c_)
                cands += [(c_ * (1 - 1e-6), c_), (c_, c_ * (1 + 1e-6)), (c_ * rng.uniform(0.01, 0.99), c_ * rng.uniform(1.01, 100))]
            v0 = env[var]
            cands.append((v0, v0 * 10 ** rng.uniform(0.01, 3)))
            # boundaries of the comparisons inside the formula along this variable (located by the change of their truth values, then bisected): pairs straddling them
            if nloc[0] < (60 if chk.tier == 'quick' else 400):
                nloc[0] += 1
                lo_r, hi_r = ((-4, 22) if var == 'viscosity' else (-1, 3))
                grid = [10 ** (lo_r + (hi_r - lo_r) * i_ / 36) for i_ in range(37)]
                def mvec(x, env=env, var=var):
                    e2 = dict(env, **{var: x}); e2['float_eps'] = 2.220446049250313e-16
                    return tuple(bool(X.float_eval(m_, e2).real) for m_ in all_masks)
                prev = mvec(grid[0])
                for a_, b_ in zip(grid, grid[1:]):
                    cur = mvec(b_)
                    if cur != prev:
                        lo_, hi_, ml = a_, b_, prev
                        for _b in range(40):
                            mid = (lo_ * hi_) ** 0.5
                            if mvec(mid) == ml: lo_ = mid
                            else: hi_ = mid
                        cands.append((lo_ * (1 - 1e-9), hi_ * (1 + 1e-9)))
                    prev = cur
            for lo, hi in cands:
                if lo <= 0: continue
                f_lo = fval(dict(env, **{var: lo})); f_hi = fval(dict(env, **{var: hi}))
                if f_lo != f_lo or f_hi != f_hi:
                    raise AnalysisError(f'{wherec}: the extracted flux has no floating-point value at {var} = {lo if f_lo != f_lo else hi:.6g} (the boundary probes would be blind there)')
                bad = (f_hi > f_lo * (1 + 1e-9)) if direction < 0 else (f_hi < f_lo * (1 - 1e-9))
                if bad and worst[var] is None:
                    worst[var] = (lo, hi, f_lo, f_hi, env)
    for var, txt in (('viscosity', 'non-increasing in viscosity'), ('delta_temp', 'non-decreasing in the temperature contrast')):
        w_ = worst[var]
        chk.ob('R19.4', f'convection: flux {txt} across region boundaries ({nprobe} input sets, pairs straddling each threshold and each located comparison boundary)', w_ is None,
               '' if w_ is None else f'{var} {w_[0]:.9g} -> {w_[1]:.9g} takes the flux {w_[2]:.6g} -> {w_[3]:.6g} W/m^2 at ' + ', '.join(f'{k}={v:.4g}' for k, v in w_[4].items() if k != var),
               wherec, method='float evaluation of the extracted formula (witness search)')
    off = it.call(mc, f_coff, [dT, L])
    eq('R19.4', 'cooling off: zero flux', off[0], X.ZERO, mc.where(f_coff))

    # ------------------------------------------------------------------ R19.4 viscosity laws
    mv = repo.by_path('TidalPy/rheology/viscosity/viscosity_models.py')
    f_arr = need_func(mv, 'arrhenius'); f_ref = need_func(mv, 'reference'); f_con = need_func(mv, 'constant')
    P = X.atom('pressure', 'pos'); A = X.atom('arrhenius_coeff', 'pos'); st = X.atom('stress', 'pos'); se = X.atom('stress_expo', 'pos')
    gs = X.atom('grain_size', 'pos'); ge = X.atom('grain_size_expo', 'pos'); E = X.atom('molar_activation_energy', 'pos'); V = X.atom('molar_activation_volume', 'pos')
    Rg = X.atom('const_R', 'pos'); eref = X.atom('reference_viscosity', 'pos'); Tref = X.atom('reference_temperature', 'pos')

    def clamp_policy(node):
        a, b = node.args
        def lognat(n): return any(t_.val[0].startswith('float_lognat') or t_.val[0] == 'float_max' for t_ in X.atoms_of(n))
        if lognat(b) or lognat(a):      # |exponent| < ln(float_max): interior region
            return {'<': 1, '<=': 1, '>': 1, '>=': 0}.get(node.val) if node.val in ('<', '>') else 0
        return None
    hookc = ghost_mask({}, clamp_policy)
    va = X.specialize(expand_minmax(X.lift(it.call(mv, f_arr, [T, P, A, False, st, se, gs, ge, E, V]))), hookc)          # (np.clip / max / min clamps read as the mask-sums they stand for)
    fact('arrhenius (no extra T): == A stress^(1-n) grain^m exp((E + P V)/(R T))', va, A * X.power(st, 1 - se) * X.power(gs, ge) * exp((E + P * V) / (T * Rg)), mv.where(f_arr))
    record_sign(chk, 'R19.4', 'arrhenius (no extra T): d viscosity / d T <= 0', X.diff(va, 'temperature'), (NEG, NONPOS), mv.where(f_arr))
    vat = X.specialize(expand_minmax(X.lift(it.call(mv, f_arr, [T, P, A, True, st, se, gs, ge, E, V]))), hookc)
    fact('arrhenius (extra T) == T x arrhenius (no extra T)', vat, T * va, mv.where(f_arr))
    sgt = sign_of(X.diff(vat, 'temperature'))
    if sgt not in (NEG, NONPOS):
        chk.undecide('R19.4', 'arrhenius (extra T): d viscosity / d T <= 0', 'sign domain: derivative is eta (1 - (E+PV)/(RT)), negative only for T < (E+PV)/R (documented as outside the claim)')
    vr = X.specialize(expand_minmax(X.lift(it.call(mv, f_ref, [T, P, eref, Tref, E, V]))), hookc)
    fact('reference: == eta_ref exp((E + P V)/R (1/T - 1/T_ref))', vr, eref * exp((E + P * V) / Rg * (1 / T - 1 / Tref)), mv.where(f_ref))
    fact('reference: value at T_ref == eta_ref', X.subst(vr, {'temperature': Tref}), eref, mv.where(f_ref))
    record_sign(chk, 'R19.4', 'reference: d viscosity / d T <= 0', X.diff(vr, 'temperature'), (NEG, NONPOS), mv.where(f_ref))
    # the saturated regions of the clamped laws: where the exponent is held at its bound B (resp. -B) the value must be the law AT that bound -- the interior law continued
    # continuously -- or the viscosity jumps at the hand-over (downwards on cooling when the saturated value is smaller than the interior limit: not monotone in T)
    def saturated(side):
        bounds = []
        def pol(node):
            a, b = node.args
            def lognat(n): return any(t_.val[0].startswith('float_lognat') or t_.val[0] == 'float_max' for t_ in X.atoms_of(n))
            if not (lognat(a) or lognat(b)): return None
            bnd, flip = (b, False) if lognat(b) else (a, True)
            op = node.val if not flip else {'<': '>', '<=': '>=', '>': '<', '>=': '<='}[node.val]
            # exponent (op) bound, with bound = +B or -B
            try:
                neg_bound = X.float_eval(bnd, {'float_max': 1.7976931348623157e308, 'float_lognat_max': 709.782712893384, 'pi': 3.141592653589793}).real < 0
            except Exception:
                neg_bound = sign_of(bnd) in (NEG, NONPOS)
            if side == 'upper':     # exponent >= +B
                r = {'<': 1 if False else 0, '<=': 0, '>': 1, '>=': 1}[op] if not neg_bound else {'<': 0, '<=': 0, '>': 1, '>=': 1}[op]
                if not neg_bound and op in ('>=', '>'): bounds.append(bnd)
            else:                   # exponent <= -B
                r = {'<': 1, '<=': 1, '>': 0, '>=': 0}[op]
                if neg_bound and op in ('<=', '<'): bounds.append(bnd)
            return r
        return ghost_mask({}, pol), bounds
    xarg = (E + P * V) / (T * Rg)
    for lawname, fn_, args_, interior, xexp in (('arrhenius (no extra T)', f_arr, [T, P, A, False, st, se, gs, ge, E, V], va, xarg),
                                                ('reference', f_ref, [T, P, eref, Tref, E, V], vr, (E + P * V) / Rg * (1 / T - 1 / Tref))):
        raw = expand_minmax(X.lift(it.call(mv, fn_, args_)))
        for side in ('upper', 'lower'):
            hk, bnds = saturated(side)
            vsat = X.specialize(raw, hk)
            if not bnds:
                chk.undecide('R19.4', f'{lawname}: saturated value on the {side} side', 'no clamp of the exponent against a bound found'); continue
            B = bnds[0]
            from ..core.regions import masks_in
            if masks_in(vsat):
                chk.undecide('R19.4', f'{lawname}: saturated value on the {side} side', 'masks other than the clamp masks remain in the value'); continue
            ok_ = d.equal(vsat * exp(xexp), interior * exp(B))
            chk.ob('R19.4', f'{lawname}: where the exponent is held at its {side} bound the value is the law at that bound (no jump at the hand-over: non-increasing in T across it)', ok_,
                   '' if ok_ else 'the saturated value is not the interior law continued to the bound: ' + d.describe(vsat * exp(xexp), interior * exp(B)), mv.where(fn_), key=f'R19.4|saturated|{lawname}|{side}',
                   method='clamp regions selected by ghost masks + GF(p^2) PIT')
    vcn = it.call(mv, f_con, [T, P, eref])
    fact('constant: == reference viscosity', vcn, eref, mv.where(f_con))
    record_sign(chk, 'R19.4', 'constant: d viscosity / d T <= 0', X.diff(vcn, 'temperature'), (NEG, NONPOS, ZERO), mv.where(f_con))
    from .common import inplace_lint
    inplace_lint(chk, repo, 'R19.6', ['TidalPy/radiogenics/radiogenic_models.py', 'TidalPy/cooling/cooling_models.py', 'TidalPy/rheology/viscosity/viscosity_models.py', 'TidalPy/rheology/partial_melt/melting_models.py'])
    chk.floor('R19.6', 4)
    twin.finish(floor=8)
    chk.floor('R19.1', 14); chk.floor('R19.2', 40); chk.floor('R19.3', 14); chk.floor('R19.4', 18)
    chk.assume('all material parameters, temperatures, thicknesses > 0; temperature contrast > float eps; layer thicker than MIN_THICKNESS; |Arrhenius exponent| < ln(float max)')


def expand_minmax(node, memo=None):
    """max(a, b) -> (a > b) a + (a <= b) b, min likewise: a clamp written with max/min is analysed exactly like one written with masks"""
    memo = {} if memo is None else memo

    def r(n):
        v = memo.get(n.uid)
        if v is not None: return v
        if not n.args:
            v = n
        else:
            a = [r(t) for t in n.args]
            if n.op == 'fn' and n.val in ('max', 'min', 'maximum', 'minimum') and len(a) == 2:
                big = n.val in ('max', 'maximum')
                v = X.cmp('>' if big else '<', a[0], a[1]) * a[0] + X.cmp('<=' if big else '>=', a[0], a[1]) * a[1]
            elif n.op == 'add': v = X.add(*a)
            elif n.op == 'mul': v = X.mul(*a)
            elif n.op == 'div': v = X.div(*a)
            elif n.op == 'powi': v = X.powi(a[0], n.val)
            elif n.op == 'fn': v = X.fn(n.val, *a)
            elif n.op == 'cmp': v = X.cmp(n.val, *a)
            else: raise AnalysisError(f'expand_minmax: {n.op}')
        memo[n.uid] = v
        return v
    return r(node)


def sign_witness(expr, accept, n=240):
    """a sample point of the domain (positive atoms log-uniform in [1e-3, 1e3], the others in [-3, 3]) at which the sign of expr is outside `accept`; None if none is found"""
    import math, random
    rng = random.Random(12345)
    atoms_ = sorted({(a_.val[0], a_.val[1]) for a_ in X.atoms_of(expr)})
    want_pos = any(s_ in accept for s_ in (POS, NONNEG)); want_neg = any(s_ in accept for s_ in (NEG, NONPOS))
    strict = not any(s_ in accept for s_ in (NONNEG, NONPOS, ZERO))
    for _ in range(n):
        env = {}
        for nm, kind in atoms_:
            if nm == 'pi': env[nm] = math.pi
            elif nm.startswith('float_lognat'): env[nm] = 709.0
            elif nm == 'float_eps': env[nm] = 2.220446049250313e-16
            elif nm == 'float_max': env[nm] = 1.7976931348623157e308
            elif kind == 'pos': env[nm] = 10 ** rng.uniform(-3, 3)
            else: env[nm] = rng.uniform(-3, 3)
        try:
            v = X.float_eval(expr, env)
        except Exception:
            continue
        if v != v or abs(v.imag) > 1e-9 * max(1.0, abs(v.real)) or math.isinf(v.real):
            continue
        x = v.real
        if want_neg and x > 0 and (x > 1e-300): return env, x
        if want_pos and x < 0 and (x < -1e-300): return env, x
        if strict and x == 0: continue
    return None


def record_sign(chk, rule, inst, got, accept, where):
    expr = None
    if isinstance(got, X.Node):
        expr = got; got = sign_of(expr)
    if got == UNK:
        # the sign domain cannot settle it (masks from data-dependent arms, mixed-sign sums): look for a counter-example on the positive domain -- a point where the sign is
        # outside the accepted set is a violation with a witness; without one the clause stays undecided
        if expr is not None:
            w = sign_witness(expr, accept)
            if w is not None:
                chk.ob(rule, inst, False, f'counter-example: the quantity is {w[1]:.4g} at ' + ', '.join(f'{k_} = {v_:.4g}' for k_, v_ in sorted(w[0].items())[:8]), where,
                       method='symbolic derivative; float evaluation of the extracted expression at sample points of the positive domain (witness)')
                return
        chk.undecide(rule, inst, 'sign domain could not settle the sign')
        return
    chk.ob(rule, inst, got in accept, f'sign is {got}, expected one of {accept}', where, method='symbolic derivative + sign domain')
