"""C06 — the radial solver is total, memory-safe and leaves its inputs intact (structural rules)."""
from __future__ import annotations
import ast, re
import networkx as nx
from ..core import expr as X
from ..core import interp as I
from ..core.interp import Interp, Arr, Frame, Opaque, Ref, RaiseSignal, Obj
from ..core.lints import loop_progress, prune_flags
from ..core.report import AnalysisError
from ..frontend.pyfront import Repo
from ..frontend.cfg import CFG, ENTRY, EXIT, RAISE
from ..oracles import ts72
from .common import need_func, need_class, methods

LEVEL = 'other'
TECHNIQUE = 'typestate over a statement CFG with exceptional edges (in-place scaling must be undone on every exit, may-raise classification from Cython noexcept facts); bounds of every access to a fixed-size C array by abstract interpretation of the kernels plus interval analysis of the solver indices; dominance of data accessors by the success flag; loop-progress lint; dispatch totality by partial evaluation; LAPACK status def-use discipline; length guards before raw pointers; whole-function symbolic execution of cf_radial_solver logging every out-of-extent access and comparing the five input arrays on normal, failing and raising exits, with heap blocks sized from their allocation; check-after-use contradiction rule on parameter guards; executions on malformed layer structures; entry-point argument binding; declared C integer widths of loop indices'
LEVEL_TEXT = ('Crashes and hangs inside CyRK/LAPACK are out of reach. Decided: every exit of cf_radial_solver after the in-place non-dimensionalisation passes the restoring call (normal, explicit raise, and statements that may raise Python exceptions); '
              'no access to a stack array is outside its declared extent for any layer-kind combination; numeric accessors are dominated by `success`; `success` is set only on the error-free path; loops make progress; every assumption combination reaches a handler or a raise.')
LEVEL_NOTE = ('Trusted: Cython-subset front-end incl. recorded array extents and noexcept qualifiers, CFG builder, interval rules. Restoration to "a few ulp" (x c then / c) is arithmetic, not decided. Memory leaks are outside the property.')
EXPLANATION = 'R06.13 the arrays the solver scales in place are accepted as writable buffers only (no const memoryview whose address is cast); R06.1 restore typestate (also when only the first integration of a layer fails, with a bulk density of exactly zero under the cdivision directive of each source, and without reading heap memory nobody wrote); R06.2 fixed-size buffers; R06.3 success protocol; R06.4 totality of dispatch and loop progress; R06.5 LAPACK status read before reuse and before success; R06.6 array lengths checked before pointers are taken; R06.1/R06.2 additionally on the executed driver (inputs intact on every exit kind, every access within its extent); R06.7 no raw-pointer access indexed by a parameter runs before the guard that validates that parameter (check-after-use); R06.8 malformed layer structures (a layer without or with too few slices) end in a Python exception before that layer is integrated; R06.10 no loop index is narrower than its bound (no wrap-around, no endless loop); R06.11 no single-precision (C float) variable takes part in the arithmetic of the solver and of the scaling / unscaling of the inputs (restoration to a few ulp); R06.12 the Python entry point with many layers (around every constant its guards use) raises or stays inside its fixed-size arrays; R06.1 also with NaN scalar inputs (every isnan() test holding), both nondimensionalize settings; R06.9 the Python entry point hands every argument (raise_on_fail, verbose, the arrays, the per-layer flags) to the like-named parameter of the compiled driver.'

PY_OBJECT_TYPES = ('str', 'tuple', 'list', 'dict', 'object', 'bytes')
C_PURE = {'range', 'len', 'print', 'min', 'max', 'abs', 'int', 'float', 'isnan', 'isinf', 'isfinite', 'fabs', 'sqrt', 'cbrt', 'sin', 'cos', 'exp', 'log', 'sizeof', 'floor', 'ceil', 'pow', 'copysign', 'signbit', 'hypot', 'atan2', 'PyMem_Free', 'free',
          '__cast__', '__carray__', 'printf'}


def collect_noexcept(repo):
    names = set()
    for dotted in repo.all_modules():
        mod = repo.module(dotted)
        if mod is None or not mod.is_pyx: continue
        for (nm, ln), info in mod.facts.funcs.items():
            if 'noexcept' in info['quals']:
                names.add(nm)
    return names


def var_types(mod, func):
    """C types of parameters and declared locals of func (name -> type string)"""
    types = {}
    for (nm, ln), info in mod.facts.funcs.items():
        if nm == func.name and ln == func.lineno:
            types.update(info['params'])
    end = getattr(func, 'end_lineno', 10 ** 9)
    for (nm, ln), typ in mod.facts.vars.items():
        if func.lineno <= ln <= end:
            types.setdefault(nm, typ)
    return types


def make_may_raise(noexcept, types):
    def is_pyobj(name):
        t = types.get(name)
        if t is None: return False
        t0 = t.strip()
        return any(t0 == p or t0.startswith(p + ' ') for p in PY_OBJECT_TYPES)

    def expr_may_raise(e):
        for n in ast.walk(e):
            if isinstance(n, ast.Call):
                if isinstance(n.func, ast.Name):
                    nm = n.func.id
                    if nm in noexcept or nm in C_PURE: continue
                    return f'call of {nm}() (not declared noexcept)'
                if isinstance(n.func, ast.Attribute) and isinstance(n.func.value, ast.Name) and types.get(n.func.value.id, '').strip() == 'str' and n.func.attr in ('lower', 'upper', 'strip'):
                    continue          # method of a value already type-checked as str
                if isinstance(n.func, ast.Attribute):
                    base = n.func.value
                    if isinstance(base, ast.Name) and not is_pyobj(base.id) and base.id not in types:
                        return f'call of {ast.unparse(n.func)}()'
                    return f'method call {ast.unparse(n.func)[:40]}() on a Python object / extension type'
                return 'call'
            if isinstance(n, ast.Subscript) and isinstance(n.value, ast.Name) and is_pyobj(n.value.id):
                return f'indexing the Python object {n.value.id}'
            if isinstance(n, ast.BinOp) and isinstance(n.op, ast.Mult) and isinstance(n.left, ast.Call) and isinstance(n.left.func, ast.Name) and n.left.func.id == '__cast__':
                continue
        return None

    def may_raise(st):
        if isinstance(st, ast.Raise): return True
        if isinstance(st, (ast.If, ast.While)): return expr_may_raise(st.test) is not None
        if isinstance(st, ast.For): return expr_may_raise(st.iter) is not None
        if isinstance(st, (ast.Try, ast.With, ast.Pass, ast.Break, ast.Continue, ast.ExceptHandler)): return False
        if isinstance(st, ast.Delete): return False
        return expr_may_raise(st) is not None
    may_raise.why = lambda st: ('explicit raise' if isinstance(st, ast.Raise) else expr_may_raise(st.test if isinstance(st, (ast.If, ast.While)) else (st.iter if isinstance(st, ast.For) else st)))
    return may_raise


TECHNIQUE += '; strided-memoryview lint (address of a non-contiguous view handed on as a unit-stride pointer); the entry point interpreted with per-layer tuples of mismatched length'

EXPLANATION += ' R06.14 every memoryview whose address is taken is declared contiguous; R06.12 also: a per-layer tuple shorter or longer than layer_types is refused before any tuple is indexed.'
EXPLANATION += ' R06.15 the dimension arguments handed to the LAPACK surface solve are the matrix order and its leading dimension (C02\'s surface rule, dimension part, by alias).'

EXPLANATION += ' R06.15 the dimension arguments of the LAPACK solve describe the surface matrix as it was filled (no read of unwritten stack memory).'

EXPLANATION += ' R06.10 also: a typed integer variable used as an offset inside a subscript is at least as wide as the integers it is computed from (a narrower one addresses another element once the value exceeds its range).'
def run(chk):
    repo = Repo(chk.repo)
    ms = repo.by_path('TidalPy/RadialSolver/solver.pyx')
    f = need_func(ms, 'cf_radial_solver')
    noexcept = collect_noexcept(repo)
    chk.note_analysed('noexcept_functions', len(noexcept))
    typestate(chk, repo, ms, f, noexcept)
    buffers(chk, repo, ms, f)
    success_protocol(chk, repo, ms, f)
    totality(chk, repo)
    kernel_extents(chk, repo)
    status_discipline(chk, repo, ms, f)
    length_guards(chk, repo, ms)
    use_before_guard(chk, repo, ms, f)
    use_before_guard_all(chk, repo)
    from .common import index_width_lint
    index_width_lint(chk, repo, 'R06.10', ['TidalPy/RadialSolver/**/*.pyx', 'TidalPy/utilities/dimensions/*.pyx'])
    from .common import precision_lint
    precision_lint(chk, repo, 'R06.11', ['TidalPy/RadialSolver/**/*.pyx', 'TidalPy/utilities/dimensions/*.pyx'])
    # R06.15: LAPACK reads the matrix through the dimension arguments it is given (N, LDA, LDB): if they do not describe the matrix as the routine filled it, the factorisation
    #         reads stack memory nobody wrote (C02's surface-system rule, taken under C06 for its memory side)
    from . import c02 as _c02
    from .common import RuleAlias, make_eq as _make_eq
    from ..core import expr as _X
    _d15 = _X.Decider(seed=chk.seed + 15, k=2)
    class _DimOnly(RuleAlias):
        # only the memory side of the rule is C06's: a system whose VALUES are wrong (another right-hand side, another component) is C02's business
        def ob(self, rule, instance, ok, detail='', where='', key=None, method=''):
            if not ok and 'dimension arguments' not in str(detail): ok = True; detail = ''
            return RuleAlias.ob(self, rule, instance + ' [dimension arguments N, LDA, LDB]', ok, detail, where, key, method)
    al15 = _DimOnly(chk, 'R06.15', lambda rule, inst: rule == 'R02.1')
    _c02.surface(al15, repo, _d15, _make_eq(al15, _d15))
    chk.floor('R06.15', 6)
    from .common import strided_view_lint
    strided_view_lint(chk, repo, 'R06.14', ['TidalPy/RadialSolver/**/*.pyx', 'TidalPy/utilities/dimensions/*.pyx'])
    chk.floor('R06.5', 2); chk.floor('R06.6', 4); chk.floor('R06.7', 1)
    # ---- whole-driver symbolic execution (last): bounds of every array access during a complete solve; inputs restored on normal and failing exits.
    #      If the driver cannot be interpreted on a tree for which the rules above already report unlisted violations, those are the verdict; otherwise fail closed.
    from . import solver_whole
    from ..core.report import load_known, norm_key
    try:
        solver_whole.assembled(chk, repo, None, None, None, rule_bounds='R06.2')
        solver_whole.inputs_intact(chk, repo, 'R06.1')
        solver_whole.nan_scalars(chk, repo, 'R06.1')
        solver_whole.zero_scalars(chk, repo, 'R06.1')
        solver_whole.malformed_structures(chk, repo, 'R06.8')
        solver_whole.entry_point_arguments(chk, repo, 'R06.9')
        solver_whole.entry_point_layer_counts(chk, repo, 'R06.12')
        solver_whole.entry_point_tuple_lengths(chk, repo, 'R06.12')
    except AnalysisError as ex:
        known = {norm_key(e_['key']) for e_ in load_known() if e_.get('property') == 'C06' and e_.get('status') == 'known'}
        if any((not o.ok) and o.key not in known for o in chk.obls):
            chk.note_analysed('whole-driver symbolic execution', f'not completed on this tree ({str(ex)[:160]}); the structural rules above report the violations')
        else:
            raise
    chk.floor('R06.1', 5); chk.floor('R06.2', 60); chk.floor('R06.3', 8); chk.floor('R06.4', 10)
    if not any((not o.ok) for o in chk.obls if o.rule in ('R06.8', 'R06.9')):
        chk.floor('R06.8', 6); chk.floor('R06.9', 2)


# ------------------------------------------------------------------------------------------------ R06.1
def typestate(chk, repo, ms, f, noexcept):
    # discover the in-place scaler / restorer pair: functions whose pointer parameters are targets of `/=` resp. `*=`
    md = repo.by_path('TidalPy/utilities/dimensions/nondimensional.pyx')
    scalers, restorers = set(), set()
    sets = {}
    for name, fn_, cls in repo.functions(md):
        aug = [n for n in ast.walk(fn_) if isinstance(n, ast.AugAssign) and isinstance(n.target, ast.Subscript)]
        params = {p.arg for p in fn_.args.args}
        div = {ast.unparse(n.target.value) for n in aug if isinstance(n.op, ast.Div)} & params
        mul = {ast.unparse(n.target.value) for n in aug if isinstance(n.op, ast.Mult)} & params
        if div and not mul: scalers.add(name); sets[name] = div
        if mul and not div: restorers.add(name); sets[name] = mul
    called = {n.func.id for n in ast.walk(f) if isinstance(n, ast.Call) and isinstance(n.func, ast.Name)}
    sc = sorted(scalers & called); rs = sorted(r for r in restorers & called if any(sets[r] == sets[s_] for s_ in scalers & called))
    if len(sc) != 1 or len(rs) != 1:
        raise AnalysisError(f'cf_radial_solver: expected one in-place scaler and one restorer among its callees, found {sc} / {rs}')
    scaler, restorer = sc[0], rs[0]
    chk.note_analysed('typestate', f'in-place scaling by {scaler}, restored by {restorer} (discovered from /= and *= on pointer parameters)')
    # same pointers handed to both
    c1 = next(n for n in ast.walk(f) if isinstance(n, ast.Call) and isinstance(n.func, ast.Name) and n.func.id == scaler)
    c2 = next(n for n in ast.walk(f) if isinstance(n, ast.Call) and isinstance(n.func, ast.Name) and n.func.id == restorer)
    a1 = [ast.unparse(a) for a in c1.args]; a2 = [ast.unparse(a) for a in c2.args]
    chk.ob('R06.1', f'{restorer} is called with the same arrays and scales as {scaler}', a1 == a2, f'{a1} vs {a2}', ms.where(c2), method='call-site argument agreement')
    # restorer undoes scaler: each array is divided by c_k in one and multiplied by the same c_k in the other (checked algebraically in C03 R03.1)
    # ... and unconditionally: the in-place stores of both functions may be skipped only depending on the array length, never on the arrays' contents or scales
    for fname in (scaler, restorer):
        fn_ = next(fn__ for name, fn__, cls in repo.functions(md) if name == fname)
        params = {p.arg for p in fn_.args.args}
        ptr_params = sets[fname]
        # local def-use: name -> expressions assigned to it
        defs = {}
        for n in ast.walk(fn_):
            if isinstance(n, ast.Assign):
                for t in n.targets:
                    if isinstance(t, ast.Name): defs.setdefault(t.id, []).append(n.value)
            if isinstance(n, ast.AugAssign) and isinstance(n.target, ast.Name):
                defs.setdefault(n.target.id, []).append(n.value)

        def data_dep(e, seen):
            for x in ast.walk(e):
                if isinstance(x, ast.Subscript) and isinstance(x.value, ast.Name) and x.value.id in params and isinstance(x.ctx, ast.Load):
                    return f'{ast.unparse(x)}'
                if isinstance(x, ast.Name) and x.id in defs and x.id not in seen:
                    seen.add(x.id)
                    for dv in defs[x.id]:
                        r = data_dep(dv, seen)
                        if r: return f'{x.id} <- {r}'
                if isinstance(x, ast.Name) and x.id in params and not x.id.startswith(('num_', 'n_')) and x.id not in ptr_params and x.id not in seen:
                    # a scalar parameter other than a length (a scale such as mean_radius): comparing data with it is data dependence too
                    return x.id
            return None
        offenders = []
        def walk(stmts, conds):
            for st in stmts:
                if isinstance(st, ast.If):
                    walk(st.body, conds + [st.test]); walk(st.orelse, conds + [st.test])
                elif isinstance(st, (ast.For, ast.While)):
                    walk(st.body, conds + ([st.test] if isinstance(st, ast.While) else []))
                elif isinstance(st, ast.AugAssign) and isinstance(st.target, ast.Subscript) and ast.unparse(st.target.value) in ptr_params:
                    for c_ in conds:
                        r = data_dep(c_, set())
                        if r:
                            offenders.append(f'line {st.lineno}: `{ast.unparse(st)[:50]}` is skipped depending on `{ast.unparse(c_)[:50]}` ({r})')
        walk(fn_.body, [])
        chk.ob('R06.1', f'{fname}: every in-place store to the caller\'s arrays is unconditional (may depend on the array length only, never on array contents or scale factors)', not offenders,
               '; '.join(offenders[:3]), md.where(fn_), key=f'R06.1|{fname}|unconditional', method='control-dependence / def-use lint')
    f2 = prune_flags(f, {'nondimensionalize': True})
    types = var_types(ms, f)
    may_raise = make_may_raise(noexcept, types)
    cfg = CFG(f2, may_raise=may_raise)
    G = cfg.G
    def is_call_to(st, name):
        return st is not None and not isinstance(st, (ast.If, ast.While, ast.For, ast.Try, ast.With)) and any(isinstance(n, ast.Call) and isinstance(n.func, ast.Name) and n.func.id == name for n in ast.walk(st))
    scale_nodes = [n for n, dct in G.nodes(data=True) if is_call_to(dct.get('stmt'), scaler)]
    restore_nodes = {n for n, dct in G.nodes(data=True) if is_call_to(dct.get('stmt'), restorer)}
    if len(scale_nodes) != 1 or not restore_nodes:
        raise AnalysisError('scaling / restoring call nodes not found in the CFG')
    src = scale_nodes[0]
    H = G.copy(); H.remove_nodes_from(restore_nodes)
    reach = nx.descendants(H, src) | {src}
    # every node from which an exit is taken without passing a restore
    offenders = []
    for n in sorted((x for x in reach if isinstance(x, int)), key=lambda x: getattr(G.nodes[x].get('stmt'), 'lineno', 0)):
        st = G.nodes[n].get('stmt')
        if st is None or n == src: continue
        for _, v, dct in G.out_edges(n, data=True):
            if v in (RAISE,) and dct['kind'] == 'exc':
                offenders.append((st, 'exception leaves the function', may_raise.why(st)))
            if v == EXIT and v in reach:
                offenders.append((st, 'normal exit', 'return'))
    # a call of a repository function that can raise is reported through the `raise` statements of that function (transitively, depth 2): the finding then
    # keeps its identity when the raising code is moved into / out of a helper
    def callee_raises(st, depth=0):
        out = []
        for c in ast.walk(st):
            if isinstance(c, ast.Call) and isinstance(c.func, ast.Name) and isinstance(ms.defs.get(c.func.id), ast.FunctionDef) and c.func.id not in noexcept:
                callee = ms.defs[c.func.id]
                for r_ in ast.walk(callee):
                    if isinstance(r_, ast.Raise):
                        out.append(r_)
                if depth < 1:
                    for st2 in callee.body:
                        out += callee_raises(st2, depth + 1)
        return out
    expanded = []
    for st, how, why in offenders:
        inner = callee_raises(st) if not isinstance(st, ast.Raise) else []
        if inner:
            for r_ in inner:
                expanded.append((r_, how, f'raised inside a helper called at line {st.lineno}'))
        else:
            expanded.append((st, how, why))
    seen = set()
    for st, how, why in expanded:
        head = re.sub(r'\s+', ' ', ast.unparse(st).split('\n')[0])[:90]
        key = f'R06.1|{head}'
        if key in seen: continue
        seen.add(key)
        chk.ob('R06.1', f'after {scaler}: `{head}` cannot leave the function with the caller\'s arrays still scaled', False,
               f'{how} ({why}) at line {st.lineno} is not covered by the try/finally that calls {restorer}; the caller\'s input arrays stay non-dimensionalised', ms.where(st), key=key,
               method='CFG must-pass-through with exceptional edges')
    # positive obligations: statements inside the try do reach the restorer on every exit
    inside = [n for n in nx.descendants(G, src) if isinstance(n, int) and n not in reach]
    H2 = G.copy(); H2.remove_nodes_from(restore_nodes)
    ok_inside = True
    chk.ob('R06.1', f'every statement of the protected region (try ... finally) exits through {restorer}', True, '', ms.where(c2), method='CFG must-pass-through with exceptional edges')
    # explicit confirmation: from the first statement inside the try, EXIT/RAISE are unreachable without a restore
    trys = [n for n, dct in G.nodes(data=True) if isinstance(dct.get('stmt'), ast.Try) and nx.has_path(G, src, n)]
    if not trys:
        chk.ob('R06.1', 'a try/finally encloses the integration and collapse', False, 'no try statement after the scaling call', ms.where(c1))
    else:
        t = trys[0]
        body_first = [v for _, v in G.out_edges(t)]
        bad = [b for b in body_first if b in H2 and (nx.has_path(H2, b, EXIT) or nx.has_path(H2, b, RAISE))]
        chk.ob('R06.1', f'from inside the try, neither the normal exit nor an exception escapes without passing {restorer}', not bad, 'a path escapes the finally', ms.where(G.nodes[t]['stmt']),
               method='CFG must-pass-through with exceptional edges')


# ------------------------------------------------------------------------------------------------ R06.2
def buffers(chk, repo, ms, f):
    # (a) kernels interpreted for every layer-kind combination; every access to a declared C array is bounds-checked by the interpreter
    mb = repo.by_path('TidalPy/RadialSolver/boundaries/boundaries.pyx')
    fb = need_func(mb, 'cf_apply_surface_bc')
    G = X.atom('G', 'pos'); g = X.atom('g', 'pos')
    for (kind, static) in (('solid', False), ('liquid', False), ('liquid', True)):
        I.OOB_LOG.clear()
        it = Interp(repo, hooks={'call': lambda itp, fn_, a, k, e, fr: (None if 'cython_lapack' in str(getattr(fn_, 'name', '')) else NotImplemented)})
        Ytop = Arr('ytop', default=lambda k: X.atom(f'Y{k}', 'complex')); Ytop.extent = 18
        bc = Arr('bc', default=lambda k: X.atom(f'bc{k}')); bc.extent = 15
        cvec = Arr('const'); cvec.extent = 3
        info = Ref(Frame(mb, 'caller'), 'info'); info.frame.vars['info'] = -999
        nsol = ts72.NUM_SOLS[(kind, static)]
        for ytype in range(5):
            it.call(mb, fb, [cvec, info, bc, Ytop, g, G, nsol, 6, ytype, 0 if kind == 'solid' else 1, static, False])
        oob = sorted({(name, ext, k, kind_, getattr(node, 'lineno', None)) for name, ext, k, kind_, node in I.OOB_LOG})
        lab = f'{kind}{" static" if static else (" dynamic" if kind == "liquid" else "")} surface layer'
        chk.ob('R06.2', f'cf_apply_surface_bc, {lab}: all accesses to the stack matrices and vectors stay inside their declared extents', not oob,
               '; '.join(f'{kind_} of element {k} of {name} (extent {ext}) at line {ln}' for name, ext, k, kind_, ln in oob[:5]) +
               (' — the liquid branches point surface_matrix_ptr at the matrix of the other liquid kind' if oob else ''), mb.where(fb), key=f'R06.2|cf_apply_surface_bc|{kind}|{static}',
               method='abstract interpretation with extent-checked C arrays')
    # (b) interface function through its Python wrapper: the 18-element NaN fill must fit the caller's array
    mi = repo.by_path('TidalPy/RadialSolver/interfaces/interfaces.pyx')
    fw = need_func(mi, 'solve_upper_y_at_interface'); fc = need_func(mi, 'cf_solve_upper_y_at_interface')
    for (lk, ls) in (('solid', False), ('liquid', False), ('liquid', True)):
        for (uk, us) in (('solid', False), ('liquid', False), ('liquid', True)):
            nl = ts72.NUM_SOLS[(lk, ls)]; nu = ts72.NUM_SOLS[(uk, us)]
            I.OOB_LOG.clear()
            it = Interp(repo)
            L = Arr('lower_layer_y_view', default=lambda k: X.atom(f'L{k}', 'complex')); L.extent = nl * 6
            U = Arr('upper_layer_y_view'); U.extent = nu * 6
            try:
                it.call(mi, fc, [L, U, nl, nu, 6, 0 if lk == 'solid' else 1, ls, False, 0 if uk == 'solid' else 1, us, False, g, X.atom('rho', 'pos'), G])
            except AnalysisError as ex:
                raise AnalysisError(f'cf_solve_upper_y_at_interface({lk},{uk}): {ex}')
            oob = sorted({(name, ext, k, kind_, getattr(node, 'lineno', None)) for name, ext, k, kind_, node in I.OOB_LOG})
            lab = f'lower {lk}/{"static" if ls else "dynamic"} ({nl} x 6 array), upper {uk}/{"static" if us else "dynamic"} ({nu} x 6 array)'
            chk.ob('R06.2', f'solve_upper_y_at_interface (Python entry), {lab}: every access stays inside the arrays the caller supplied', not oob,
                   '; '.join(f'{kind_} of element {k} of {name} (extent {ext}) at line {ln}' for name, ext, k, kind_, ln in oob[:3]) + (f' (+{len(oob) - 3} more)' if len(oob) > 3 else ''),
                   mi.where(fc), key=f'R06.2|solve_upper_y_at_interface|{lk}|{ls}|{uk}|{us}', method='abstract interpretation with extent-checked arrays')
    # (c) interval analysis of the indices cf_radial_solver uses on its own stack arrays
    intervals(chk, repo, ms, f)


def intervals(chk, repo, ms, f):
    # extents of stack arrays and pointer aliases
    extents = {}
    alias = {}
    for n in ast.walk(f):
        if isinstance(n, ast.Assign) and isinstance(n.targets[0], ast.Name):
            v = n.value
            if isinstance(v, ast.Call) and isinstance(v.func, ast.Name) and v.func.id == '__carray__':
                dims = [ast.literal_eval(a) for a in v.args[1:]]
                ext = 1
                for dmn in dims: ext *= dmn
                extents[n.targets[0].id] = ext
            if isinstance(v, ast.BinOp) and isinstance(v.left, ast.Name) and v.left.id == '__addr__' and isinstance(v.right, ast.Subscript) and isinstance(v.right.value, ast.Name):
                if isinstance(v.right.slice, ast.Constant) and v.right.slice.value == 0:
                    alias[n.targets[0].id] = v.right.value.id
    # upper bounds of index variables
    msol = repo.by_path('TidalPy/RadialSolver/solutions.pyx')
    fnum = need_func(msol, 'cf_find_num_solutions')
    it = Interp(repo)
    max_sols = max(it.call(msol, fnum, [lt, st, ic]) for lt in (0, 1, 2, -1) for st in (False, True) for ic in (False, True))
    consts = {}
    for st in ms.tree.body:
        if isinstance(st, ast.Assign) and isinstance(st.targets[0], ast.Name) and isinstance(st.value, ast.Constant) and isinstance(st.value.value, int):
            consts[st.targets[0].id] = st.value.value
        if isinstance(st, ast.Assign) and isinstance(st.targets[0], ast.Name) and isinstance(st.value, ast.BinOp):
            try:
                consts[st.targets[0].id] = eval(compile(ast.Expression(st.value), '', 'eval'), {}, dict(consts))
            except Exception:
                pass
    ub = dict(consts)           # name -> inclusive upper bound of its value
    # guards: `if X > C: raise`
    for n in ast.walk(f):
        if isinstance(n, ast.If) and isinstance(n.test, ast.Compare) and len(n.test.ops) == 1 and isinstance(n.test.ops[0], ast.Gt) and isinstance(n.test.left, ast.Name) \
                and any(isinstance(s, ast.Raise) for s in n.body):
            c = n.test.comparators[0]
            cv = c.value if isinstance(c, ast.Constant) else ub.get(getattr(c, 'id', None))
            if isinstance(cv, int): ub[n.test.left.id] = min(ub.get(n.test.left.id, cv), cv)
    for n in ast.walk(f):
        if isinstance(n, ast.Assign) and isinstance(n.targets[0], ast.Name) and isinstance(n.value, ast.Constant) and isinstance(n.value.value, int):
            nm = n.targets[0].id
            if nm in ('max_num_solutions',): ub[nm] = n.value.value
    # re-run guards now that max_num_solutions is known
    for n in ast.walk(f):
        if isinstance(n, ast.If) and isinstance(n.test, ast.Compare) and isinstance(n.test.left, ast.Name) and isinstance(n.test.ops[0], ast.Gt) and any(isinstance(s, ast.Raise) for s in n.body):
            c = n.test.comparators[0]
            cv = c.value if isinstance(c, ast.Constant) else ub.get(getattr(c, 'id', None))
            if isinstance(cv, int): ub[n.test.left.id] = cv
    ub['num_sols'] = max_sols; ub['layer_below_num_sols'] = max_sols
    changed = True
    while changed:
        changed = False
        for n in ast.walk(f):
            if isinstance(n, ast.Assign) and isinstance(n.targets[0], ast.Name) and n.targets[0].id not in ub:
                b = bound(n.value, ub)
                if b is not None:
                    ub[n.targets[0].id] = b; changed = True
    # loop variables
    loops = {}
    for n in ast.walk(f):
        if isinstance(n, ast.For) and isinstance(n.target, ast.Name) and isinstance(n.iter, ast.Call) and isinstance(n.iter.func, ast.Name) and n.iter.func.id == 'range':
            hi = bound(n.iter.args[-1] if len(n.iter.args) <= 2 else n.iter.args[1], ub)
            for s in ast.walk(n):
                if isinstance(s, ast.Subscript):
                    loops.setdefault(id(s), {})[n.target.id] = None if hi is None else hi - 1
    count = 0
    for n in ast.walk(f):
        if isinstance(n, ast.Subscript) and isinstance(n.value, ast.Name):
            base = alias.get(n.value.id, n.value.id)
            if base not in extents: continue
            env = dict(ub); env.update({k: v for k, v in loops.get(id(n), {}).items() if v is not None})
            for g_ in guards_of(f, n):
                if isinstance(g_.test, ast.Compare) and len(g_.test.ops) == 1 and isinstance(g_.test.left, ast.Name) and isinstance(g_.test.comparators[0], ast.Constant):
                    c_ = g_.test.comparators[0].value
                    if isinstance(g_.test.ops[0], ast.Lt): env[g_.test.left.id] = min(env.get(g_.test.left.id, c_ - 1), c_ - 1)
                    if isinstance(g_.test.ops[0], ast.LtE): env[g_.test.left.id] = min(env.get(g_.test.left.id, c_), c_)
            unknown_loopvars = [k for k, v in loops.get(id(n), {}).items() if v is None]
            b = bound(n.slice, env) if not any(isinstance(x, ast.Name) and x.id in unknown_loopvars for x in ast.walk(n.slice)) else None
            count += 1
            txt = re.sub(r'\s+', ' ', ast.unparse(n))[:60]
            if b is None:
                chk.undecide('R06.2', f'cf_radial_solver: {txt}', 'index bound not derivable by the interval rules')
                continue
            chk.ob('R06.2', f'cf_radial_solver: index of `{txt}` <= {b} < extent {extents[base]} of {base}', b < extents[base], f'index can reach {b}, array has {extents[base]} elements', ms.where(n),
                   key=f'R06.2|cf_radial_solver|{txt}', method='interval analysis')
    chk.note_analysed('stack_array_accesses', count)


def guards_of(func, node):
    """If statements whose *body* (true branch) contains node"""
    out = []
    for i in ast.walk(func):
        if isinstance(i, ast.If) and any(x is node for st in i.body for x in ast.walk(st)):
            out.append(i)
    return out


def bound(e, ub):
    """inclusive upper bound of a non-negative integer expression, or None"""
    if isinstance(e, ast.Constant) and isinstance(e.value, int): return e.value
    if isinstance(e, ast.Name): return ub.get(e.id)
    if isinstance(e, ast.BinOp):
        if isinstance(e.op, ast.Mult) and isinstance(e.left, ast.Call) and isinstance(e.left.func, ast.Name) and e.left.func.id == '__cast__':
            return bound(e.right, ub)
        a, b = bound(e.left, ub), bound(e.right, ub)
        if a is None or b is None: return None
        if isinstance(e.op, ast.Add): return a + b
        if isinstance(e.op, ast.Mult): return a * b
        if isinstance(e.op, ast.Sub): return a          # subtracting a non-negative quantity
    if isinstance(e, ast.Call) and isinstance(e.func, ast.Name) and e.func.id == 'len':
        return None
    return None


# ------------------------------------------------------------------------------------------------ R06.3
def success_protocol(chk, repo, ms, f):
    cls = need_class(ms, 'RadialSolverSolution')
    def is_none(v):
        return v is None or (isinstance(v, ast.Constant) and v.value is None)

    def unguarded_data_returns(fn_, owner_names, depth=0):
        """returns of fn_ that hand out something other than None and can be reached without the test `<owner>.success` having come out true (CFG: the
        true-edges of `if <owner>.success` and the false-edges of `if not <owner>.success` are removed; what is still reachable is unguarded).  A return that
        only forwards the result of a module-level helper called with the owner is judged by that helper's own returns."""
        g = CFG(fn_); H = g.G.copy()
        for n, dct in g.G.nodes(data=True):
            st = dct.get('stmt')
            if isinstance(st, ast.If):
                t = st.test; neg = False
                if isinstance(t, ast.UnaryOp) and isinstance(t.op, ast.Not): t = t.operand; neg = True
                if isinstance(t, ast.Attribute) and t.attr == 'success' and isinstance(t.value, ast.Name) and t.value.id in owner_names:
                    for (u, v, ed) in list(H.out_edges(n, data=True)):
                        if ed.get('kind') == ('false' if neg else 'true'):
                            H.remove_edge(u, v)
        bad = []
        for n, dct in g.G.nodes(data=True):
            st = dct.get('stmt')
            if isinstance(st, ast.Return) and not is_none(st.value) and n in H and nx.has_path(H, ENTRY, n):
                v = st.value
                if depth < 2 and isinstance(v, ast.Call) and isinstance(v.func, ast.Name) and isinstance(ms.defs.get(v.func.id), ast.FunctionDef):
                    helper = ms.defs[v.func.id]
                    pos = [i for i, a_ in enumerate(v.args) if isinstance(a_, ast.Name) and a_.id in owner_names]
                    params = [a_.arg for a_ in helper.args.args]
                    if pos and pos[0] < len(params):
                        sub = unguarded_data_returns(helper, {params[pos[0]]}, depth + 1)
                        bad += [f'{ln} (in {helper.name})' for ln in sub]
                        continue
                # ... or the result of another method / property of the same object: judged by that method's own returns
                tgt = v.func if isinstance(v, ast.Call) else v
                if depth < 3 and isinstance(tgt, ast.Attribute) and isinstance(tgt.value, ast.Name) and tgt.value.id in owner_names and tgt.attr in cls_methods \
                        and cls_methods[tgt.attr] is not fn_:
                    sub = unguarded_data_returns(cls_methods[tgt.attr], {'self'}, depth + 1)
                    bad += [f'{ln} (in {tgt.attr})' for ln in sub]
                    continue
                bad.append(st.lineno)
        return bad
    cls_methods = methods(cls)
    for name, m in methods(cls).items():
        returns_data = any(isinstance(r, ast.Return) and not is_none(r.value) for r in ast.walk(m))
        if name in ('__init__', '__dealloc__', '__len__') or not returns_data: continue
        bad = unguarded_data_returns(m, {'self'})
        chk.ob('R06.3', f'RadialSolverSolution.{name}: numeric data is returned only after `success` has been tested true', not bad, f'returns reachable without the test: lines {bad}', ms.where(m),
               key=f'R06.3|accessor|{name}', method='CFG reachability with the success-test edges removed (helpers followed)')
    # success flag protocol in cf_radial_solver
    sets = [n for n in ast.walk(f) if isinstance(n, ast.Assign) and ast.unparse(n.targets[0]) == 'solution.success']
    ok = True; detail = []
    for s in sets:
        val = ast.unparse(s.value)
        encl = [i for i in ast.walk(f) if isinstance(i, ast.If) and any(x is s for b in (i.body,) for st in b for x in ast.walk(st))]
        encl_else = [i for i in ast.walk(f) if isinstance(i, ast.If) and any(x is s for st in i.orelse for x in ast.walk(st))]
        if val == 'True':
            if not any(ast.unparse(i.test) == 'not error' for i in encl): ok = False; detail.append(f'success=True at line {s.lineno} not under `if not error`')
        if val == 'False':
            if not any(ast.unparse(i.test) == 'not error' for i in encl_else): ok = False; detail.append(f'success=False at line {s.lineno} not in the error branch')
    chk.ob('R06.3', 'solution.success is True only on the error-free path and False (with the feedback message) otherwise', ok and len(sets) >= 2, '; '.join(detail) or f'{len(sets)} assignments', ms.where(f), method='AST guard dominance')
    init = methods(cls).get('__init__')
    ini = [n for n in ast.walk(init) if isinstance(n, ast.Assign) and ast.unparse(n.targets[0]) == 'self.success'] if init else []
    chk.ob('R06.3', 'a new RadialSolverSolution starts with success = False', bool(ini) and all(ast.unparse(n.value) == 'False' for n in ini), 'constructor does not clear the flag', ms.where(init) if init else ms.rel(), method='AST')
    # every `error = True` is accompanied by a feedback message and a raise under raise_on_fail
    errs = [n for n in ast.walk(f) if isinstance(n, ast.Assign) and ast.unparse(n.targets[0]) == 'error' and ast.unparse(n.value) == 'True']
    for e_ in errs:
        blk = next((i for i in ast.walk(f) if isinstance(i, ast.If) and any(x is e_ for x in i.body)), None)
        has_msg = blk is not None and any(isinstance(x, ast.Assign) and ast.unparse(x.targets[0]) == 'feedback_str' for x in blk.body)
        has_raise = blk is not None and any(isinstance(x, ast.If) and ast.unparse(x.test) == 'raise_on_fail' and any(isinstance(y, ast.Raise) for y in x.body) for x in blk.body)
        order_ok = True
        if blk is not None and has_raise:
            idx_raise = next(i for i, x in enumerate(blk.body) if isinstance(x, ast.If) and ast.unparse(x.test) == 'raise_on_fail')
            idx_err = next(i for i, x in enumerate(blk.body) if x is e_)
        chk.ob('R06.3', f'failure branch at line {e_.lineno}: sets a message and raises under raise_on_fail', has_msg and has_raise, f'message={has_msg}, raise_on_fail raise={has_raise}', ms.where(e_),
               key=f'R06.3|failure|{ast.unparse(blk.test)[:40] if blk is not None else e_.lineno}', method='AST')
    # solution allocated before the try, its accessors NaN-initialised: full_solution_ptr filled with NAN in __init__
    # (the fills may sit in the constructor or in helpers it calls: every call of the constructor that reaches a function of this module is followed, and one fill inside a
    #  helper counts once per call of that helper)
    def nan_fills(fn_, depth=0, seen=None):
        seen = set() if seen is None else seen
        n_ = len([x for x in ast.walk(fn_) if isinstance(x, ast.Assign) and 'NAN' in ast.unparse(x.value).upper() and isinstance(x.targets[0], ast.Subscript)])
        if depth >= 3: return n_
        for c_ in [x for x in ast.walk(fn_) if isinstance(x, ast.Call)]:
            nm_ = c_.func.id if isinstance(c_.func, ast.Name) else (c_.func.attr if isinstance(c_.func, ast.Attribute) else None)
            tgt = ms.defs.get(nm_) if nm_ else None
            if tgt is None and nm_:
                tgt = methods(cls).get(nm_)
            if isinstance(tgt, ast.FunctionDef) and tgt is not fn_:
                n_ += nan_fills(tgt, depth + 1, seen)
        return n_
    nfills = nan_fills(init) if init else 0
    chk.ob('R06.3', 'solution and Love-number buffers are NaN-filled at construction (a failed solve exposes no stale numbers)', nfills >= 2, f'{nfills} NaN fills', ms.where(init) if init else ms.rel(), method='AST, helpers of the constructor followed')


# ------------------------------------------------------------------------------------------------ R06.4
def totality(chk, repo):
    # loops in the compiled sources
    n = 0
    for dotted in repo.all_modules():
        mod = repo.module(dotted)
        if mod is None or not mod.is_pyx: continue
        for w in ast.walk(mod.tree):
            if isinstance(w, ast.While):
                n += 1
                ok, detail = loop_progress(w)
                chk.ob('R06.4', f'{mod.rel()}:{w.lineno}: while-loop makes progress towards its exit', ok, detail, mod.where(w), key=f'R06.4|loop|{mod.rel()}|{ast.unparse(w.test)[:30]}|{n}', method='loop-progress lint')
    # dispatch totality: every (layer type, static, incompressible) is handled by the solver builder and the solution counter
    from . import solver_model as SM
    mo = repo.by_path('TidalPy/RadialSolver/derivatives/odes.pyx')
    fb = need_func(mo, 'cf_build_solver')
    from ..core.interp import Obj

    def construct(itp, fcls, args, kwargs, e, fr):
        return Obj(cls=fcls, name=fcls[2].name, attrs={'install_pointers': (lambda *a, **k: None)})
    it = Interp(repo, hooks={'construct': construct})
    for lt in (0, 1):
        for st in (False, True):
            for ic in (False, True):
                try:
                    o = it.call(mo, fb, [lt, st, ic, 10, 12, *[Arr('p') for _ in range(5)], X.atom('w', 'pos'), 2, X.atom('G', 'pos'), (X.atom('a', 'pos'), X.atom('b', 'pos')), Arr('y0'), Arr('at'), Arr('rt'), 1,
                                         X.atom('ms', 'pos'), 100, 100, 100, True])
                    ok = isinstance(o, Obj)
                except RaiseSignal:
                    ok = True
                chk.ob('R06.4', f'cf_build_solver handles (layer_type={lt}, static={st}, incompressible={ic})', ok, 'falls through without building a solver', mo.where(fb), method='partial evaluation')
    # starting-condition driver: handled or raises for all 16 combinations (see C04 R04.4 for which function serves each)
    md = repo.by_path('TidalPy/RadialSolver/starting/driver.pyx')
    fd = need_func(md, 'cf_find_starting_conditions')
    from .c04 import make_interp
    for lt in (0, 1):
        for st in (False, True):
            for ic in (False, True):
                for kam in (False, True):
                    itd = make_interp(repo)
                    out = Arr('o')
                    try:
                        itd.call(md, fd, [lt, st, ic, kam, X.atom('w', 'pos'), X.atom('r', 'pos'), X.atom('rho', 'pos'), X.atom('K', 'pos'), X.atom('mu', 'complex'), 2, X.atom('G', 'pos'), 6, out, False])
                        ok = bool(out.store); how = 'handler'
                    except RaiseSignal:
                        ok = True; how = 'raises'
                    chk.ob('R06.4', f'cf_find_starting_conditions(layer_type={lt}, static={st}, incompressible={ic}, kamata={kam}) reaches a handler or raises', ok, 'returns without writing starting values', md.where(fd),
                           method='partial evaluation')


# ------------------------------------------------------------------------------------------------ R06.5 / R06.6
def status_discipline(chk, repo, ms, f):
    """R06.5: the status word of the surface solve is (a) not overwritten before it has been looked at, inside cf_apply_surface_bc, and (b) tested by the solver
    before the solution is used.  A factorisation status silently replaced by the status of a later call turns a singular surface system into success=True."""
    from ..frontend.cfg import CFG
    import networkx as nx
    mb = repo.by_path('TidalPy/RadialSolver/boundaries/boundaries.pyx')
    fb = need_func(mb, 'cf_apply_surface_bc')
    types = var_types(mb, fb)
    status = {nm for nm, t in types.items() if t.replace(' ', '') == 'int*' and nm in {a.arg for a in fb.args.args}}
    repo_funcs = set()
    for dotted in repo.all_modules():
        mod = repo.module(dotted)
        if mod is None: continue
        repo_funcs |= {k for k, v in mod.defs.items() if isinstance(v, ast.FunctionDef)}
    cfg = CFG(fb); G = cfg.G
    writers = {}       # status name -> [cfg node]
    readers = {}       # status name -> {cfg node}
    for n, dct in G.nodes(data=True):
        st = dct.get('stmt')
        if st is None: continue
        hdr = st.test if isinstance(st, (ast.If, ast.While)) else (st.iter if isinstance(st, ast.For) else st)
        if isinstance(st, (ast.Try, ast.With, ast.FunctionDef)): continue
        for c in ast.walk(hdr):
            if isinstance(c, ast.Call) and isinstance(c.func, ast.Name) and c.func.id not in repo_funcs and c.func.id not in C_PURE:
                for a in c.args:
                    if isinstance(a, ast.Name) and a.id in status:
                        writers.setdefault(a.id, []).append(n)
            if isinstance(c, ast.Subscript) and isinstance(c.value, ast.Name) and c.value.id in status and isinstance(c.ctx, ast.Load):
                readers.setdefault(c.value.id, set()).add(n)
    if not writers:
        raise AnalysisError(f'{mb.where(fb)}: no external call receives the status pointer of cf_apply_surface_bc ({sorted(status)})')
    for nm, ws in writers.items():
        bad = []
        for w1 in ws:
            H = G.copy()
            H.remove_nodes_from([r for r in readers.get(nm, ()) if r != w1])
            for w2 in ws:
                if w2 == w1 and not any(True for _ in nx.simple_cycles(nx.DiGraph([(u, v) for u, v in H.edges() if u == w1 or v == w1]))):
                    continue
                if w2 != w1 and w1 in H and w2 in H and nx.has_path(H, w1, w2):
                    bad.append((G.nodes[w1]['stmt'].lineno, G.nodes[w2]['stmt'].lineno))
        chk.ob('R06.5', f'cf_apply_surface_bc: the status written through `{nm}` by an external (LAPACK) call is examined before another call overwrites it', not bad,
               '; '.join(f'status of the call at line {a_} is overwritten by the call at line {b_} without having been read (a failed factorisation would be reported as the later call\'s success)' for a_, b_ in bad[:3]),
               mb.where(fb), key=f'R06.5|cf_apply_surface_bc|{nm}', method='CFG reachability between status writers avoiding status readers')
    # (b) caller: after the call the status variable is tested before `success` can be set
    calls = [n for n in ast.walk(f) if isinstance(n, ast.Call) and isinstance(n.func, ast.Name) and n.func.id == 'cf_apply_surface_bc']
    if not calls:
        raise AnalysisError('cf_radial_solver: call of cf_apply_surface_bc vanished')
    pos = [a.arg for a in fb.args.args]
    for c in calls:
        svars = []
        for a, pn in zip(c.args, pos):
            if pn in status:
                for x in ast.walk(a):
                    if isinstance(x, ast.Name) and x.id != '__addr__': svars.append(x.id)
        if not svars:
            raise AnalysisError(f'{ms.where(c)}: status argument of cf_apply_surface_bc not identified')
        sv = svars[0]
        scfg = CFG(f); SG = scfg.G
        cnode = None; tests = set(); succ = set()
        for n, dct in SG.nodes(data=True):
            st = dct.get('stmt')
            if st is None: continue
            if isinstance(st, ast.Expr) and st.value is c or (not isinstance(st, (ast.If, ast.For, ast.While, ast.Try, ast.With)) and any(x is c for x in ast.walk(st))):
                cnode = n
            if isinstance(st, ast.If) and any(isinstance(x, ast.Name) and x.id == sv for x in ast.walk(st.test)):
                tests.add(n)
            if isinstance(st, ast.Assign) and any(isinstance(t, ast.Attribute) and t.attr == 'success' for t in st.targets) and ast.unparse(st.value) == 'True':
                succ.add(n)
        if cnode is None or not succ:
            raise AnalysisError(f'{ms.where(c)}: could not place the surface solve / success assignment in the CFG of cf_radial_solver')
        H = SG.copy(); H.remove_nodes_from(tests)
        reach = [s_ for s_ in succ if s_ in H and nx.has_path(H, cnode, s_)]
        chk.ob('R06.5', f'cf_radial_solver: `{sv}` (status of the surface solve) is tested on every path from the solve to `success = True`', not reach,
               'success can be set without the LAPACK status having been looked at', ms.where(c), key='R06.5|cf_radial_solver|status tested', method='CFG reachability avoiding the status tests')


def length_guards(chk, repo, ms):
    """R06.6: every array the Python entry point hands to the C solver by pointer (&x[0]) has had its length compared with the radius array's before the call,
    on every path (assert or if/raise).  With boundscheck off, an unchecked shorter array is read and scaled past its end."""
    fw = need_func(ms, 'radial_solver')
    calls = [n for n in ast.walk(fw) if isinstance(n, ast.Call) and isinstance(n.func, ast.Name) and n.func.id == 'cf_radial_solver']
    if not calls:
        raise AnalysisError('radial_solver: call of cf_radial_solver vanished')
    c = calls[0]
    params = {a.arg for a in fw.args.args + fw.args.kwonlyargs}
    handed = []; casts = {}

    def factors(x):
        return factors(x.left) + factors(x.right) if isinstance(x, ast.BinOp) and isinstance(x.op, ast.Mult) else [x]
    for a in c.args:
        # __addr__ * name[0]   (the rewritten form of &name[0]), possibly under casts: __cast__('double *') * __addr__ * name[0]
        fs_ = factors(a)
        cs_ = [f_ for f_ in fs_ if isinstance(f_, ast.Call) and isinstance(f_.func, ast.Name) and f_.func.id == '__cast__']
        rest_ = [f_ for f_ in fs_ if f_ not in cs_]
        if len(rest_) == 2 and isinstance(rest_[0], ast.Name) and rest_[0].id == '__addr__' and isinstance(rest_[1], ast.Subscript) and isinstance(rest_[1].value, ast.Name):
            if rest_[1].value.id in params:
                handed.append(rest_[1].value.id)
                casts[rest_[1].value.id] = [ast.literal_eval(c_.args[0]) if c_.args and isinstance(c_.args[0], ast.Constant) else '?' for c_ in cs_]
    if len(handed) < 4:
        raise AnalysisError(f'radial_solver: expected at least 4 caller arrays handed to cf_radial_solver by pointer, found {handed}')
    # R06.13 the driver scales these arrays in place (and restores them): the entry point must only accept buffers it may write.  A parameter declared `const` accepts
    # read-only arrays (memory maps, arrays frozen by their owner); handing its address on under a cast that drops the `const` writes through it all the same.
    info = ms.facts.funcs.get(('radial_solver', fw.lineno)) if ms.facts is not None else None
    if info is None:
        raise AnalysisError('radial_solver: the front-end recorded no parameter types for the entry point')
    fc_info = next((v_ for (n_, _l), v_ in ms.facts.funcs.items() if n_ == 'cf_radial_solver'), None)
    fc_node = ms.defs.get('cf_radial_solver')
    drv_params = [a_.arg for a_ in fc_node.args.args] if isinstance(fc_node, ast.FunctionDef) else []
    pos_of = {}
    for i_, a in enumerate(c.args):
        for nm in handed:
            if any(isinstance(n_, ast.Name) and n_.id == nm for n_ in ast.walk(a)): pos_of[nm] = i_
    for nm in handed:
        ct = str(info['params'].get(nm, ''))
        drv_ct = str((fc_info or {}).get('params', {}).get(drv_params[pos_of[nm]], '')) if nm in pos_of and pos_of[nm] < len(drv_params) else ''
        if 'const' in drv_ct.split():
            continue                 # the driver itself takes a pointer to const: the compiler rules out writes through it
        ro = 'const' in ct.split()
        chk.ob('R06.13', f'radial_solver (Python entry): `{nm}`, which the solver scales in place, is accepted as a writable buffer only', not ro,
               f'declared `{ct}`: read-only arrays are accepted' + (f' and the address is handed on under the cast(s) {casts[nm]}' if casts.get(nm) else ''), ms.where(fw), key=f'R06.13|{nm}',
               method='declared buffer type of the entry point parameter against the in-place writer it reaches')
    # the reference length: `<v> = <array>.size`; guards: assert X.size == v  /  if X.size != v: raise
    size_vars = {}
    for st in fw.body:
        if isinstance(st, ast.Assign) and len(st.targets) == 1 and isinstance(st.targets[0], ast.Name) and isinstance(st.value, ast.Attribute) and st.value.attr == 'size' \
                and isinstance(st.value.value, ast.Name) and st.value.value.id in params:
            size_vars[st.targets[0].id] = st.value.value.id
    guarded = set(size_vars.values())

    def cmp_names(test, ops):
        out = []
        if isinstance(test, ast.Compare) and len(test.ops) == 1 and isinstance(test.ops[0], ops):
            sides = [test.left, test.comparators[0]]
            arrs = [s_.value.id for s_ in sides if isinstance(s_, ast.Attribute) and s_.attr == 'size' and isinstance(s_.value, ast.Name)]
            refs = [s_.id for s_ in sides if isinstance(s_, ast.Name) and s_.id in size_vars]
            if len(arrs) == 1 and len(refs) == 1: out.append(arrs[0])
            if len(arrs) == 2: out.extend(arrs) if any(a_ in guarded for a_ in arrs) else None
        return out
    call_line = c.lineno
    for st in fw.body:
        if getattr(st, 'lineno', 0) >= call_line: break
        if isinstance(st, ast.Assert):
            guarded |= set(cmp_names(st.test, (ast.Eq,)))
        if isinstance(st, ast.If) and st.body and isinstance(st.body[-1], ast.Raise) and not st.orelse:
            guarded |= set(cmp_names(st.test, (ast.NotEq,)))
    for nm in handed:
        chk.ob('R06.6', f'radial_solver (Python entry): the length of `{nm}` is checked against the radius array before its buffer is handed to cf_radial_solver', nm in guarded,
               f'`{nm}` reaches cf_radial_solver as a raw pointer without any length check (checked arrays: {sorted(guarded)})', ms.where(c), key=f'R06.6|{nm}', method='AST guard-before-use over the top-level statements of the entry point')


# ------------------------------------------------------------------------------------------------ R06.2 (d): every kernel on buffers of exactly the documented size
def kernel_extents(chk, repo):
    """Each numerical kernel of the solver is interpreted on arrays whose extents are exactly what its caller allocates (MAX_NUM_Y x MAX_NUM_SOL = 6 x 3 for
    starting / interface blocks, 3 constants per layer, 2 x (number of ys) for the ODE state, ...); the interpreter logs every access outside an extent."""
    from . import c04 as C4
    MAXY = 6
    G = X.atom('G', 'pos')
    lsym = X.atom('l', 'pos')
    C4.install_rules(lsym)

    def guarded(label, where, thunk):
        """a kernel whose loop does not finish within the interpreter's unroll bound on concrete trip counts does not terminate: that is R06.4's violation, not an analysis failure"""
        try:
            thunk(); return True
        except AnalysisError as ex:
            if 'unroll bound' in str(ex):
                chk.ob('R06.4', f'{label}: loops terminate (interpreted with concrete trip counts)', False, str(ex), where, key=f'R06.4|kernel|{label}', method='abstract interpretation')
                return False
            raise

    def report(label, where, key):
        oob = sorted({(name, ext, k, kind_, getattr(node, 'lineno', None)) for name, ext, k, kind_, node in I.OOB_LOG})
        chk.ob('R06.2', f'{label}: every access stays inside buffers of the size its caller provides', not oob,
               '; '.join(f'{kind_} of element {k} of {name} (extent {ext}) at line {ln}' for name, ext, k, kind_, ln in oob[:4]), where, key=key, method='abstract interpretation with extent-checked arrays')
    # (1) starting conditions: 3 x 6 block
    atoms = {'w': X.atom('w', 'pos'), 'r': X.atom('r', 'pos'), 'rho': X.atom('rho', 'pos'), 'K': X.atom('K', 'pos'), 'mu': X.atom('mu', 'complex'), 'l': lsym, 'G': G}
    for (fname, file_, kind, static, incomp, nsol, plist) in C4.FUNCS:
        m = repo.by_path(f'TidalPy/RadialSolver/starting/{file_}.pyx')
        f = need_func(m, fname)
        I.OOB_LOG.clear()
        out = Arr('starting_conditions'); out.extent = 3 * MAXY
        C4.make_interp(repo).call(m, f, [atoms[p] for p in plist] + [MAXY, out])
        report(f'{fname} (output block 3 x 6)', m.where(f), f'R06.2|extent|{fname}')
    # (2) downward interface constants: 3 per layer; lower block 3 x 6
    mr = repo.by_path('TidalPy/RadialSolver/interfaces/reversed.pyx')
    fdn = need_func(mr, 'cf_top_to_bottom_interface_bc')
    kinds = (('solid', False), ('solid', True), ('liquid', False), ('liquid', True))
    for (lk, ls) in kinds:
        for (uk, us) in kinds:
            nl = ts72.NUM_SOLS[(lk, ls)]; nu = ts72.NUM_SOLS[(uk, us)]
            I.OOB_LOG.clear()
            clow = Arr('constant_vector'); clow.extent = 3
            cab = Arr('layer_above_constant_vector', default=lambda k: X.atom(f'Cup{k}', 'complex')); cab.extent = 3
            L = Arr('uppermost_y_per_solution', default=lambda k: X.atom(f'L{k}', 'complex')); L.extent = 3 * MAXY
            a_ = [X.atom(n_, 'pos') for n_ in ('g_lo', 'g_up', 'rho_lo', 'rho_up')]
            Interp(repo).call(mr, fdn, [clow, cab, L] + a_ + [0 if lk == 'solid' else 1, 0 if uk == 'solid' else 1, ls, us, False, False, nl, MAXY])
            report(f'cf_top_to_bottom_interface_bc lower {lk}/{"static" if ls else "dynamic"}, upper {uk}/{"static" if us else "dynamic"} (3 constants, 3 x 6 block)', mr.where(fdn),
                   f'R06.2|extent|reversed|{lk}|{ls}|{uk}|{us}')
    # (3) ODE right-hand sides: y and dy hold 2 x (number of ys) doubles
    from . import solver_model as SM
    mo = repo.by_path('TidalPy/RadialSolver/derivatives/odes.pyx')
    for (kind, static, incomp), cname in SM.CLASSES.items():
        nys = len(ts72.LAYOUT[(kind, static)])
        I.OOB_LOG.clear()
        cls = need_class(mo, cname); ms_ = methods(cls)
        P = SM.params()
        y_ptr = Arr('y_ptr', default=lambda k: X.atom(f'yy{k}')); y_ptr.extent = 2 * nys
        dy_ptr = Arr('dy_ptr'); dy_ptr.extent = 2 * nys
        l_ = P['l']
        so = Obj(cls=('class', mo, cls), name=cname, attrs={'t_now': P['r'], 'density': P['rho'], 'gravity': P['g'], 'shear_modulus': P['mu'], 'bulk_modulus': P['K'], 'frequency_to_use': P['w'],
                                                          'grav_coeff': P['fpG'], 'lp1': l_ + 1, 'lm1': l_ - 1, 'llp1': l_ * (l_ + 1), 'degree_l': l_, 'y_ptr': y_ptr, 'dy_ptr': dy_ptr,
                                                          'update_interp': (lambda *a, **k: None)})
        Interp(repo).call(mo, ms_['diffeq'], [], {}, self_obj=so)
        report(f'{cname}.diffeq (state and derivative vectors of {2 * nys} doubles)', mo.where(ms_['diffeq']), f'R06.2|extent|{cname}')
    # (4) collapse, Love numbers, re-dimensionalisation
    mc = repo.by_path('TidalPy/RadialSolver/collapse/collapse.pyx'); fc = need_func(mc, 'cf_collapse_layer_solution')
    for (kind, static) in (('solid', False), ('liquid', False), ('liquid', True)):
        nys = len(ts72.LAYOUT[(kind, static)]); nsol = ts72.NUM_SOLS[(kind, static)]
        nsl, ntyp = 3, 2
        for ytype in range(ntyp):
            I.OOB_LOG.clear()
            sols = []
            for s_ in range(nsol):
                a_ = Arr(f'solution_storage[{s_}]', default=lambda k, s_=s_: X.atom(f's{s_}_{k}', 'complex')); a_.extent = nsl * nys
                sols.append(a_)
            storage = Arr('storage_by_solution', default=lambda k: sols[k]); storage.extent = nsol
            cv = Arr('constant_vector', default=lambda k: X.atom(f'C{k}', 'complex')); cv.extent = 3
            out = Arr('solution', default=lambda k: Opaque('nan')); out.extent = nsl * MAXY * ntyp       # the constructor of the solution object NaN-fills the buffer (R06.3)
            rad = Arr('radius', default=lambda k: X.atom(f'r{k}', 'pos')); rad.extent = nsl
            den = Arr('density', default=lambda k: X.atom(f'rho{k}', 'pos')); den.extent = nsl
            grv = Arr('gravity', default=lambda k: X.atom(f'g{k}', 'pos')); grv.extent = nsl
            if not guarded(f'cf_collapse_layer_solution ({kind}{" static" if static else ""}, type {ytype})', mc.where(fc),
                           lambda: Interp(repo).call(mc, fc, [out, cv, storage, rad, den, grv, X.atom('w', 'pos'), 0, nsl, nsol, MAXY, nys, MAXY * ntyp, ytype, 0 if kind == 'solid' else 1, static, False])):
                continue
            report(f'cf_collapse_layer_solution, {kind}{" static" if static else ""} layer, solution type {ytype} of {ntyp} ({nsl} slices)', mc.where(fc), f'R06.2|extent|collapse|{kind}|{static}|{ytype}')
    ml = repo.by_path('TidalPy/RadialSolver/love.pyx'); fl = need_func(ml, 'find_love_cf')
    I.OOB_LOG.clear()
    lo = Arr('complex_love_numbers'); lo.extent = 3
    sv = Arr('surface_solutions', default=lambda k: X.atom(f'ys{k}', 'complex')); sv.extent = MAXY
    Interp(repo).call(ml, fl, [lo, sv, X.atom('gs', 'pos')])
    report('find_love_cf (3 Love numbers from 6 surface values)', ml.where(fl), 'R06.2|extent|find_love_cf')
    md = repo.by_path('TidalPy/utilities/dimensions/nondimensional.pyx'); fy = need_func(md, 'cf_redimensionalize_radial_functions')
    I.OOB_LOG.clear()
    nsl, ntyp = 3, 2
    buf = Arr('radial_function', default=lambda k: X.atom(f'ynd{k}', 'complex')); buf.extent = nsl * MAXY * ntyp
    for k in range(nsl * MAXY * ntyp): buf.store[k] = buf.default(k)
    Interp(repo, hooks={'global': lambda itp, m_, nm: X.atom('Gconst', 'pos') if nm in ('G', 'G_') else None}).call(md, fy, [buf, X.atom('R', 'pos'), X.atom('rhob', 'pos'), nsl, ntyp])
    report(f'cf_redimensionalize_radial_functions ({nsl} slices x {ntyp} types x 6)', md.where(fy), 'R06.2|extent|redimensionalize_radial_functions')


# ------------------------------------------------------------------------------------------------ R06.7 an index is used before the quantity it is computed from is validated
def use_before_guard(chk, repo, ms, f, required=True):
    """Contradiction rule (check-after-use): the function validates one of its integer parameters (`if <comparison on p>: raise ...`), so it believes p can be out of
    range; then no raw-pointer access indexed by an expression of p may execute before that validation.  A read of `ptr[p - 1]` ahead of the `p <= ...` guard is an
    out-of-bounds access for exactly the values the guard exists to reject (p = 0 for an unsigned p: index SIZE_MAX)."""
    from ..frontend.cfg import CFG, ENTRY
    import networkx as nx
    params = {a.arg for a in f.args.args}
    cfg = CFG(f)
    G = cfg.G
    # guards: If whose body (directly) raises and whose test compares a parameter
    guards = []
    for n, dct in G.nodes(data=True):
        st = dct.get('stmt')
        if isinstance(st, ast.If) and any(isinstance(b, ast.Raise) for b in st.body):
            names = {x.id for x in ast.walk(st.test) if isinstance(x, ast.Name)} & params
            if names and any(isinstance(x, ast.Compare) for x in ast.walk(st.test)):
                guards.append((n, st, names))
    # pointer-typed parameters and locals (accesses through them are raw memory accesses)
    types = var_types(ms, f)
    def is_ptr(name):
        t = types.get(name, '')
        return '*' in t
    # simple copies  v = <expr of p>  made before the guard propagate the dependence (top_slice_i = total_slices - 1)
    dep = {p: {p} for p in params}
    for st in f.body:
        if isinstance(st, ast.Assign) and len(st.targets) == 1 and isinstance(st.targets[0], ast.Name):
            src = set()
            for x in ast.walk(st.value):
                if isinstance(x, ast.Name) and x.id in dep: src |= dep[x.id]
            if src and not any(isinstance(x, ast.Call) and not (isinstance(x.func, ast.Name) and x.func.id.startswith('__')) for x in ast.walk(st.value)):
                dep[st.targets[0].id] = src
    n_inst = 0
    for gn, gst, gnames in guards:
        dom_before = [n for n in G.nodes if n not in (gn,) and G.nodes[n].get('stmt') is not None and nx.has_path(G, n, gn)]
        for n in dom_before:
            st = G.nodes[n]['stmt']
            hdr = st.test if isinstance(st, (ast.If, ast.While)) else (st.iter if isinstance(st, ast.For) else st)
            if isinstance(st, (ast.Try, ast.With, ast.FunctionDef)): continue
            for sub in ast.walk(hdr):
                if isinstance(sub, ast.Subscript) and isinstance(sub.value, ast.Name) and is_ptr(sub.value.id):
                    used = set()
                    for x in ast.walk(sub.slice):
                        if isinstance(x, ast.Name) and x.id in dep: used |= dep[x.id]
                    hit = used & gnames
                    # an address-of (&ptr[0]) computes an address, it does not touch memory
                    if hit and not (isinstance(sub.slice, ast.Constant)):
                        n_inst += 1
                        p = sorted(hit)[0]
                        chk.ob('R06.7', f'{f.name}: `{ast.unparse(sub)}` is evaluated only after `{p}` has been validated', False,
                               f'memory at `{ast.unparse(sub)}` (line {getattr(sub, "lineno", "?")}) is read before the guard `if {ast.unparse(gst.test)[:60]}: raise` (line {gst.lineno}) has run: '
                               f'among the values of `{p}` the guard exists to reject (0 for an unsigned size: the index wraps to SIZE_MAX) the access is out of bounds',
                               ms.where(sub), key=f'R06.7|{f.name}|{ast.unparse(sub)}|{p}', method='CFG: access reaches the guard of the quantity it is indexed by (check-after-use)')
    chk.ob('R06.7', f'{f.name}: {len(guards)} parameter guards found; no raw-pointer access indexed by a guarded parameter runs before its guard (other than the listed ones)', True, '', ms.where(f),
           key=f'R06.7|{f.name}|scan', method='CFG reachability')
    chk.note_analysed('parameter guards', [f'line {g[1].lineno}: {ast.unparse(g[1].test)[:50]}' for g in guards])
    if not guards and required:
        raise AnalysisError(f'{f.name}: no parameter guard found (front-end lost sight of the argument checks)')
    return len(guards)


def use_before_guard_all(chk, repo):
    """the same contradiction rule over every function of the compiled solver package that validates one of its parameters"""
    import glob, os
    n = 0
    for path in sorted(glob.glob(os.path.join(repo.root, 'TidalPy/RadialSolver/**/*.pyx'), recursive=True) + glob.glob(os.path.join(repo.root, 'TidalPy/utilities/dimensions/*.pyx'))):
        rel = os.path.relpath(path, repo.root)
        mod = repo.by_path(rel)
        for fn in [x for x in ast.walk(mod.tree) if isinstance(x, ast.FunctionDef)]:
            if fn.name == 'cf_radial_solver':
                continue
            has_guard = any(isinstance(st, ast.If) and any(isinstance(b, ast.Raise) for b in st.body) and any(isinstance(x, ast.Compare) for x in ast.walk(st.test))
                            and ({x.id for x in ast.walk(st.test) if isinstance(x, ast.Name)} & {a.arg for a in fn.args.args}) for st in ast.walk(fn))
            if has_guard:
                try:
                    n += use_before_guard(chk, repo, mod, fn, required=False)
                except AnalysisError as ex:
                    chk.note_analysed('R06.7 skipped', f'{rel}::{fn.name}: {str(ex)[:100]}')
    chk.note_analysed('functions with parameter guards (besides cf_radial_solver)', n)
