"""C15 — 3-D tidal stress and strain are consistent with the radial functions (formula level)."""
from __future__ import annotations
import ast
from ..core import expr as X
from ..core.interp import Interp, Arr, PathExplorer
from ..core.report import AnalysisError
from ..frontend.pyfront import Repo

LEVEL = 'proof'
TECHNIQUE = 'abstract interpretation of the stress/strain kernel with symbolic array elements (loops unrolled on a 1x1x1x1 grid and on a 2x2x2x2 grid for index discipline); constitutive law, traction relations (Laplace relation imposed as a rewrite) and heating sign decided as polynomial identities'
LEVEL_TEXT = ('All clauses of the property are algebraic identities of the kernel for arbitrary complex y1..y4, moduli, radius, angles and potential values; they are '
              'extracted from source and decided exactly. The grid quantifier is discharged by the index-discipline rule (each output element depends only on the inputs at its own indices).')
LEVEL_NOTE = 'Trusted: front-end, interpreter, complex algebra without rounding. The potential is assumed to satisfy the degree-l surface Laplace identity (that is C14 for the shipped potentials).'
EXPLANATION = ('R15.1 Hooke law per component; R15.2 radial tractions == y2 U, y4 dU/dtheta, y4 dU/dphi / sin(theta) under the Laplace relation; dy1/dr == the solver ODE; '
               'R15.3 volumetric heating weights, zero for real moduli, abs => real non-negative; R15.4 index discipline on a 2x2x2x2 grid; displacements == y1 U, y3 dU/dtheta, y3 dU/dphi / sin.')
EXPLANATION += ' R15.6 two successive calls on grids of the same size return separate arrays: what the first call returned still holds after the second (functools caches are interpreted).'


def mk_inputs(nr, nl, nc, nt, tagf=lambda *a: '', tag=''):
    def arr3(name):
        return Arr(name, default=lambda k: X.atom(f'{name}{tag}[{",".join(map(str, k))}]', 'complex'), shape=(nl, nc, nt))
    pots = [arr3(n) for n in ('U', 'Ut', 'Up', 'Utt', 'Upp', 'Utp')]
    y = Arr('y', default=lambda k: X.atom(f'y{k[0] + 1}{tag}[{k[1]}]', 'complex'), shape=(6, nr))
    lon = Arr('lon', default=lambda k: X.atom(f'lon{tag}[{k}]'), shape=(nl,))
    col = Arr('col', default=lambda k: X.atom(f'theta{tag}[{k}]'), shape=(nc,))
    tim = Arr('time', default=lambda k: X.atom(f't{tag}[{k}]'), shape=(nt,))
    rad = Arr('r', default=lambda k: X.atom(f'r{tag}[{k}]', 'pos'), shape=(nr,))
    # complex moduli written out as re + i im with real atoms: a test on the imaginary part of a modulus (an elastic slice) is then a statement about one atom and its
    # arm can be entered by pinning that atom
    shear = Arr('mu', default=lambda k: X.atom(f'mu_re{tag}[{k}]', 'pos') + X.I * X.atom(f'mu_im{tag}[{k}]'), shape=(nr,))
    bulk = Arr('K', default=lambda k: X.atom(f'K_re{tag}[{k}]', 'pos') + X.I * X.atom(f'K_im{tag}[{k}]'), shape=(nr,))
    return pots, y, lon, col, tim, rad, shear, bulk


TECHNIQUE += "; arrays as mutable objects: component views (np.real / np.imag), slices and element-wise arithmetic write through to the caller's tensors; view-aware in-place lint"

TECHNIQUE += '; the forcing frequency taken of either sign, tests on it explored on every arm'

def run(chk):
    repo = Repo(chk.repo)
    it = Interp(repo)
    ms = repo.by_path('TidalPy/tides/multilayer/stress_strain.py')
    f = ms.defs.get('calculate_strain_stress')
    if not isinstance(f, ast.FunctionDef):
        raise AnalysisError('calculate_strain_stress vanished')
    where = ms.where(f)
    d = X.Decider(seed=chk.seed, k=3 if chk.tier == 'quick' else 12)
    freq = X.atom('freq')             # a forcing frequency of either sign (the signed mode frequency is a legal argument): tests on it are explored on every arm

    cur = {'d': d}

    def eq(rule, inst, got, ref, where=where):
        dd = cur['d']
        if dd is None:
            chk.undecide(rule, inst, 'path runs through a measure-zero arm whose defining equation cannot be imposed as a pin')
            return
        ok = dd.equal(got, ref)
        chk.ob(rule, inst, ok, '' if ok else f'identity fails: {dd.describe(got, ref)}', where, method='GF(p^2) PIT')

    def all_paths(make_args):
        """every path through data-dependent branches of the kernel (none on today's tree): fresh symbolic inputs per path"""
        def one(fork):
            it.hooks['fork'] = fork
            try:
                args, ctx = make_args()
                return ctx, it.call(ms, f, args)
            finally:
                it.hooks.pop('fork', None)
        return PathExplorer(max_paths=16).run(one)

    n_paths = 0
    for l in (2, 3, 5):
        def mk(l=l):
            pots, y, lon, col, tim, rad, shear, bulk = mk_inputs(1, 1, 1, 1)
            return pots + [y, lon, col, tim, rad, shear, bulk, freq, l], (pots, y, col, rad, shear, bulk)
        for trace, (ctx, (strains, stresses)) in all_paths(mk):
            n_paths += 1
            pl = PathExplorer.label(trace)
            w_ = trace[-1][1] if trace else where
            # open arms are checked as identities; a measure-zero arm (x == 0, not |x| > 0) is checked with x pinned to zero
            pins = {}; decidable = True
            for (cv, _w, _t, out) in trace:
                kind, pn = PathExplorer.arm(cv, out)
                if kind == 'equality':
                    if pn is None: decidable = False
                    else: pins.update(pn)
            cur['d'] = (X.Decider(seed=chk.seed, k=3 if chk.tier == 'quick' else 12, pins=pins) if pins else d) if decidable else None
            (pots, y, col, rad, shear, bulk) = ctx
            U, Ut, Up, Utt, Upp, Utp = pots
            ix = (0, 0, 0, 0)
            mu = shear.get(0); K = bulk.get(0); r = rad.get(0); th = col.get(0)
            lam = K - X.const(2) / 3 * mu
            eps = [strains.get((k,) + ix) for k in range(6)]
            sig = [stresses.get((k,) + ix) for k in range(6)]
            tr = eps[0] + eps[1] + eps[2]
            for k in range(6):
                eq('R15.1', f'l={l}: stress[{k}] == 2 mu strain[{k}]' + (' + lambda tr(strain)' if k < 3 else '') + pl, sig[k], 2 * mu * eps[k] + (lam * tr if k < 3 else 0), w_)
            # Laplace relation as a rewrite of U_theta_theta
            u = U.get((0, 0, 0)); ut = Ut.get((0, 0, 0)); up = Up.get((0, 0, 0)); upp = Upp.get((0, 0, 0))
            sin_t = X.fn('sin', th); cos_t = X.fn('cos', th)
            utt_rule = -(l * (l + 1)) * u - cos_t / sin_t * ut - upp / (sin_t * sin_t)
            sub = {Utt.get((0, 0, 0)).val[0]: utt_rule}
            y1, y2, y3, y4 = (y.get((i, 0)) for i in range(4))
            eq('R15.2', f'l={l}: sigma_rr == y2 U (degree-l Laplace relation imposed)' + pl, X.subst(sig[0], sub), y2 * u, w_)
            eq('R15.2', f'l={l}: sigma_r-theta == y4 dU/dtheta' + pl, sig[3], y4 * ut, w_)
            eq('R15.2', f'l={l}: sigma_r-phi == y4 dU/dphi / sin(theta)' + pl, sig[4], y4 * up / sin_t, w_)
            eq('R15.2', f'l={l}: strain_rr == dy1/dr U with dy1/dr = (y2 - lambda (2 y1 - l(l+1) y3)/r)/(lambda + 2 mu)' + pl, eps[0],
               (y2 - lam / r * (2 * y1 - l * (l + 1) * y3)) / (lam + 2 * mu) * u, w_)
            eq('R15.2', f'l={l}: trace(strain) == (dy1/dr + (2 y1 - l(l+1) y3)/r) U (Laplace relation imposed)' + pl, X.subst(tr, sub),
               ((y2 - lam / r * (2 * y1 - l * (l + 1) * y3)) / (lam + 2 * mu) + (2 * y1 - l * (l + 1) * y3) / r) * u, w_)
            # shear strains tie back to y4 / mu and y3, y1 directly (independent of the stress route)
            eq('R15.2', f'l={l}: strain_r-theta == y4 dU/dtheta / (2 mu)' + pl, eps[3], y4 * ut / (2 * mu), w_)
            eq('R15.2', f'l={l}: strain_r-phi == y4 dU/dphi / (2 mu sin(theta))' + pl, eps[4], y4 * up / (2 * mu * sin_t), w_)
        cur['d'] = d
        chk.note_analysed('configurations', f'calculate_strain_stress l={l} on 1x1x1x1 grid')
    chk.note_analysed('paths', f'{n_paths} paths through data-dependent branches of calculate_strain_stress over 3 degrees')

    # R15.6 results of separate calls are separate: what an earlier call returned still holds after a later call on a grid of the same size (buffers kept between calls,
    # memoised allocators -- functools caches are interpreted -- would hand the same arrays out twice)
    it.hooks.pop('fork', None)
    pa = mk_inputs(1, 1, 1, 1, tag='_A'); pb = mk_inputs(1, 1, 1, 1, tag='_B')
    try:
        first = it.call(ms, f, pa[0] + list(pa[1:]) + [freq, 2])
        snap = [dict(getattr(a_, 'store', {})) for a_ in first]
        second = it.call(ms, f, pb[0] + list(pb[1:]) + [freq, 2])
        shared = [i_ for i_ in range(min(len(first), len(second))) if first[i_] is second[i_]]
        changed = [i_ for i_, a_ in enumerate(first) if any(a_.store.get(k_) is not v_ for k_, v_ in snap[i_].items())]
        ok = not shared and not changed
        detail = ('; '.join(([f'output {i_} of the two calls is one and the same array' for i_ in shared] + [f'output {i_} of the first call was overwritten by the second call' for i_ in changed])[:3]))
    except AnalysisError as ex:
        if 'branch on' not in str(ex):
            raise
        ok = None; detail = str(ex)
    if ok is None:
        chk.undecide('R15.6', 'two successive calls', detail)
    else:
        chk.ob('R15.6', 'calculate_strain_stress called twice on grids of the same size: the tensors the first call returned are still the first problem\'s tensors (separate arrays)', ok, detail, where,
               key='R15.6|two-calls', method='interpretation of two successive calls in one interpreter state (functools caches modelled)')

    # R15.4 index discipline on a 2x2x2x2 grid: element [k, ri, li, ci, ti] may only mention inputs at (ri), (li,ci,ti), (ci)
    pots, y, lon, col, tim, rad, shear, bulk = mk_inputs(2, 2, 2, 2)
    grid_paths = all_paths(lambda: (pots + [y, lon, col, tim, rad, shear, bulk, freq, 2], None))
    bad = []; n = 0
    for arr in [a_ for (_t, (_c, pair)) in grid_paths for a_ in pair]:
        for k in range(6):
            for ri in range(2):
                for li in range(2):
                    for ci in range(2):
                        for ti in range(2):
                            n += 1
                            try:
                                v = arr.get((k, ri, li, ci, ti))
                            except AnalysisError:
                                bad.append(f'{arr.name}[{k},{ri},{li},{ci},{ti}] never written'); continue
                            for a in X.atoms_of(v):
                                nm = a.val[0]
                                if '[' not in nm: continue
                                base, idx = nm.split('[')[0], nm.split('[')[1].rstrip(']')
                                want = {'U': f'{li},{ci},{ti}', 'Ut': f'{li},{ci},{ti}', 'Up': f'{li},{ci},{ti}', 'Utt': f'{li},{ci},{ti}', 'Upp': f'{li},{ci},{ti}',
                                        'Utp': f'{li},{ci},{ti}', 'theta': f'{ci}', 'r': f'{ri}', 'mu': f'{ri}', 'K': f'{ri}', 'lon': f'{li}', 't': f'{ti}'}.get(base)
                                if base.startswith('y'): want = f'{ri}'
                                if want is not None and idx != want:
                                    bad.append(f'element [{k},{ri},{li},{ci},{ti}] reads {nm}')
    chk.ob('R15.4', f'index discipline: {n} output elements on a 2x2x2x2 grid read only inputs at their own indices', not bad, '; '.join(bad[:4]), where, method='atom-support analysis')
    # also all written
    # R15.3 volumetric heating
    mh = repo.by_path('TidalPy/tides/heating.py')
    fh = mh.defs.get('calculate_volumetric_heating')
    if not isinstance(fh, ast.FunctionDef):
        raise AnalysisError('calculate_volumetric_heating vanished')
    # (the syntactic in-place rules run first: a construct the interpreter cannot follow must not hide what they see)
    from .common import inplace_lint
    inplace_lint(chk, repo, 'R15.5', ['TidalPy/tides/multilayer/stress_strain.py', 'TidalPy/tides/heating.py', 'TidalPy/tides/multilayer/displacements.py'])
    S = Arr('stress', default=lambda k: X.atom(f'sig{k}', 'complex'), shape=(6,))
    E = Arr('strain', default=lambda k: X.atom(f'eps{k}', 'complex'), shape=(6,))
    sig_ = [X.atom(f'sig{k}', 'complex') for k in range(6)]; eps_ = [X.atom(f'eps{k}', 'complex') for k in range(6)]      # the tensors as the caller handed them over
    vh = it.call(mh, fh, [S, E])
    # the tensors handed in are the caller's (collapse_multilayer_modes returns them next to the heating): np.real / np.imag of an array are views of it, slices are views,
    # so a store through any of them is a store into the caller's tensor
    touched = sorted({str(k_) for k_, _v, _n in list(S.writes) + list(E.writes)})
    chk.ob('R15.3', 'calculate_volumetric_heating leaves the stress and strain tensors it is given as they were (they are returned to the caller next to the heating)', not touched,
           f'components written: {", ".join(touched[:8])}', mh.where(fh), key='R15.3|arguments intact', method='interpretation with arrays as mutable objects (component views and slices write through)')
    w = (1, 1, 1, 2, 2, 2)
    ref = X.ZERO
    for k in range(6):
        ref = ref + w[k] * (X.fn('imag', sig_[k]) * X.fn('real', eps_[k]) - X.fn('real', sig_[k]) * X.fn('imag', eps_[k]))
    chk.ob('R15.3', 'volumetric heating is an absolute value (real, non-negative)', vh.op == 'fn' and vh.val == 'abs', f'outermost operation is {vh.op}:{vh.val}', mh.where(fh), method='structure of the extracted value')
    inner = vh.args[0] if vh.op == 'fn' and vh.val == 'abs' else vh
    eq('R15.3', 'heating argument == sum_k w_k (Im sig_k Re eps_k - Re sig_k Im eps_k), w = (1,1,1,2,2,2) == Im(sum_k w_k sig_k conj(eps_k))', inner, ref, mh.where(fh))
    ref2 = X.ZERO
    for k in range(6):
        ref2 = ref2 + w[k] * sig_[k] * X.fn('conj', eps_[k])
    eq('R15.3', 'heating argument == Im( sigma : conj(eps) ) (full double contraction with the symmetric off-diagonals counted twice)', inner, X.fn('imag', ref2), mh.where(fh))
    # elastic: real moduli, stresses from Hooke => zero
    mu_r = X.atom('mu_real', 'pos'); lam_r = X.atom('lambda_real')
    trE = eps_[0] + eps_[1] + eps_[2]
    sub = {f'sig{k}': 2 * mu_r * eps_[k] + (lam_r * trE if k < 3 else 0) for k in range(6)}
    eq('R15.3', 'heating argument vanishes identically for real (elastic) moduli with sigma from the constitutive law', X.subst(inner, sub), X.ZERO, mh.where(fh))
    # and for complex moduli it equals Im(mu)*2*sum w_k |eps_k|^2 + Im(lambda)|tr|^2 (sign carried by the moduli)
    muc = X.atom('mu_c', 'complex'); lamc = X.atom('lam_c', 'complex')
    subc = {f'sig{k}': 2 * muc * eps_[k] + (lamc * trE if k < 3 else 0) for k in range(6)}
    quad = X.ZERO
    for k in range(6):
        quad = quad + w[k] * X.fn('abs2', eps_[k])
    eq('R15.3', 'heating argument == 2 Im(mu) sum_k w_k |eps_k|^2 + Im(lambda) |tr eps|^2 for viscoelastic moduli', X.subst(inner, subc),
       2 * X.fn('imag', muc) * quad + X.fn('imag', lamc) * X.fn('abs2', trE), mh.where(fh))

    # displacements
    mdisp = repo.by_path('TidalPy/tides/multilayer/displacements.py')
    fd = mdisp.defs.get('calculate_displacements')
    if isinstance(fd, ast.FunctionDef):
        disp_check(chk, it, mdisp, fd, d)
    chk.floor('R15.5', 3)
    chk.floor('R15.1', 18); chk.floor('R15.2', 21); chk.floor('R15.3', 5); chk.floor('R15.4', 1)
    chk.assume('the potential satisfies U_tt + cot(t) U_t + U_pp/sin^2(t) = -l(l+1) U (C14 for the shipped degree-2 potentials); theta in (0, pi)')


def disp_check(chk, it, m, f, d):
    """calculate_displacements uses whole-array numpy arithmetic and slice stores.  It is evaluated statement by statement with scalars standing for
    the arrays (row k of the radial solution is the atom y<k+1>; the radius index is dropped), independent of how locals are named: the three returned
    arrays, in order, must be y1*U, y3*dU/dtheta, y3*(dU/dphi)/sin(colatitude)."""
    from ..core.interp import Frame
    params = [a.arg for a in f.args.args]
    U = X.atom('U', 'complex'); Ut = X.atom('Ut', 'complex'); Up = X.atom('Up', 'complex'); th = X.atom('theta')
    by_name = {'tidal_potential': U, 'tidal_potential_partial_theta': Ut, 'tidal_potential_partial_phi': Up, 'colatitude': th}
    sol = [p_ for p_ in params if p_ not in by_name and p_ != 'longitude']
    if len(sol) != 1 or not all(k in params for k in by_name):
        raise AnalysisError(f'{m.where(f)}: calculate_displacements parameters changed: {params}')
    solname = sol[0]
    ys = {k: X.atom(f'y{k + 1}r', 'complex') for k in range(6)}
    fr = Frame(m, f.name); fr.vars.update(by_name)
    rows = {}          # local name -> row index of the solution it aliases
    outputs = {}       # local array name -> value stored into it
    skipped = []

    def row_of(e):
        """tidal_solution_y[k, :] / tidal_solution_y[k] / tidal_solution_y[k, ri] -> k ;  <row alias>[ri] -> its k"""
        if isinstance(e, ast.Subscript) and isinstance(e.value, ast.Name):
            sl = e.slice.elts[0] if isinstance(e.slice, ast.Tuple) else e.slice
            if e.value.id == solname and isinstance(sl, ast.Constant) and isinstance(sl.value, int):
                return sl.value
            if e.value.id in rows:
                return rows[e.value.id]
        return None

    def walk(stmts):
        for st in stmts:
            if isinstance(st, ast.For):
                walk(st.body); continue
            if isinstance(st, ast.Return):
                fr.vars['__return__'] = st.value; continue
            if not (isinstance(st, ast.Assign) and len(st.targets) == 1):
                continue
            t = st.targets[0]
            k = row_of(st.value)
            if k is not None and isinstance(t, ast.Name):
                rows[t.id] = k; fr.vars[t.id] = ys[k]; continue
            try:
                v = it.eval(st.value, fr)
            except Exception:      # shapes, np.empty(...): not values
                skipped.append(ast.unparse(st)[:60]); continue
            if isinstance(t, ast.Name):
                fr.vars[t.id] = v
            elif isinstance(t, ast.Subscript) and isinstance(t.value, ast.Name):
                outputs[t.value.id] = v
    walk(f.body)
    ret = fr.vars.get('__return__')
    if not (isinstance(ret, ast.Tuple) and len(ret.elts) == 3 and all(isinstance(e_, ast.Name) for e_ in ret.elts)):
        raise AnalysisError(f'{m.where(f)}: calculate_displacements does not return three named arrays')
    names = ('radial displacement == y1 U', 'polar displacement == y3 dU/dtheta', 'azimuthal displacement == y3 dU/dphi / sin(theta)')
    refs = (ys[0] * U, ys[2] * Ut, ys[2] * Up / X.fn('sin', th))
    for e_, nm, ref in zip(ret.elts, names, refs):
        got = outputs.get(e_.id)
        if not isinstance(got, X.Node):
            raise AnalysisError(f'{m.where(f)}: no value found for returned array `{e_.id}` (statements not evaluated: {skipped[:3]})')
        ok = d.equal(got, ref)
        chk.ob('R15.2', f'displacements: {nm} (rows 0 and 2 of the radial solution)', ok, '' if ok else d.describe(got, ref), m.where(f), method='GF(p^2) PIT')
