"""C18 -- the study driver interpreted on a finite model of its environment.

`multiprocessing_run` (and whatever helpers it is split into) is interpreted by the abstract interpreter; nothing of the repository is executed.  Its environment
is replaced by a model:
  * file system : a set of directory names and a map  path -> content (text as a list of written chunks; `.npz` / `.npy` as tagged values).  Every durable
                  operation (makedirs, open(...,'w'/'a'), write, np.save, np.savez) is appended to an *effect trace*; np.savez is two effects (file created and
                  incomplete, then complete) because it is not atomic;
  * pool        : pathos `ProcessingPool.map` / stdlib `Pool.starmap` apply the worker to the cases one after the other (the cases only share the append-only log);
  * study func  : a stub that counts its calls per case and returns a dictionary with a symbolic value, or raises for chosen cases;
  * clock, psutil, warnings, print : constants / no-ops.
A *kill point* is a prefix of the effect trace: the file system as it was after that effect.  From every kill point the driver is interpreted again on the same
directory without forcing a new study, and the outcome is compared with the uninterrupted run.
"""
from __future__ import annotations
import ast, copy, itertools
from fractions import Fraction
from ..core import expr as X
from ..core import interp as I
from ..core.interp import Interp, Obj, Vec, FuncRef, Opaque, Builtin, RaiseSignal, ModuleRef
from ..core.report import AnalysisError


class Killed(Exception):
    pass


class FS:
    def __init__(self):
        self.dirs = set(); self.files = {}
        self.trace = []            # (label, snapshot) after every durable effect
        self.record = True
        self.tag = None            # case the current effects belong to (set by the pool model)

    def snapshot(self):
        return (frozenset(self.dirs), {k: (list(v) if isinstance(v, list) else v) for k, v in self.files.items()})

    def restore(self, snap):
        self.dirs = set(snap[0]); self.files = {k: (list(v) if isinstance(v, list) else v) for k, v in snap[1].items()}

    def effect(self, label):
        if self.record:
            self.trace.append((label, self.tag, self.snapshot()))

    def makedirs(self, p):
        parts = p.split('/')
        new = False
        for i in range(1, len(parts) + 1):
            q = '/'.join(parts[:i])
            if q and q not in self.dirs:
                self.dirs.add(q); new = True
        if new: self.effect(f'makedirs {p}')

    def listdir(self, p):
        pre = p.rstrip('/') + '/'
        names = {q[len(pre):].split('/')[0] for q in list(self.dirs) + list(self.files) if q.startswith(pre) and q != pre}
        return sorted(names)


def np_array2string(vals, precision=8, separator=' '):
    """numpy's rendering of a one-dimensional float64 array (arrayprint.FloatingFormat, floatmode 'maxprec', suppress_small off): shortest round-tripping digits, but never more
    than `precision` fractional digits; exponent form for the whole array when max >= 1e8, min < 1e-4 or max / min > 1000.  What a reader parses back is therefore the value
    rounded to `precision` digits -- the point of modelling it."""
    import math
    from decimal import Decimal
    fl = [float(v) for v in vals]
    if not fl:
        return '[]'
    nz = [abs(x) for x in fl if x != 0 and math.isfinite(x)]
    expo = bool(nz) and (max(nz) >= 1e8 or min(nz) < 1e-4 or max(nz) / min(nz) > 1000.)
    if expo:
        rows = []
        for x in fl:
            sgn = '-' if x < 0 or (x == 0 and math.copysign(1, x) < 0) else ''
            t = Decimal(repr(abs(x))).as_tuple()
            digs = ''.join(map(str, t.digits)).rstrip('0') or '0'
            if len(digs) - 1 > precision:
                m_, _, e_ = format(abs(x), f'.{precision}e').partition('e')
                frac = m_.split('.')[1].rstrip('0'); ip = m_.split('.')[0]; ex = int(e_)
            else:
                ip, frac = digs[0], digs[1:]
                ex = (len(t.digits) - 1 + t.exponent) if x != 0 else 0
            rows.append((sgn + ip, frac, ex))
        prec = max(len(r[1]) for r in rows); esz = max(2, max(len(str(abs(r[2]))) for r in rows)); lp = max(len(r[0]) for r in rows)
        strs = [f'{r[0].rjust(lp)}.{r[1].ljust(prec, "0")}e{"-" if r[2] < 0 else "+"}{str(abs(r[2])).rjust(esz, "0")}' for r in rows]
    else:
        rows = []
        for x in fl:
            sgn = '-' if x < 0 else ''
            txt = format(Decimal(repr(abs(x))), 'f')
            ip, _, frac = txt.partition('.')
            frac = frac.rstrip('0')
            if len(frac) > precision:
                ip, _, frac = format(abs(x), f'.{precision}f').partition('.')
                frac = frac.rstrip('0')
            rows.append((sgn + ip, frac))
        lp = max(len(r[0]) for r in rows); rp = max(len(r[1]) for r in rows)
        strs = [f'{r[0].rjust(lp)}.{r[1].ljust(rp)}' for r in rows]
    return '[' + separator.join(strs) + ']'


def norm(path):
    return str(path).replace('//', '/')


def fmt(itp, val, spec, conv):
    """f-string rendering of model values: ints and strings as Python prints them, exact rationals as the float they stand for"""
    def one(v):
        if isinstance(v, bool) or v is None: return str(v)
        if isinstance(v, int): return str(v)
        if isinstance(v, str): return v
        if isinstance(v, Fraction): return repr(float(v))
        if isinstance(v, X.Node):
            c = I.concrete(v)
            if c is not None: return one(c if isinstance(c, int) else Fraction(c))
            return f'<{X.show(v)[:30]}>'
        if isinstance(v, tuple): return '(' + ', '.join(one(t) if not isinstance(t, str) else repr(t) for t in v) + (',)' if len(v) == 1 else ')')
        if isinstance(v, (list, Vec)): return '[' + ', '.join(one(t) if not isinstance(t, str) else repr(t) for t in v) + ']'
        if isinstance(v, Opaque): return f'<{v.name}>'
        if isinstance(v, Obj): return f'<{v.name}>'
        return str(v)
    if spec and isinstance(val, (int, Fraction, X.Node)) and not isinstance(val, bool):
        c = I.concrete(val) if isinstance(val, X.Node) else val
        if c is not None:
            try: return format(float(c), spec)
            except ValueError: pass
    return one(val)


class NpzModel(dict):
    """what numpy.load returns for an .npz archive: a mapping (member name -> array) that also lists its members (.files) and can be closed / used as a context manager"""
    is_npz = True


class Machine:
    """one interpretation of the driver on a model environment"""
    def __init__(self, repo, fs, fail_cases=(), pathos=True, raise_in_worker=False, postprocess=False):
        self.repo = repo; self.fs = fs
        self.postprocess = postprocess          # hand the driver a post-processing function (it writes one product file into the directory it is given)
        self.postprocessed = 0
        self.fail_cases = set(fail_cases)       # study-function argument tuples for which the stub raises
        self.pathos = pathos
        self.executed = []                       # argument tuples the study function was called with, in order
        self.mod = repo.by_path('TidalPy/utilities/multiprocessing/multiprocessing.py')
        self.it = Interp(repo, hooks={'call': self.call_hook, 'global': self.glob_hook, 'format': fmt, 'expr': self.expr_hook}, max_depth=30, max_unroll=100000)

    # ---------------------------------------------------------------- environment
    def file_obj(self, path, mode):
        fs = self.fs
        if mode.startswith('r'):
            if path not in fs.files:
                raise RaiseSignal(ast.Raise(exc=ast.Name(id='FileNotFoundError', ctx=ast.Load()), cause=None), f'FileNotFoundError({path})')
        elif mode.startswith('w'):
            fs.files[path] = []; fs.effect(f'create {path}')
        elif mode.startswith('a'):
            if path not in fs.files:
                fs.files[path] = []; fs.effect(f'create {path}')
        else:
            raise AnalysisError(f'open mode {mode!r} not modelled')

        def write(text):
            if not isinstance(text, str):
                raise AnalysisError(f'write of a non-string to {path}')
            fs.files[path].append(text); fs.effect(f'write {path}')

        def text():
            c = fs.files[path]
            if not isinstance(c, list):
                raise AnalysisError(f'text read of binary file {path}')
            return ''.join(c)

        def readlines():
            t = text()
            return [l + '\n' for l in t.split('\n')[:-1]] + ([t.split('\n')[-1]] if t.split('\n')[-1] else [])
        o = Obj(name=f'file {path}', attrs={'write': write, 'read': text, 'readlines': readlines, 'close': (lambda: None), '__exit__': (lambda: None),
                                            'writelines': (lambda ls: [write(l) for l in ls] and None), '__iter__': None})
        if mode.startswith('r'):
            o.attrs['__iter__'] = tuple(readlines())
        return o

    def study(self, run_dir, *args, **kwargs):
        def num(a):
            c = I.concrete(a) if isinstance(a, X.Node) else a
            return Fraction(c) if isinstance(c, (int, Fraction)) and not isinstance(c, bool) else a
        key = tuple(num(a) for a in args if not isinstance(a, str))
        self.executed.append(key)
        if key in self.fail_cases:
            raise RaiseSignal(ast.Raise(exc=ast.Call(func=ast.Name(id='RuntimeError', ctx=ast.Load()), args=[], keywords=[]), cause=None), 'RuntimeError(stub study function)')
        tag_ = ','.join(fmt(None, a, '', -1) for a in key)
        return {'value': X.atom('study_result[' + tag_ + ']'), 'k2': X.atom('study_love[' + tag_ + ']', 'complex')}         # a real and a complex number (a Love number)

    def postprocess_stub(self, directory, results, *args, **kwargs):
        self.postprocessed += 1
        path = norm(str(directory) + '/summary.dat')
        self.fs.files[path] = ['summary of %d results' % (len(results) if isinstance(results, (list, tuple)) else -1)]
        self.fs.effect(f'write {path}')
        return None

    def pool(self):
        m = self

        def run_all(func, cases, star):
            out = []
            for c in cases:
                m.fs.tag = c[0] if isinstance(c, tuple) and c else None
                out.append(m.it.apply(func, list(c) if star else [c], {}, None, None))
            m.fs.tag = None
            return out
        return Obj(name='pool', attrs={'map': (lambda func, cases, **k: run_all(func, cases, False)), 'starmap': (lambda func, cases, **k: run_all(func, cases, True)),
                                       'imap': (lambda func, cases, **k: run_all(func, cases, False)), 'close': (lambda: None), 'join': (lambda: None), '__exit__': (lambda: None)})

    def glob_hook(self, itp, mod, nm):
        if nm == 'pathos_installed': return self.pathos
        if nm == 'psutil_installed': return True
        if nm == 'psutil':
            return Obj(name='psutil', attrs={'cpu_count': (lambda *a, **k: 8), 'virtual_memory': (lambda: Obj(name='mem', attrs={'total': 10 ** 15, 'available': 10 ** 15}))})
        if nm == 'pathos_mp':
            return Obj(name='pathos_mp', attrs={'ProcessingPool': (lambda *a, **k: self.pool()), 'Pool': (lambda *a, **k: self.pool())})
        if nm == 'python_mp':
            return Obj(name='python_mp', attrs={'Pool': (lambda *a, **k: self.pool()), 'cpu_count': (lambda: 8)})
        if nm == 'version': return '0.0.0'
        if nm == 'warnings': return Obj(name='warnings', attrs={'warn': (lambda *a, **k: None), 'filterwarnings': (lambda *a, **k: None)})
        if nm == 'time': return Obj(name='time', attrs={'time': (lambda: 0), 'sleep': (lambda *a: None)})
        if nm == 'datetime':
            now = Obj(name='now', attrs={'strftime': (lambda f: '2000/01/01, 00:00:00')})
            return Obj(name='datetime', attrs={'now': (lambda: now)})
        if nm == 'math': return Obj(name='math', attrs={'floor': (lambda v: int(v // 1) if not isinstance(v, X.Node) else int(I.concrete(v) // 1)), 'ceil': (lambda v: -int(-v // 1))})
        if nm == 'os': return self.os_obj()
        if nm == 'shutil': return self.shutil_obj()
        if nm == 'json': return self.json_obj()
        if nm == 'glob': return Obj(name='glob', attrs={'glob': self.glob})
        if nm in ('Path', 'PurePath'): return self.path_ctor
        if nm == 'pathlib': return Obj(name='pathlib', attrs={'Path': self.path_ctor, 'PurePath': self.path_ctor})
        if nm == 'convert_time_to_hhmmss': return (lambda *a, **k: '00:00:00')
        if nm == 'namedtuple': return self.namedtuple
        if nm in ('open', 'sorted', 'reversed', 'repr', 'format', 'iter', 'next', 'map', 'filter'): return Builtin(nm)
        return None

    # ---- further standard-library access to the file system (same model file system, same recorded effects)
    def rmtree(self, p, **k):
        fs = self.fs; p = norm(p); pre = p.rstrip('/') + '/'
        if p not in fs.dirs and not k.get('ignore_errors'):
            raise RaiseSignal(ast.Raise(exc=ast.Name(id='FileNotFoundError', ctx=ast.Load()), cause=None), f'FileNotFoundError({p})')
        # a tree is removed entry by entry: every intermediate state is durable
        for q in sorted([q for q in fs.files if q.startswith(pre)], reverse=True):
            fs.files.pop(q); fs.effect(f'remove {q}')
        for q in sorted([q for q in fs.dirs if q == p or q.startswith(pre)], key=len, reverse=True):
            fs.dirs.discard(q); fs.effect(f'rmdir {q}')

    def move(self, a, b):
        fs = self.fs; a, b = norm(a), norm(b)
        if a in fs.files:
            fs.files[b] = fs.files.pop(a); fs.effect(f'rename {a} -> {b}'); return b
        if a in fs.dirs:
            pre = a.rstrip('/') + '/'
            for q in [q for q in list(fs.files) if q.startswith(pre)]: fs.files[b + '/' + q[len(pre):]] = fs.files.pop(q)
            for q in [q for q in list(fs.dirs) if q == a or q.startswith(pre)]:
                fs.dirs.discard(q); fs.dirs.add(b + q[len(a):])
            fs.effect(f'rename {a} -> {b}'); return b
        raise RaiseSignal(ast.Raise(exc=ast.Name(id='FileNotFoundError', ctx=ast.Load()), cause=None), f'FileNotFoundError({a})')

    def copyfile(self, a, b, **k):
        fs = self.fs; a, b = norm(a), norm(b)
        if a not in fs.files:
            raise RaiseSignal(ast.Raise(exc=ast.Name(id='FileNotFoundError', ctx=ast.Load()), cause=None), f'FileNotFoundError({a})')
        c = fs.files[a]
        fs.files[b] = [] if isinstance(c, list) else ('npz-incomplete', None); fs.effect(f'create {b}')
        fs.files[b] = list(c) if isinstance(c, list) else c; fs.effect(f'complete {b}')
        return b

    def shutil_obj(self):
        return Obj(name='shutil', attrs={'rmtree': self.rmtree, 'move': self.move, 'copy': self.copyfile, 'copy2': self.copyfile, 'copyfile': self.copyfile})

    def glob(self, pattern, **k):
        import fnmatch
        fs = self.fs
        return sorted(q for q in list(fs.dirs) + list(fs.files) if fnmatch.fnmatchcase(q, norm(pattern)))

    def json_obj(self):
        import json as _json

        def plain(v):
            if isinstance(v, X.Node):
                c = I.concrete(v)
                if c is None: raise AnalysisError('json of a symbolic value')
                v = c
            if isinstance(v, Fraction): return int(v) if v.denominator == 1 else float(v)
            if isinstance(v, dict): return {str(k_) if not isinstance(k_, str) else k_: plain(x_) for k_, x_ in v.items()}
            if isinstance(v, (list, tuple, Vec)): return [plain(x_) for x_ in v]
            if isinstance(v, Obj) and isinstance(v.attrs.get('__iter__'), (list, tuple)): return [plain(x_) for x_ in v.attrs['__iter__']]
            return v

        def dumps(o, **k): return _json.dumps(plain(o), **{kk: vv for kk, vv in k.items() if kk in ('indent', 'sort_keys')})
        def loads(t, **k):
            try:
                return _json.loads(t, parse_float=lambda x_: Fraction(x_), parse_int=int)
            except ValueError as ex:
                raise RaiseSignal(ast.Raise(exc=ast.Name(id='JSONDecodeError', ctx=ast.Load()), cause=None), f'JSONDecodeError({ex})')
        def dump(o, fh, **k): fh.attrs['write'](dumps(o, **k))
        def load(fh, **k): return loads(fh.attrs['read']())
        return Obj(name='json', attrs={'dumps': dumps, 'loads': loads, 'dump': dump, 'load': load})

    def path_ctor(self, *parts):
        m = self; fs = self.fs
        p = norm('/'.join(str(getattr(q, 'attrs', {}).get('__fspath__', q)) for q in parts))
        o = Obj(name=f'Path({p})', attrs={'__fspath__': p})
        o.attrs.update({
            'exists': (lambda: p in fs.dirs or p in fs.files), 'is_file': (lambda: p in fs.files), 'is_dir': (lambda: p in fs.dirs),
            'mkdir': (lambda **k: fs.makedirs(p)), 'open': (lambda mode='r', **k: m.file_obj(p, mode)), 'unlink': (lambda **k: (fs.files.pop(p, None), fs.effect(f'remove {p}')) and None),
            'read_text': (lambda **k: m.file_obj(p, 'r').attrs['read']()), 'write_text': (lambda t, **k: m.file_obj(p, 'w').attrs['write'](t)),
            'joinpath': (lambda *q: m.path_ctor(p, *q)), 'iterdir': (lambda: [m.path_ctor(p, n_) for n_ in fs.listdir(p)]), 'name': p.split('/')[-1], 'parent': None,
            'with_suffix': (lambda sfx: m.path_ctor(p.rsplit('.', 1)[0] + sfx if '.' in p.split('/')[-1] else p + sfx)), 'rename': (lambda b: m.move(p, getattr(b, 'attrs', {}).get('__fspath__', b))),
            'replace': (lambda b: m.move(p, getattr(b, 'attrs', {}).get('__fspath__', b))), '__str__': p, '__truediv__': (lambda q: m.path_ctor(p, q))})
        return o

    def namedtuple(self, name, fields, **k):
        fields = tuple(fields.replace(',', ' ').split()) if isinstance(fields, str) else tuple(fields)

        def make(*args, **kwargs):
            vals = dict(zip(fields, args)); vals.update(kwargs)
            missing = [f_ for f_ in fields if f_ not in vals]
            if missing or len(args) > len(fields):
                raise RaiseSignal(ast.Raise(exc=ast.Name(id='TypeError', ctx=ast.Load()), cause=None), f'TypeError({name}() arguments: missing {missing})')
            o = Obj(name=name, attrs=dict(vals))
            o.attrs['__iter__'] = tuple(vals[f_] for f_ in fields)
            o.nt_fields = fields
            return o
        make.nt_name = name; make.nt_fields = fields
        return make

    def os_obj(self):
        fs = self.fs
        path = Obj(name='os.path', attrs={
            'join': (lambda *p: norm('/'.join(str(q) for q in p))), 'isdir': (lambda p: norm(p) in fs.dirs), 'isfile': (lambda p: norm(p) in fs.files),
            'exists': (lambda p: norm(p) in fs.dirs or norm(p) in fs.files), 'basename': (lambda p: norm(p).split('/')[-1]), 'dirname': (lambda p: '/'.join(norm(p).split('/')[:-1])),
            'split': (lambda p: ('/'.join(norm(p).split('/')[:-1]), norm(p).split('/')[-1])), 'splitext': (lambda p: tuple(p.rsplit('.', 1)) if '.' in p.split('/')[-1] else (p, ''))})

        def remove(p):
            fs.files.pop(norm(p), None); fs.effect(f'remove {p}')

        def rename(a, b):
            a, b = norm(a), norm(b)
            if a in fs.files:
                fs.files[b] = fs.files.pop(a); fs.effect(f'rename {a} -> {b}')
            else:
                raise RaiseSignal(ast.Raise(exc=ast.Name(id='FileNotFoundError', ctx=ast.Load()), cause=None), f'FileNotFoundError({a})')
        def rmdir(p):
            p = norm(p)
            if fs.listdir(p):
                raise RaiseSignal(ast.Raise(exc=ast.Name(id='OSError', ctx=ast.Load()), cause=None), f'OSError(directory not empty: {p})')
            fs.dirs.discard(p); fs.effect(f'rmdir {p}')
        path.attrs['getsize'] = (lambda p: sum(len(t_) for t_ in fs.files[norm(p)]) if isinstance(fs.files.get(norm(p)), list) else (0 if fs.files.get(norm(p), (None,))[0] == 'npz-incomplete' else 1))
        path.attrs['abspath'] = (lambda p: norm(p)); path.attrs['normpath'] = (lambda p: norm(p)); path.attrs['expanduser'] = (lambda p: norm(p))
        return Obj(name='os', attrs={'path': path, 'makedirs': (lambda p, **k: fs.makedirs(norm(p))), 'mkdir': (lambda p, **k: fs.makedirs(norm(p))), 'listdir': (lambda p: fs.listdir(norm(p))),
                                     'remove': remove, 'unlink': remove, 'rmdir': rmdir, 'rename': rename, 'replace': rename, 'environ': {}, 'sep': '/', 'getcwd': (lambda: '/cwd'), 'getpid': (lambda: 4242),
                                     'fsync': (lambda *a: None), 'cpu_count': (lambda: 8)})

    def call_hook(self, itp, f, args, kwargs, e, fr):
        name = getattr(f, 'name', None) if isinstance(f, Builtin) else None
        if name is not None:
            base = name.split('.')[-1]
            fs = self.fs
            if base == 'open':
                return self.file_obj(norm(args[0]), args[1] if len(args) > 1 else kwargs.get('mode', 'r'))
            if base in ('savez', 'savez_compressed'):
                p = norm(args[0])
                fs.files[p] = ('npz-incomplete', None); fs.effect(f'create {p} (incomplete)')
                fs.files[p] = ('npz', dict(kwargs)); fs.effect(f'complete {p}')
                return None
            if base == 'save':
                p = norm(args[0])
                fs.files[p] = ('npy', args[1]); fs.effect(f'save {p}')
                return None
            if base == 'load':
                p = norm(args[0])
                c = fs.files.get(p)
                if c is None:
                    raise RaiseSignal(ast.Raise(exc=ast.Name(id='FileNotFoundError', ctx=ast.Load()), cause=None), f'FileNotFoundError({p})')
                if not isinstance(c, tuple) or c[0] == 'npz-incomplete':
                    raise RaiseSignal(ast.Raise(exc=ast.Name(id='BadZipFile', ctx=ast.Load()), cause=None), f'BadZipFile({p}): truncated result file')
                if c[0] == 'npz':
                    z = NpzModel(c[1])
                    return z
                return c[1]
            if base == 'logspace':
                lo, hi, n = args[0], args[1], args[2]
                pts = I.Interp.builtin(itp, 'linspace', [lo, hi, n], {}, e, fr)
                out = []
                for q in pts:
                    c = I.concrete(q) if isinstance(q, X.Node) else q
                    if c is None or Fraction(c).denominator != 1:
                        raise AnalysisError('logspace at a non-integer exponent is not modelled (choose integer exponents)')
                    out.append(Fraction(10) ** int(c))
                return Vec(out)
            if base in ('unique', 'sort'):
                vals = [Fraction(I.concrete(v)) if isinstance(v, X.Node) else Fraction(v) for v in args[0]]
                return Vec(sorted(set(vals)) if base == 'unique' else sorted(vals))
            if base == 'meshgrid':
                arrs = [list(a) for a in args]
                if kwargs.get('indexing', 'xy') != 'ij' and len(arrs) > 1:
                    arrs_shape = [len(arrs[1]), len(arrs[0])] + [len(a) for a in arrs[2:]]
                else:
                    arrs_shape = [len(a) for a in arrs]
                comps = []
                for d_, a in enumerate(arrs):
                    flat = []
                    for idx in itertools.product(*[range(n) for n in arrs_shape]):
                        if kwargs.get('indexing', 'xy') != 'ij' and len(arrs) > 1:
                            pos = idx[1] if d_ == 0 else (idx[0] if d_ == 1 else idx[d_])
                        else:
                            pos = idx[d_]
                        flat.append(a[pos])
                    comps.append(self.ndarray(flat, tuple(arrs_shape)))
                return comps
            if base in ('unravel_index', 'ravel_multi_index', 'prod') and args:
                def ints(v):
                    out = []
                    for x_ in (v if isinstance(v, (tuple, list, Vec)) else [v]):
                        c_ = I.concrete(x_) if isinstance(x_, X.Node) else x_
                        if c_ is None or Fraction(c_).denominator != 1:
                            raise AnalysisError(f'{base} of a non-integer / symbolic value')
                        out.append(int(c_))
                    return out
                if base == 'prod':
                    r_ = 1
                    for x_ in ints(args[0]): r_ *= x_
                    return r_
                shape = ints(args[1] if len(args) > 1 else kwargs.get('shape', kwargs.get('dims')))
                total = 1
                for n_ in shape: total *= n_
                if base == 'unravel_index':
                    k_ = ints(args[0])[0]
                    if not 0 <= k_ < total:          # numpy raises for an index outside the array
                        raise RaiseSignal(ast.Raise(exc=ast.Name(id='ValueError', ctx=ast.Load()), cause=None), f'ValueError(index {k_} is out of bounds for array with size {total})')
                    out = []
                    for n_ in reversed(shape):
                        out.append(k_ % n_); k_ //= n_
                    return tuple(reversed(out))
                idx = ints(args[0])
                if len(idx) != len(shape) or any(not 0 <= i_ < n_ for i_, n_ in zip(idx, shape)):
                    raise RaiseSignal(ast.Raise(exc=ast.Name(id='ValueError', ctx=ast.Load()), cause=None), 'ValueError(invalid entry in coordinates array)')
                k_ = 0
                for i_, n_ in zip(idx, shape): k_ = k_ * n_ + i_
                return k_
            if base == 'size' and args and isinstance(args[0], Obj) and 'flat' in args[0].attrs:
                return len(args[0].attrs['flat'])
            if base == 'size' and args and isinstance(args[0], (list, Vec, tuple)):
                return len(args[0])
            if base in ('asarray', 'array') and args and isinstance(args[0], Obj) and 'flat' in args[0].attrs:
                return args[0]
            if base in ('array2string', 'array_str', 'array_repr') and args:
                a_ = args[0]
                a_ = a_.attrs['flat'] if isinstance(a_, Obj) and 'flat' in a_.attrs else a_
                if isinstance(a_, (list, tuple, Vec)):
                    vals_ = []
                    for v_ in a_:
                        c_ = I.concrete(v_) if isinstance(v_, X.Node) else v_
                        if c_ is None or isinstance(c_, (str, bool)):
                            raise AnalysisError(f'{base} of a non-numeric / symbolic element')
                        vals_.append(Fraction(c_))
                    prec_ = kwargs.get('precision', 8)
                    txt_ = np_array2string(vals_, precision=8 if prec_ is None else int(prec_), separator=kwargs.get('separator', ' '))
                    return ('array(' + txt_ + ')') if base == 'array_repr' else txt_
            if base in ('print', 'warn'):
                return None
            # the standard library's regular expressions, by their real implementation (text in, text out)
            import re as _re
            if base == 'compile' and args and isinstance(args[0], str):
                return self.regex(_re.compile(*args, **kwargs))
            if base in ('findall', 'split', 'sub', 'match', 'search', 'fullmatch') and len(args) >= 2 and all(isinstance(a_, str) for a_ in args[:2]) and not (base == 'split' and len(args) == 1):
                fn_ = getattr(self.regex(_re.compile(args[0])).attrs, 'get')(base)
                return fn_(*args[1:], **kwargs)
            if base == 'float' and args and isinstance(args[0], str):
                try: return Fraction(args[0].strip())
                except ValueError:
                    raise RaiseSignal(ast.Raise(exc=ast.Name(id='ValueError', ctx=ast.Load()), cause=None), f'ValueError(could not convert string to float: {args[0]!r})')
            if base == 'int' and args and isinstance(args[0], str):
                try: return int(args[0].strip())
                except ValueError:
                    raise RaiseSignal(ast.Raise(exc=ast.Name(id='ValueError', ctx=ast.Load()), cause=None), f'ValueError(invalid literal for int(): {args[0]!r})')
            if base == 'str' and args:
                return fmt(itp, args[0], '', -1)
            if base == 'dict' and args and isinstance(args[0], dict):
                d = dict(args[0]); d.update(kwargs); return d
        return NotImplemented

    def regex(self, pat):
        def wrap_match(m_):
            if m_ is None: return None
            return Obj(name='match', attrs={'group': m_.group, 'groups': m_.groups, 'start': m_.start, 'end': m_.end, 'span': m_.span, 'groupdict': m_.groupdict})
        return Obj(name=f'regex {pat.pattern!r}', attrs={'findall': pat.findall, 'split': pat.split, 'sub': pat.sub, 'pattern': pat.pattern,
                                                          'match': (lambda *a, **k: wrap_match(pat.match(*a, **k))), 'search': (lambda *a, **k: wrap_match(pat.search(*a, **k))),
                                                          'fullmatch': (lambda *a, **k: wrap_match(pat.fullmatch(*a, **k)))})

    def ndarray(self, flat, shape):
        flat = Vec(flat)
        o = Obj(name='ndarray', attrs={'flat': flat, 'shape': shape, 'size': len(flat), 'flatten': (lambda *a, **k: flat), 'ravel': (lambda *a, **k: flat),
                                       'reshape': (lambda *a, **k: flat)})
        return o

    def expr_hook(self, itp, e, fr):
        return NotImplemented

    # ---------------------------------------------------------------- running the driver
    def run(self, directory, inputs, force_restart=False, **kw):
        f = self.mod.defs.get('multiprocessing_run')
        if not isinstance(f, ast.FunctionDef):
            raise AnalysisError('multiprocessing_run vanished')
        Inp = self.it.global_name(self.mod, 'MultiprocessingInput')
        if not callable(Inp):
            raise AnalysisError('MultiprocessingInput is not a namedtuple the model understands')
        input_data = tuple(Inp(*t) for t in inputs)
        args = {'directory_name': directory, 'study_name': 'model-study', 'study_function': self.study, 'input_data': input_data, 'force_restart': force_restart, 'verbose': False,
                'max_procs': 4, 'perform_memory_check': False, 'avoid_crashes': kw.get('avoid_crashes', True)}
        params = {a.arg for a in f.args.args + f.args.kwonlyargs}
        missing = [k for k in ('directory_name', 'study_function', 'input_data', 'force_restart') if k not in params]
        if missing:
            raise AnalysisError(f'multiprocessing_run: parameters {missing} vanished')
        if self.postprocess:
            if 'postprocess_func' not in params:
                raise AnalysisError('multiprocessing_run: parameter postprocess_func vanished')
            args['postprocess_func'] = self.postprocess_stub
        args = {k: v for k, v in args.items() if k in params}
        return self.it.call(self.mod, f, [], args)


# ====================================================================================================== exploration
def _records(out):
    """returned list -> {case_number: [(input_index, result)]}; raises AnalysisError if the list is not made of records"""
    got = {}
    if out is None:
        return None
    for o in out:
        if not (isinstance(o, Obj) and {'case_number', 'input_index', 'result'} <= set(o.attrs)):
            return 'bare'
        got.setdefault(o.attrs['case_number'], []).append((tuple(o.attrs['input_index']), o.attrs['result']))
    return got


def _same_result(a, b):
    if a is None or b is None:
        return a is b
    if isinstance(a, dict) and isinstance(b, dict):
        return set(a) == set(b) and all(_same_result(a[k], b[k]) for k in a)
    if isinstance(a, X.Node) and isinstance(b, X.Node):
        return a is b or X.show(a) == X.show(b)
    return a == b


class Scenario:
    def __init__(self, name, inputs, pathos=True, fail=(), avoid_crashes=True, refail=None, postprocess=False):
        self.name = name; self.inputs = inputs; self.pathos = pathos; self.fail = tuple(fail); self.avoid_crashes = avoid_crashes; self.postprocess = postprocess
        self.refail = self.fail if refail is None else tuple(refail)      # cases that (still) raise when the study is run again


def reference(repo, sc):
    """the uninterrupted run: (records, effect trace, machine)"""
    fs = FS()
    m = Machine(repo, fs, fail_cases=sc.fail, pathos=sc.pathos, postprocess=getattr(sc, 'postprocess', False))
    try:
        out = m.run('/study', sc.inputs, force_restart=False, avoid_crashes=sc.avoid_crashes)
    except RaiseSignal as ex:
        raise AnalysisError(f'scenario {sc.name}: the uninterrupted model run raises: {ex.text}')
    return out, fs, m


def case_dirs_of(fs):
    """case tag -> directory that case's worker created (first makedirs effect carrying the tag)"""
    out = {}
    for lab, tag, _ in fs.trace:
        if tag is not None and lab.startswith('makedirs ') and tag not in out:
            out[tag] = lab.split(' ', 1)[1]
    return out


def classify(lab, tag, dirs, phase=''):
    """kill-point class: the effect after which the process is killed, with case-specific names abstracted"""
    if tag is None:
        return f'driver{phase}: ' + lab
    d_ = dirs.get(tag)
    if d_ and d_ in lab:
        lab = lab.replace(d_, '<case dir>')
    return 'worker: ' + lab


def marked_cases(snap, ref_fs, dirs, marker_names):
    """cases whose success marker had been written completely at the snapshot"""
    done = set()
    for tag, d_ in dirs.items():
        for mn in marker_names:
            c = snap[1].get(d_ + '/' + mn)
            if isinstance(c, list) and c:
                done.add(tag)
    return done


def restart_from(repo, sc, snap):
    fs2 = FS(); fs2.restore(snap); fs2.record = False
    m2 = Machine(repo, fs2, fail_cases=sc.refail, pathos=sc.pathos, postprocess=getattr(sc, 'postprocess', False))
    try:
        out2 = m2.run('/study', sc.inputs, force_restart=False, avoid_crashes=True)
        return out2, m2, None
    except RaiseSignal as ex:
        return None, m2, f'raises {ex.text[:140]}'


def compare(ref_rec, got, ref_exec_args, m2, done_before, case_args):
    """-> (problems with results, problems with re-execution)"""
    p1 = []; p2 = []
    if got is None:
        p1.append('returns no result list'); return p1, p2
    if got == 'bare':
        p1.append('the returned list holds items that are not result records'); return p1, p2
    for c in sorted(set(ref_rec) | set(got), key=str):
        if c not in got: p1.append(f'case {c} has no result'); continue
        if c not in ref_rec: p1.append(f'unexpected case {c}'); continue
        if len(got[c]) != 1: p1.append(f'case {c} has {len(got[c])} results'); continue
        if got[c][0][0] != ref_rec[c][0][0]: p1.append(f'case {c} carries grid index {got[c][0][0]} (uninterrupted run: {ref_rec[c][0][0]})')
        if not _same_result(got[c][0][1], ref_rec[c][0][1]): p1.append(f'case {c} result differs from the uninterrupted run')
    counts = {}
    for a in m2.executed: counts[a] = counts.get(a, 0) + 1
    for c, a in case_args.items():
        n = counts.get(a, 0)
        if c in done_before and n > 0: p2.append(f'case {c} had completed before the kill and is executed again')
        if c not in done_before and n > 1: p2.append(f'case {c} is executed {n} times')
    return p1, p2


def explore(chk, repo, thorough=False):
    mod = repo.by_path('TidalPy/utilities/multiprocessing/multiprocessing.py')
    f = mod.defs.get('multiprocessing_run')
    where = mod.where(f)
    scenarios = [
        Scenario('2 x 3 grid, list must_include, pathos pool', [('x', 'X', 0, 1, 'linear', [], 2), ('y', 'Y', 0, 2, 'linear', [1], 2)]),
        Scenario('3 x 2 grid, tuple must_include, log scale, stdlib pool', [('x', 'X', 0, 2, 'log', (1,), 2), ('y', 'Y', 0, 1, 'linear', (), 2)], pathos=False),
        Scenario('2 x 2 grid, one case raising (avoid_crashes)', [('x', 'X', 0, 1, 'linear', (), 2), ('y', 'Y', 0, 1, 'linear', [], 2)], fail=((Fraction(0), Fraction(1)),)),
        Scenario('one input, 3 values', [('x', 'X', 0, 2, 'linear', [], 3)]),
        Scenario('negative and fractional inputs', [('x', 'X', Fraction(-1, 2), Fraction(3, 2), 'linear', [Fraction(-1, 4)], 3), ('y', 'Y', Fraction(1, 4), Fraction(3, 4), 'linear', (), 2)], pathos=False),
        Scenario('must-include values with more digits than a default array print keeps', [('x', 'X', 0, 1, 'linear', [Fraction('0.0094123456789')], 2), ('y', 'Y', 1, 2, 'linear', (Fraction('1.5000000001'),), 2)],
                 fail=((Fraction(0), Fraction(1)),)),
        Scenario('2 x 2 grid with a post-processing function, one case raising', [('x', 'X', 0, 1, 'linear', [], 2), ('y', 'Y', 0, 1, 'linear', (), 2)], fail=((Fraction(1), Fraction(0)),), postprocess=True),
        Scenario('3 values with a post-processing function', [('x', 'X', 0, 2, 'linear', [], 3)], pathos=False, postprocess=True),
        Scenario('must-include values the journal prints in exponent form', [('x', 'X', 0, 1, 'linear', (Fraction(1, 20000),), 2), ('y', 'Y', 0, 10 ** 21, 'linear', [Fraction(25 * 10 ** 19)], 2)]),
    ]
    n_kill = 0
    for sc in scenarios:
        out, fs, m = reference(repo, sc)
        ref_rec = _records(out)
        if ref_rec is None or ref_rec == 'bare':
            chk.ob('R18.5', f'[{sc.name}] the uninterrupted run returns a list of result records (case_number, input_index, result)', False, ('the study stops and returns nothing (with avoid_crashes a raising case must not stop the study)' if ref_rec is None else 'the returned list holds bare items'), where,
                   key=f'R18.5|{sc.name}|fresh', method='model interpretation'); continue
        # R18.3 every record carries its own case number and grid index
        dirs = case_dirs_of(fs)
        tags_in_order = []
        for lab, tag, _ in fs.trace:
            if tag is not None and tag not in tags_in_order: tags_in_order.append(tag)
        if len(tags_in_order) != len(m.executed):
            raise AnalysisError(f'scenario {sc.name}: {len(m.executed)} study-function calls but {len(tags_in_order)} cases left effects')
        case_args = dict(zip(tags_in_order, m.executed))
        arrays = {p.split('/')[-1][:-4]: c[1] for p, c in fs.files.items() if isinstance(c, tuple) and c[0] == 'npy' and p.startswith('/study/')}
        names = [t[0] for t in sc.inputs]
        bad3 = []
        for c, recs in ref_rec.items():
            idx, res = recs[0]
            if len(recs) != 1: bad3.append(f'case {c}: {len(recs)} records')
            if c not in case_args: bad3.append(f'record with case number {c}, under which no case was run'); continue
            try:
                want = tuple(arrays[nm][i] for nm, i in zip(names, idx))
            except Exception:
                bad3.append(f'case {c}: grid index {idx} does not address the saved input arrays'); continue
            have = case_args[c]
            if len(want) != len(have) or any(Fraction(I.concrete(X.lift(w))) != Fraction(I.concrete(X.lift(h))) for w, h in zip(want, have)):
                bad3.append(f'case {c}: grid index {idx} addresses inputs {[fmt(None, w, "", -1) for w in want]}, the case was run with {[fmt(None, h, "", -1) for h in have]}')
            key = tuple(a for a in have)
            expect = None if key in set(sc.fail) else True
            if (res is None) != (expect is None): bad3.append(f'case {c}: result {"missing" if res is None else "present"} although the study function {"raised" if expect is None else "returned"}')
        chk.ob('R18.3', f'[{sc.name}] uninterrupted run: one record per case, each with the case number it was run under, the grid index of the inputs it was run with, and its own result', not bad3,
               '; '.join(bad3[:3]), where, key=f'R18.3|{sc.name}', method='model interpretation of the driver and its worker')
        # marker files: files written inside a case directory whose presence makes the restart skip the case (found by their effect on the restart, not by name)
        marker_names = set()
        final = fs.trace[-1][2]
        for p in final[1]:
            for tag, d_ in dirs.items():
                if p.startswith(d_ + '/'):
                    marker_names.add(p[len(d_) + 1:])
        # a file is a marker if removing it from the final state makes the restart execute that case
        real_markers = set()
        o_full, m_full, err_full = restart_from(repo, sc, final)
        for mn in sorted(marker_names):
            # judged on a case that owns such a file and that a restart from the complete final state leaves alone (a case that raised owns no marker: it is re-run either way)
            owners = [t_ for t_ in tags_in_order if dirs.get(t_) and (dirs[t_] + '/' + mn) in final[1] and (err_full is not None or case_args[t_] not in m_full.executed)]
            if not owners:
                continue
            tag0 = owners[0]
            snap = (final[0], {k: v for k, v in final[1].items() if k != dirs[tag0] + '/' + mn})
            o2, m2, err = restart_from(repo, sc, snap)
            if err is None and case_args[tag0] in m2.executed:
                real_markers.add(mn)
        chk.note_analysed('protocol', f'[{sc.name}] files in a case directory: {sorted(marker_names)}; those whose absence makes a restart redo the case: {sorted(real_markers)}')
        # kill points
        classes = {}
        first_case = min((k for k, (_, tag, _) in enumerate(fs.trace) if tag is not None), default=len(fs.trace))
        last_case = max((k for k, (_, tag, _) in enumerate(fs.trace) if tag is not None), default=-1)
        for k, (lab, tag, snap) in enumerate(fs.trace):
            n_kill += 1
            cls = classify(lab, tag, dirs, ' (before the first case starts)' if k < first_case else (' (after the last case)' if k > last_case else ' (between cases)'))
            done = marked_cases(snap, fs, dirs, real_markers)
            o2, m2, err = restart_from(repo, sc, snap)
            if err is not None:
                p1, p2 = [f'the restarted study {err}'], []
            else:
                p1, p2 = compare(ref_rec, _records(o2), m.executed, m2, done, case_args)
            e = classes.setdefault(cls, {'n': 0, 'p1': [], 'p2': [], 'first': k})
            e['n'] += 1
            if p1 and not e['p1']: e['p1'] = [f'kill after effect #{k} ({lab}): ' + '; '.join(p1[:3])]
            if p2 and not e['p2']: e['p2'] = [f'kill after effect #{k} ({lab}): ' + '; '.join(p2[:3])]
        for cls, e in classes.items():
            chk.ob('R18.1', f'[{sc.name}] killed after `{cls}` ({e["n"]} kill points): the restarted study completes and every case has exactly one result, equal to the uninterrupted run\'s', not e['p1'],
                   '; '.join(e['p1']), where, key=f'R18.1|{sc.name}|{cls}', method='model interpretation: restart from every prefix of the effect trace')
            chk.ob('R18.2', f'[{sc.name}] killed after `{cls}` ({e["n"]} kill points): no case whose success marker was written is executed again, no case is executed twice', not e['p2'],
                   '; '.join(e['p2']), where, key=f'R18.2|{sc.name}|{cls}', method='model interpretation: restart from every prefix of the effect trace')
    chk.note_analysed('kill points', n_kill)
    return n_kill


def explore_products(chk, repo, limit=None, seed=0):
    """Concurrent workers: the cases run in separate processes, so a kill leaves *each* case at its own point of progress.  Every combination of per-case progress
    (not started / directory made / result incomplete / result complete / marker created / marker written / log line appended) is generated by interpreting the driver
    with a per-case budget of effects, then restarted from."""
    import random
    mod = repo.by_path('TidalPy/utilities/multiprocessing/multiprocessing.py')
    where = mod.where(mod.defs['multiprocessing_run'])
    sc = Scenario('3 cases, concurrent workers', [('x', 'X', 0, 2, 'linear', [], 3)])
    out, fs, m = reference(repo, sc)
    ref_rec = _records(out)
    dirs = case_dirs_of(fs)
    tags = []
    per_case = {}
    for lab, tag, _ in fs.trace:
        if tag is not None:
            per_case[tag] = per_case.get(tag, 0) + 1
            if tag not in tags: tags.append(tag)
    case_args = dict(zip(tags, m.executed))
    final = fs.trace[-1][2]
    marker_names = {p[len(d_) + 1:] for p in final[1] for d_ in dirs.values() if p.startswith(d_ + '/')}
    real_markers = set()
    for mn in sorted(marker_names):
        snap = (final[0], {k: v for k, v in final[1].items() if k != dirs[tags[0]] + '/' + mn})
        o2, m2, err = restart_from(repo, sc, snap)
        if err is None and case_args[tags[0]] in m2.executed: real_markers.add(mn)
    combos = list(itertools.product(*[range(per_case[t] + 1) for t in tags]))
    if limit is not None and len(combos) > limit:
        combos = random.Random(seed).sample(combos, limit)
    bad1 = []; bad2 = []
    for combo in combos:
        budget = dict(zip(tags, combo))
        fs2 = FS()
        m2 = Machine(repo, fs2, pathos=sc.pathos)
        orig_effect = fs2.effect
        state = {'pool_done': False}

        def effect(label, fs2=fs2, budget=budget, orig=orig_effect):
            if fs2.tag is not None:
                if budget[fs2.tag] <= 0:
                    raise Killed()
                budget[fs2.tag] -= 1
            orig(label)
        fs2.effect = effect
        # budgets are checked *before* an effect happens: undo the partial mutation by snapshotting around worker calls instead
        pool_run = m2.pool

        def pool(m2=m2, fs2=fs2, budget=budget):
            def run_all(func, cases, star):
                for c in cases:
                    fs2.tag = c[0]
                    snap_before = fs2.snapshot()
                    n0 = len(fs2.trace)
                    try:
                        m2.it.apply(func, list(c) if star else [c], {}, None, None)
                    except Killed:
                        # the worker process died before the effect it was about to make: roll the model back to the last effect it did make
                        fs2.restore(fs2.trace[-1][2] if len(fs2.trace) > n0 else snap_before)
                fs2.tag = None
                raise Killed()                   # ... and the driver process is killed as well
            return Obj(name='pool', attrs={'map': (lambda func, cases, **k: run_all(func, cases, False)), 'starmap': (lambda func, cases, **k: run_all(func, cases, True)),
                                           'imap': (lambda func, cases, **k: run_all(func, cases, False)), '__exit__': (lambda: None)})
        m2.pool = pool
        try:
            m2.run('/study', sc.inputs, force_restart=False)
        except Killed:
            pass
        except RaiseSignal as ex:
            raise AnalysisError(f'product state {combo}: first run raises {ex.text}')
        snap = fs2.snapshot()
        done = marked_cases(snap, fs2, dirs, real_markers)
        o3, m3, err = restart_from(repo, sc, snap)
        if err is not None:
            p1, p2 = [f'the restarted study {err}'], []
        else:
            p1, p2 = compare(ref_rec, _records(o3), m.executed, m3, done, case_args)
        if p1 and len(bad1) < 3: bad1.append(f'progress {dict(zip(tags, combo))}: ' + '; '.join(p1[:2]))
        if p2 and len(bad2) < 3: bad2.append(f'progress {dict(zip(tags, combo))}: ' + '; '.join(p2[:2]))
    chk.ob('R18.6', f'[{sc.name}] every combination of per-case progress at the kill ({len(combos)} states): the restarted study completes, one result per case equal to the uninterrupted run\'s', not bad1,
           ' | '.join(bad1), where, key='R18.6|products|results', method='model interpretation with per-case effect budgets')
    chk.ob('R18.6', f'[{sc.name}] every combination of per-case progress at the kill ({len(combos)} states): completed cases are not executed again', not bad2,
           ' | '.join(bad2), where, key='R18.6|products|re-execution', method='model interpretation with per-case effect budgets')
    chk.note_analysed('product kill states', len(combos))


def explore_repeated(chk, repo, stride=1):
    """more than one restart when cases raise: call 1 ends with some cases having raised (their directories keep what a failed case leaves behind); call 2 is a restart in
    which they succeed; call 3 -- any further call on the directory, also after a kill of call 2 -- must execute nothing that has completed and still return one result per
    case, equal to the results of a study in which nothing ever raised."""
    mod = repo.by_path('TidalPy/utilities/multiprocessing/multiprocessing.py')
    where = mod.where(mod.defs['multiprocessing_run'])
    inputs23 = [('x', 'X', 0, 1, 'linear', [], 2), ('y', 'Y', 0, 2, 'linear', (), 3)]
    # twelve cases: case numbers of one and of two digits (a completed case 10 or 11 must not stand in for an incomplete case 1)
    inputs12 = [('x', 'X', 0, 11, 'linear', [], 12)]
    refs = {}
    for gname, inputs, fails, coarse in (('2 x 3 grid', inputs23, ((Fraction(0), Fraction(1)),), 1), ('2 x 3 grid', inputs23, ((Fraction(0), Fraction(0)), (Fraction(1), Fraction(2))), 1),
                                         ('12 values of one input', inputs12, ((Fraction(1),),), 12)):
        if gname not in refs:
            clean = Scenario(f'{gname}, nothing raises', inputs)
            ref_out, ref_fs, ref_m = reference(repo, clean)
            refs[gname] = (_records(ref_out), ref_m)
        ref_rec, ref_m = refs[gname]
        stride_ = stride * coarse
        sc = Scenario(f'{gname}, {len(fails)} case(s) raising in the first call only', inputs, fail=fails, refail=())
        fs = FS()
        m1 = Machine(repo, fs, fail_cases=sc.fail, pathos=True)
        bad = []; n = 0
        try:
            m1.run('/study', sc.inputs, force_restart=False, avoid_crashes=True)
            n1 = len(fs.trace)
            m2 = Machine(repo, fs, fail_cases=(), pathos=True)
            m2.run('/study', sc.inputs, force_restart=False, avoid_crashes=True)
        except RaiseSignal as ex:
            chk.ob('R18.8', f'[{sc.name}] the study and its first restart run to their end', False, f'raises {ex.text[:120]}', where, key=f'R18.8|{sc.name}|runs'); continue
        dirs = case_dirs_of(fs)
        case_args = {}
        for a_ in ref_m.executed: pass
        # third call from the final state and from the states a kill of the second call leaves
        points = [len(fs.trace) - 1] + list(range(n1, len(fs.trace) - 1, max(1, stride_)))
        for k in points:
            lab, tag, snap = fs.trace[k]
            fs3 = FS(); fs3.restore(snap); fs3.record = False
            m3 = Machine(repo, fs3, fail_cases=(), pathos=True)
            n += 1
            try:
                out3 = m3.run('/study', sc.inputs, force_restart=False, avoid_crashes=True)
            except RaiseSignal as ex:
                bad.append(f'third call after #{k} ({lab}) raises {ex.text[:80]}'); continue
            got = _records(out3)
            p1, _ = compare(ref_rec, got, ref_m.executed, m3, set(), {})
            if p1:
                bad.append(f'third call after #{k} ({lab}): ' + '; '.join(p1[:2]))
            # what had completed when the third call started: the cases the first two calls executed successfully and whose markers were complete at the snapshot
            done_args = set()
            for tag_, d_ in dirs.items():
                c_ = snap[1].get(d_ + '/mp_success.log')
                r_ = snap[1].get(d_ + '/mp_results.npz')
                if isinstance(c_, list) and c_ and isinstance(r_, tuple) and r_[0] == 'npz':
                    done_args.add(tag_)
            again = [a_ for a_ in m3.executed if any(a_ == t_ or (isinstance(t_, tuple) and tuple(a_) == tuple(t_)) for t_ in done_args)]
            if k == len(fs.trace) - 1 and m3.executed:
                bad.append(f'third call on the completed study executes {len(m3.executed)} case(s) again: {[tuple(fmt(None, v_, "", -1) for v_ in a_) for a_ in m3.executed][:3]}')
            elif again:
                bad.append(f'third call after #{k} ({lab}) executes completed case(s) again')
            if len(bad) >= 3: break
        chk.ob('R18.8', f'[{sc.name}] after a restart in which they succeed, any further call ({n} starting states: the completed study and every kill point of the restart) executes no completed case again and returns one result per case, equal to a study in which nothing raised',
               not bad, ' | '.join(bad[:3]), where, key=f'R18.8|{sc.name}', method='model interpretation: three calls on one directory')
    chk.note_analysed('repeated restarts', 'three fail sets (two on a 2 x 3 grid, one on a 12-case study) x (completed study + kill points of the restart)')


def explore_double(chk, repo, stride=1):
    """a restarted study that is itself killed, and restarted again"""
    mod = repo.by_path('TidalPy/utilities/multiprocessing/multiprocessing.py')
    where = mod.where(mod.defs['multiprocessing_run'])
    sc = Scenario('2 x 2 grid, killed twice', [('x', 'X', 0, 1, 'linear', [], 2), ('y', 'Y', 0, 1, 'linear', (), 2)])
    out, fs, m = reference(repo, sc)
    ref_rec = _records(out)
    dirs = case_dirs_of(fs)
    bad = []; n = 0
    for k in range(0, len(fs.trace), stride):
        lab, tag, snap = fs.trace[k]
        fs2 = FS(); fs2.restore(snap)
        m2 = Machine(repo, fs2, pathos=sc.pathos)
        try:
            m2.run('/study', sc.inputs, force_restart=False)
        except RaiseSignal as ex:
            bad.append(f'kill after #{k} ({lab}): restart raises {ex.text[:80]}'); continue
        for k2 in range(0, len(fs2.trace), stride):
            lab2, tag2, snap2 = fs2.trace[k2]
            n += 1
            o3, m3, err = restart_from(repo, sc, snap2)
            if err is not None:
                if len(bad) < 3: bad.append(f'kill after #{k} ({lab}), restart killed after its #{k2} ({lab2}): second restart {err}')
                continue
            got = _records(o3)
            p1, _ = compare(ref_rec, got, m.executed, m3, set(), {})
            if p1 and len(bad) < 3:
                bad.append(f'kill after #{k} ({lab}), restart killed after its #{k2} ({lab2}): ' + '; '.join(p1[:2]))
    chk.ob('R18.7', f'[{sc.name}] a restarted study that is killed again ({n} pairs of kill points) still completes on the next run with one result per case equal to the uninterrupted run\'s', not bad,
           ' | '.join(bad[:3]), where, key='R18.7|double-kill', method='model interpretation: restart from every prefix of a restart\'s effect trace')
    chk.note_analysed('double kill pairs', n)
