"""Whole-function symbolic execution of the compiled radial solver's driver, `cf_radial_solver` (solver.pyx).

The driver is interpreted from its first to its last statement on a concrete layer structure (number of layers, slices per layer, layer kinds) with symbolic
material arrays.  Everything it calls inside the repository is interpreted too (boundary table, interface functions, surface condition, collapse, Love numbers,
(re-)non-dimensionalisation).  Three things are abstracted, each by its contract:
  * the ODE integration (`cf_build_solver(...)` / `solver._solve()`, CyRK): the solution of one starting vector is an arbitrary array whose first slice equals the
    starting vector handed in (free symbols for every other slice and component);
  * the starting conditions of the innermost layer (`cf_find_starting_conditions`): arbitrary values (C04 decides them);
  * LAPACK `zgesv`: exact solution of the n x n system by Cramer's rule (n <= 3), info = 0;
  * heap allocation (`allocate_mem`, `PyMem_Free`, ...): fresh arrays / no-ops.
What comes out is the returned solution object with every element an explicit expression in those symbols, so the clauses of C02 / C03 / C06 can be decided on
the *assembled* result of the real driver rather than on its component functions, independent of how the driver names its locals or splits its code into helpers.
"""
from __future__ import annotations
import ast
from ..core import expr as X
from ..core import interp as I
from ..core.interp import Interp, Arr, Obj, Ref, Opaque, FuncRef, Builtin, RaiseSignal
from ..core.report import AnalysisError
from ..oracles import ts72

KIND = {'solid': (0, False), 'solid-static': (0, True), 'liquid': (1, False), 'liquid-static': (1, True)}
MAXY = 6


REF_SIGNATURES = {
    'cf_build_solver': ['layer_type', 'is_static', 'is_incomp', 'num_slices', 'num_ys', 'radius_array_ptr', 'density_array_ptr', 'gravity_array_ptr', 'bulk_modulus_array_ptr', 'shear_modulus_array_ptr',
                        'frequency_to_use', 'degree_l', 'G_to_use', 't_span', 'y0_ptr', 'atols_ptr', 'rtols_ptr', 'rk_method', 'max_step', 'max_num_steps', 'expected_size', 'max_ram_MB', 'limit_solution_to_radius'],
    'cf_find_starting_conditions': ['layer_type', 'is_static', 'is_incompressible', 'use_kamata', 'frequency', 'radius', 'density', 'bulk_modulus', 'shear_modulus', 'degree_l', 'G_to_use', 'num_ys',
                                    'starting_conditions_ptr', 'run_y_checks'],
    'cf_apply_surface_bc': ['constant_vector_ptr', 'bc_solution_info_ptr', 'bc_pointer', 'uppermost_y_per_solution_ptr', 'surface_gravity', 'G_to_use', 'num_sols', 'max_num_y', 'ytype_i', 'layer_type',
                            'layer_is_static', 'layer_is_incomp'],
    'cf_radial_solver': ['total_slices', 'radius_array_ptr', 'density_array_ptr', 'gravity_array_ptr', 'bulk_modulus_array_ptr', 'complex_shear_modulus_array_ptr', 'frequency', 'planet_bulk_density',
                         'num_layers', 'layer_types_ptr', 'is_static_by_layer_ptr', 'is_incompressible_by_layer_ptr', 'upper_radius_by_layer_ptr', 'degree_l', 'solve_for', 'use_kamata',
                         'integration_method', 'integration_rtol', 'integration_atol', 'scale_rtols_by_layer_type', 'max_num_steps', 'expected_size', 'max_ram_MB', 'max_step',
                         'limit_solution_to_radius', 'nondimensionalize', 'verbose', 'raise_on_fail'],
}


def role_names(fname, actual):
    """Parameters of an internal function are addressed by their *role* (the name they have on the reference tree).  A tree that keeps the names may reorder them; a tree that
    renames them must keep their order; a tree that does both cannot be matched and is an analysis error (never a guess)."""
    ref = REF_SIGNATURES[fname]
    if all(n in actual for n in ref):
        return list(actual)                                    # same names (any order): roles are the names
    if len(actual) == len(ref):
        return list(ref)                                       # renamed, same arity: roles by position
    raise AnalysisError(f'{fname}: its parameters were both renamed and re-arranged ({actual}); the roles of its arguments cannot be matched')


class Run:
    pass


def cramer(A, b, n):
    """solve A c = b for n <= 3; A[i][j] nodes"""
    def det(M):
        if len(M) == 1: return M[0][0]
        if len(M) == 2: return M[0][0] * M[1][1] - M[0][1] * M[1][0]
        return (M[0][0] * (M[1][1] * M[2][2] - M[1][2] * M[2][1]) - M[0][1] * (M[1][0] * M[2][2] - M[1][2] * M[2][0]) + M[0][2] * (M[1][0] * M[2][1] - M[1][1] * M[2][0]))
    D = det(A)
    out = []
    for j in range(n):
        Mj = [[(b[i] if c == j else A[i][c]) for c in range(n)] for i in range(n)]
        out.append(det(Mj) / D)
    return out


def run_solver(repo, kinds, solve_for=('tidal',), nondimensionalize=False, slices_per_layer=4, incompressible=False, extra_kwargs=None, slices_by_layer=None):
    """kinds: tuple of KIND names, innermost first.  slices_by_layer (optional): an uneven -- possibly malformed -- layer structure, e.g. (4, 0, 4)."""
    ms = repo.by_path('TidalPy/RadialSolver/solver.pyx')
    f = ms.defs.get('cf_radial_solver')
    if not isinstance(f, ast.FunctionDef):
        raise AnalysisError('cf_radial_solver vanished')
    nl = len(kinds); ns = slices_per_layer
    per = list(slices_by_layer) if slices_by_layer is not None else [ns] * nl
    total = sum(per)
    r = Run(); r.kinds = kinds; r.total = total; r.ns = ns
    r.sym = {'l': X.atom('l', 'pos'), 'rho_bulk': X.atom('rho_bulk', 'pos'), 'w': X.atom('frequency', 'pos')}
    # concrete, strictly increasing radii (the driver counts slices by comparing radii); the planet radius is the last one
    radii = [X.const(k + 1) for k in range(total)]
    r.R = radii[-1]
    r.inputs = {}
    arrs = {}
    for nm, kind in (('radius', 'pos'), ('density', 'pos'), ('gravity', 'pos'), ('bulk', 'pos'), ('shear', 'complex')):
        a = Arr(nm + '_array'); a.extent = total
        vals = radii if nm == 'radius' else [X.atom(f'{nm}{i}', kind) for i in range(total)]
        for i, v in enumerate(vals): a.store[i] = v
        arrs[nm] = a; r.inputs[nm] = list(vals)
    r.arrays = arrs
    ltypes = Arr('layer_types'); lstat = Arr('is_static'); linc = Arr('is_incompressible'); lup = Arr('upper_radius')
    for k, kd in enumerate(kinds):
        ltypes.store[k] = KIND[kd][0]; lstat.store[k] = KIND[kd][1]; linc.store[k] = incompressible
        top = sum(per[:k + 1]) - 1
        # upper radius of the layer = radius of its last slice (a layer without slices ends where the layer below ends; below the first slice if nothing lies below)
        lup.store[k] = radii[top] if top >= 0 else X.const(1) / 2
    for a in (ltypes, lstat, linc, lup): a.extent = nl
    extra_kwargs = dict(extra_kwargs or {})
    fail_layer = extra_kwargs.pop('__fail_layer__', None)
    fail_solution = extra_kwargs.pop('__fail_solution__', None)      # None: every solution of the failing layer fails; k: only its k-th integration does
    if extra_kwargs.pop('__zero_bulk_density__', False):
        r.sym['rho_bulk'] = X.const(0)                              # a planet_bulk_density of exactly 0.0 (every division by it is a division by zero)
    nan_inputs = extra_kwargs.pop('__nan_inputs__', False)       # a scalar input (frequency, bulk density, planet radius) is NaN: every isnan() test on them holds
    state = {'layer': -1, 'solve_count': {}, 'solution': None, 'love': None, 'zgesv': 0, 'solution_obj': None}
    r.state = state

    def make_solver(args):
        # cf_build_solver(layer_type, static, incomp, layer_slices, num_ys_dbl, radius_ptr, ..., y0_ptr at index 14, ...)
        lt, st_, inc_, nsl, nyd, y0 = (args[k_] for k_ in build_pos)
        state['layer'] += 1
        layer = state['layer']
        state.setdefault('build_calls', []).append(list(args))
        so = Obj(name=f'solver[layer {layer}]', attrs={'success': True, 'message': '', 'status': 0, 'solution_y_ptr': None, '__y0__': y0, '__k__': -1})

        def change_y0(ptr, *a, **k):
            so.attrs['__y0__'] = ptr

        def solve(*a, **k):
            so.attrs['__k__'] += 1
            kk = so.attrs['__k__']
            sol = Arr(f'solution_y[layer {layer}][solution {kk}]'); sol.extent = nsl * nyd
            y0p = so.attrs['__y0__']
            for c in range(nyd):
                sol.store[c] = y0p.get(c)                       # the solution at the first slice is the starting vector
            for s_ in range(1, nsl):
                for c in range(nyd):
                    sol.store[s_ * nyd + c] = X.atom(f'Y[L{layer}][S{kk}][slice {s_}][{c // 2}]{"im" if c % 2 else "re"}')
            so.attrs['solution_y_ptr'] = sol
            so.attrs['success'] = True; so.attrs['message'] = ''
            if fail_layer is not None and layer == fail_layer and (fail_solution is None or kk == fail_solution):
                so.attrs['success'] = False; so.attrs['message'] = 'integration failed (stub)'
        so.attrs['change_y0_pointer'] = change_y0
        so.attrs['_solve'] = solve; so.attrs['solve'] = solve
        return so

    def positions(path, fname, roles):
        m_ = repo.by_path(path)
        fd = m_.defs.get(fname)
        if not isinstance(fd, ast.FunctionDef):
            raise AnalysisError(f'{fname} vanished')
        names = role_names(fname, [a_.arg for a_ in fd.args.args])
        return [names.index(r_) for r_ in roles]
    build_pos = positions('TidalPy/RadialSolver/derivatives/odes.pyx', 'cf_build_solver', ['layer_type', 'is_static', 'is_incomp', 'num_slices', 'num_ys', 'y0_ptr'])
    start_pos = positions('TidalPy/RadialSolver/starting/driver.pyx', 'cf_find_starting_conditions', ['layer_type', 'is_static', 'starting_conditions_ptr'])

    def call_hook(itp, fn_, args, kwargs, e, fr):
        nm = fn_.node.name if isinstance(fn_, FuncRef) else str(getattr(fn_, 'name', ''))
        base = nm.split('.')[-1]
        if base in ('cf_solve_upper_y_at_interface', 'cf_top_to_bottom_interface_bc') and isinstance(fn_, FuncRef):
            names = [a_.arg for a_ in fn_.node.args.args]
            bound = dict(zip(names, args)); bound.update(kwargs)
            state.setdefault('iface_calls', []).append((base, bound))
            return NotImplemented          # recorded; the function itself is interpreted
        if base == 'cf_redimensionalize_radial_functions' and isinstance(fn_, FuncRef):
            names = [a_.arg for a_ in fn_.node.args.args]
            bound = dict(zip(names, args)); bound.update(kwargs)
            state.setdefault('redim_calls', []).append(bound)
            return NotImplemented
        if base == 'cf_apply_surface_bc' and isinstance(fn_, FuncRef):
            names = [a_.arg for a_ in fn_.node.args.args]
            bound = dict(zip(names, args)); bound.update(kwargs)
            bound['__gravity_top_now__'] = arrs['gravity'].store.get(total - 1)          # the surface gravity as the (possibly rescaled) caller array holds it at this moment
            state.setdefault('surface_calls', []).append((names, bound))
            return NotImplemented
        if base == 'cf_build_solver':
            return make_solver(args)
        if base == 'cf_find_starting_conditions':
            if isinstance(fn_, FuncRef):
                names = [a_.arg for a_ in fn_.node.args.args]
                bound = dict(zip(names, args)); bound.update(kwargs)
                state.setdefault('start_calls', []).append((names, bound))
            lt, st_, out = (args[k_] for k_ in start_pos)
            nsol = ts72.NUM_SOLS[('solid' if lt == 0 else 'liquid', bool(st_))]
            nys = len(ts72.LAYOUT[('solid' if lt == 0 else 'liquid', bool(st_))])
            for s_ in range(nsol):
                for j in range(nys):
                    out.set(s_ * MAXY + j, X.atom(f'start[{s_}][{j}]', 'complex'))
            return None
        if base in ('allocate_mem', 'reallocate_mem'):
            blk = Arr('heap block ' + (args[-1] if args and isinstance(args[-1], str) else (args[1] if len(args) > 1 and isinstance(args[1], str) else '')))
            nb = args[0] if base == 'allocate_mem' else (args[1] if len(args) > 1 else None)
            blk.nbytes = nb if isinstance(nb, int) and not isinstance(nb, bool) else None        # the cast that follows turns it into an extent in elements
            return blk
        if base in ('PyMem_Free', 'free_mem', 'free'):
            return None
        if base.endswith('zgesv'):
            def deref(v): return v.frame.vars[v.name] if isinstance(v, Ref) else v
            n = deref(args[0]); A = args[2]; b = args[5]; info = args[7]
            raw = [A.get(i + n * j) for j in range(n) for i in range(n)] + [b.get(i) for i in range(n)]
            if any(isinstance(v_, Opaque) for v_ in raw):
                sol = [Opaque('arith')] * n            # a system built from values nobody defined (uninitialised memory, infinities): the solution is as undefined as they are
            else:
                M = [[X.lift(A.get(i + n * j)) for j in range(n)] for i in range(n)]
                bv = [X.lift(b.get(i)) for i in range(n)]
                sol = cramer(M, bv, n)
            for i in range(n): b.set(i, sol[i])
            # on exit LAPACK has replaced A by its L and U factors: a caller that solves again with the same matrix without refilling it solves another system
            for i in range(n * n):
                A.set(i, X.atom(f'LU factor {i} left in the matrix by zgesv call {state["zgesv"]}', 'complex'))
            ie = e.args[7] if len(e.args) > 7 else None
            tgt = fr.vars.get(ie.id) if isinstance(ie, ast.Name) else info       # a pointer variable evaluates to its target: fetch the reference itself
            if isinstance(tgt, Ref): tgt.frame.vars[tgt.name] = 0
            elif isinstance(tgt, Arr): tgt.set(0, 0)
            else: raise AnalysisError(f'{fr.mod.where(e)}: zgesv status argument is not a pointer')
            state['zgesv'] += 1
            return None
        if base.endswith('zgetrf') or base.endswith('zgetrs'):
            # the two routines the zgesv driver is made of: factorise in place (the matrix then holds L and U, the pivots go to IPIV), then substitute
            def deref(v): return v.frame.vars[v.name] if isinstance(v, Ref) else v

            def set_info(pos):
                ie = e.args[pos] if len(e.args) > pos else None
                tgt = fr.vars.get(ie.id) if isinstance(ie, ast.Name) else args[pos]
                if isinstance(tgt, Ref): tgt.frame.vars[tgt.name] = 0
                elif isinstance(tgt, Arr): tgt.set(0, 0)
                else: raise AnalysisError(f'{fr.mod.where(e)}: {base} status argument is not a pointer')
            lu = state.setdefault('lu', {})
            if base.endswith('zgetrf'):
                m_ = deref(args[0]); n = deref(args[1]); A = args[2]; ipiv = args[4]
                if m_ != n: raise AnalysisError(f'{fr.mod.where(e)}: zgetrf of a non-square matrix is not modelled')
                raw = [A.get(i + n * j) for j in range(n) for i in range(n)]
                state['zgesv'] += 1
                tag = state['zgesv']
                lu[tag] = (n, raw)
                for i in range(n * n):
                    A.set(i, X.atom(f'LU factor {i} of factorisation {tag}', 'complex'))
                if isinstance(ipiv, Arr):
                    for i in range(n): ipiv.set(i, X.atom(f'pivot {i} of factorisation {tag}', 'pos'))
                set_info(5)
                return None
            n = deref(args[1]); A = args[3]; ipiv = args[5]; b = args[6]
            cur = [A.get(i) for i in range(n * n)]
            tag = None
            for t_, (n_, raw_) in lu.items():
                if n_ == n and all(isinstance(c_, X.Node) and c_.op == 'atom' and c_.val[0] == f'LU factor {i} of factorisation {t_}' for i, c_ in enumerate(cur)):
                    tag = t_
            piv_ok = tag is not None and isinstance(ipiv, Arr) and all(isinstance(ipiv.store.get(ipiv._key(i)), X.Node) and ipiv.store[ipiv._key(i)].val[0] == f'pivot {i} of factorisation {tag}' for i in range(n))
            trans = args[0]
            tr_ok = True
            try:
                tv = trans.get(0) if isinstance(trans, Arr) else deref(trans)
                tr_ok = tv in (b'N', 'N', 78, ord('N'))
            except Exception:
                tr_ok = True
            if tag is None or not piv_ok or not tr_ok:
                sol = [Opaque('arith')] * n          # substitution with something that is not the factorisation (and pivots) zgetrf produced, or of the transposed system
            else:
                raw = lu[tag][1]
                bvals = [b.get(i) for i in range(n)]
                if any(isinstance(v_, Opaque) for v_ in raw + bvals):
                    sol = [Opaque('arith')] * n
                else:
                    M = [[X.lift(raw[i + n * j]) for j in range(n)] for i in range(n)]
                    sol = cramer(M, [X.lift(v_) for v_ in bvals], n)
            for i in range(n): b.set(i, sol[i])
            set_info(8)
            return None
        return NotImplemented

    def construct(itp, fcls, args, kwargs, e, fr):
        cname = fcls[2].name
        if cname == 'RadialSolverSolution':
            nslices, sf, nyt = args[0], args[1], args[2]
            # the real constructor NaN-fills both buffers (C06 R06.3 checks that it does)
            full = Arr('full_solution', default=lambda k: Opaque('nan')); full.extent = nslices * MAXY * nyt
            love = Arr('complex_love', default=lambda k: Opaque('nan')); love.extent = 3 * nyt
            o = Obj(cls=fcls, name='solution', attrs={'full_solution_ptr': full, 'complex_love_ptr': love, 'success': False, 'message': '', 'num_slices': nslices, 'num_ytypes': nyt,
                                                     'ytypes': sf, 'error_code': 0})
            state['solution_obj'] = o
            return o
        raise AnalysisError(f'{fr.mod.where(e)}: construction of {cname} inside the solver is not modelled')

    def branch_hook(itp, st, v, fr):
        if nan_inputs and isinstance(v, Opaque) and 'isnan' in v.name:
            return True
        return False if isinstance(v, Opaque) else None        # isnan / NULL tests on finite, allocated data

    def glob_hook(itp, mod, nm):
        if nm in ('G', 'G_'):
            return X.atom('Gconst', 'pos')
        if nm == 'cmplx_NAN':
            return Opaque('nan')
        return None
    it = Interp(repo, hooks={'call': call_hook, 'construct': construct, 'branch': branch_hook, 'global': glob_hook}, max_depth=14)
    it.max_unroll = max(getattr(it, 'max_unroll', 4096), 8192)
    kw = {'total_slices': total, 'radius_array_ptr': arrs['radius'], 'density_array_ptr': arrs['density'], 'gravity_array_ptr': arrs['gravity'], 'bulk_modulus_array_ptr': arrs['bulk'],
          'complex_shear_modulus_array_ptr': arrs['shear'], 'frequency': r.sym['w'], 'planet_bulk_density': r.sym['rho_bulk'], 'num_layers': nl, 'layer_types_ptr': ltypes,
          'is_static_by_layer_ptr': lstat, 'is_incompressible_by_layer_ptr': linc, 'upper_radius_by_layer_ptr': lup, 'degree_l': r.sym['l'], 'solve_for': solve_for,
          'nondimensionalize': nondimensionalize, 'verbose': False, 'raise_on_fail': False, 'use_kamata': False, 'scale_rtols_by_layer_type': False}
    if extra_kwargs: kw.update(extra_kwargs)
    params = {a.arg for a in f.args.args}
    missing = [k for k in ('total_slices', 'radius_array_ptr', 'gravity_array_ptr', 'degree_l', 'solve_for', 'nondimensionalize', 'planet_bulk_density', 'num_layers', 'layer_types_ptr') if k not in params]
    if missing:
        raise AnalysisError(f'cf_radial_solver: parameters {missing} vanished')
    kw = {k: v for k, v in kw.items() if k in params}
    I.OOB_LOG.clear()
    r.raised = None
    try:
        r.ret = it.call(ms, f, [], kw)
    except RaiseSignal as ex:
        r.raised = ex; r.ret = None
    r.oob = sorted({(name, ext, k, kind_, getattr(node, 'lineno', None) or 0) for name, ext, k, kind_, node in I.OOB_LOG}, key=lambda t_: tuple(str(x) for x in t_))
    so = state['solution_obj']
    r.solution_obj = so
    r.iface_calls = state.get('iface_calls', []); r.redim_calls = state.get('redim_calls', []); r.build_calls = state.get('build_calls', []); r.start_calls = state.get('start_calls', []); r.surface_calls = state.get('surface_calls', [])
    r.final_arrays = {nm: [arrs[nm].store.get(i) for i in range(total)] for nm in arrs}
    return r
