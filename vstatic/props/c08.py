"""C08 — eccentricity tables equal squared Hansen coefficients to their stated order."""
from __future__ import annotations
import ast, re
from fractions import Fraction as F
from ..core import expr as X
from ..core.interp import Interp, FuncRef
from ..core.series import to_series
from ..core.report import AnalysisError
from ..frontend.pyfront import Repo
from ..oracles import hansen as H

LEVEL = 'other'
TECHNIQUE = 'table extraction by abstract interpretation of each table function into rational functions of e; exact power-series comparison with an independent exact Hansen-coefficient oracle; registries resolved and compared entry-by-entry'
LEVEL_TEXT = ('Every coefficient of every tabulated entry (all l, N, p, q present or absent) is compared, as an exact rational, with the '
              'series of G_lpq(e)^2 computed by our own exact oracle (thorough: two independent derivations of the oracle must agree). '
              'The space (tables x modes x orders) is finite and enumerated completely.')
LEVEL_NOTE = ('Trusted: ast front-end, the interpreter, the oracle derivation (contour integral in eccentric anomaly; cross-checked against Kaula 1966 '
              'values on every run and against a second derivation in the thorough tier). Literal coefficients are typed with ~15 significant '
              'digits: a coefficient is accepted when it equals the exact value to 5e-14 relative or after rounding to 15 significant digits. '
              'Non-negativity of truncated polynomials inside a validity range is not decided.')
EXPLANATION = ('R08.1 each entry: coefficients through e^N equal the oracle, none above N (polynomial entries); closed-form entries equal the oracle '
               'through e^26. R08.2 every omitted (p,q) has a zero oracle series through e^N. R08.3 lookup helpers / registries return exactly '
               'the table of the requested (N, l).')
EXPLANATION += ' The registries are read with every top-level statement that binds or mutates them executed, and a who-may-write scan over all modules shows nothing else stores into them.'

NSER = H.NSER
LS = range(2, 8)


def sig15(x):
    return float('%.15g' % x)


def coef_ok(g, r):
    if r == 0:
        return g == 0
    if g == r:
        return True
    fg, fr = float(g), float(r)
    return abs(fg - fr) <= 5e-14 * abs(fr) or sig15(fr) == fg


EXPLANATION += ' R08.4 sampled registry helpers called twice in one state (the same array updated in place / a fresh array) return the tables of the eccentricity of that call; registry entries may be functions or callable wrappers (judged by what they return).'

TECHNIQUE += '; two successive calls of registry entries in one interpreter state with arrays as mutable cells (callable objects and closures interpreted), node identity against a fresh call'

def run(chk):
    repo = Repo(chk.repo)
    it = Interp(repo)
    e = X.atom('e', 'pos')
    if not H.literature_selfcheck():
        raise AnalysisError('Hansen oracle fails its literature self-check')
    oracle = {}

    def G2(l, p, q):
        k = (l, p, q)
        if k not in oracle:
            oracle[k] = H.G2(l, p, q, NSER, 'A')
        return oracle[k]
    if chk.tier == 'thorough':
        ta = H.compute_table('A'); tb = H.compute_table('B')
        bad = [k for k in ta if ta[k] != tb[k]]
        chk.ob('R08.0', f'oracle cross-validation: {len(ta)} series, two derivations', not bad, f'derivations disagree at {bad[:5]}', 'vstatic/oracles/hansen.py', method='exact')
        for k, v in ta.items():
            oracle[tuple(int(x) for x in k.split(','))] = [F(c) for c in v]

    reference = {}     # (l, N) -> dict p -> q -> Node  (as interpreted from orderl{l}.eccentricity_funcs_trunc{N})
    n_entries = 0
    for l in LS:
        m = repo.by_path(f'TidalPy/tides/eccentricity_funcs/orderl{l}.py')
        funcs = [(n, f) for n, f in m.defs.items() if isinstance(f, ast.FunctionDef) and re.fullmatch(r'eccentricity_funcs_trunc\d+', n)]
        if len(funcs) < 10:
            raise AnalysisError(f'{m.rel()}: only {len(funcs)} truncation functions found')
        for name, f in funcs:
            N = int(name.replace('eccentricity_funcs_trunc', ''))
            table = it.call(m, f, [e])
            if not isinstance(table, dict):
                raise AnalysisError(f'{m.where(f)}: {name} does not return a dict literal')
            reference[(l, N)] = (table, m, f)
            chk.note_analysed('functions', f'orderl{l}.{name}')
            n_entries += check_table(chk, table, l, N, G2, m.where(f), f'orderl{l}.{name}')
    chk.floor('R08.1', 3900)
    chk.floor('R08.2', 1000)

    # R08.3 lookup wiring
    # (a) eccentricity_truncations registry
    mi = repo.by_path('TidalPy/tides/eccentricity_funcs/__init__.py')
    reg = it.global_name(mi, 'eccentricity_truncations')
    for N, byl in sorted(reg.items()):
        for l, fr in sorted(byl.items()):
            inst = f'eccentricity_truncations[{N}][{l}]'
            ok, why = same_table(it, fr, e, reference.get((l, N)))
            chk.ob('R08.3', inst, ok, why, mi.where(mi.defs['eccentricity_truncations']), key=f'R08.3|{inst}', method='node identity')
    # (b) eccentricity_functions_lookup[N][L] -> {l: table} for l = 2..L
    mh = repo.by_path('TidalPy/tides/modes/mode_calc_helper/__init__.py')
    look = it.global_name(mh, 'eccentricity_functions_lookup')
    for N, byL in sorted(look.items()):
        for L, fr in sorted(byL.items()):
            inst = f'eccentricity_functions_lookup[{N}][{L}]'
            where = mh.where(mh.defs['eccentricity_functions_lookup'])
            from ..core.interp import Obj as _Obj
            if not isinstance(fr, (FuncRef, _Obj)):
                chk.ob('R08.3', inst, False, 'registry entry is not a callable of the repository', where); continue
            # (a wrapper object around the helper is judged by what it returns, like the helper itself)
            res = it.call(fr.mod, fr.node, [e]) if isinstance(fr, FuncRef) else Interp(repo).apply(fr, [e], {}, None, None)
            if isinstance(fr, FuncRef): where = fr.mod.where(fr.node)
            if not isinstance(res, dict) or sorted(res) != list(range(2, L + 1)):
                chk.ob('R08.3', inst, False, f'returns degrees {sorted(res) if isinstance(res, dict) else type(res).__name__}, expected 2..{L}', where)
                continue
            why = ''
            for l in range(2, L + 1):
                ok, w = table_identical(res[l], reference.get((l, N)))
                if not ok:
                    why += f'l={l}: {w}; '
            chk.ob('R08.3', inst, not why, why, where, key=f'R08.3|{inst}', method='node identity')
            chk.note_analysed('functions', f'{fr.mod.name.split(".")[-1]}.{fr.node.name}' if isinstance(fr, FuncRef) else f'{inst} (wrapper)')
    # R08.4 a helper returns the tables of the eccentricity it is given NOW: each sampled registry entry is called twice in one interpreter state, the second time with the
    # same array object whose content was updated in place in between (the state array of an evolution loop), and with a fresh array; each result must be, entry for entry,
    # what a fresh interpreter returns for that eccentricity.
    from ..core.interp import ArrBox
    e2 = X.atom('e_second', 'pos')
    sample = [(N, L) for N in sorted(look) for L in sorted(look[N])]
    if chk.tier == 'quick':
        sample = [nl for nl in sample if nl[0] in (min(look), 10, max(look))][:9]
    for N, L in sample:
        fr = look[N][L]
        inst = f'eccentricity_functions_lookup[{N}][{L}]'
        where = mh.where(mh.defs['eccentricity_functions_lookup'])
        for how in ('the same array updated in place', 'a fresh array'):
            ith = Interp(repo); ith.array_mode = True
            cell = ArrBox(e)
            try:
                r1 = ith.apply(fr, [cell], {}, None, None)
                if how.startswith('the same'):
                    cell.v = e2; a2 = cell
                else:
                    a2 = ArrBox(e2)
                r2 = ith.apply(fr, [a2], {}, None, None)
                itf = Interp(repo); itf.array_mode = True
                want = itf.apply(fr, [ArrBox(e2)], {}, None, None)
            except AnalysisError as ex:
                raise AnalysisError(f'{inst} called twice: {ex}')
            bad = ''
            if not isinstance(r2, dict) or not isinstance(want, dict) or sorted(r2) != sorted(want):
                bad = 'the second call does not return the degrees a fresh call returns'
            else:
                for l_ in sorted(want):
                    for p_ in want[l_]:
                        for q_ in want[l_][p_]:
                            a_ = getattr(r2[l_].get(p_, {}).get(q_), 'v', r2[l_].get(p_, {}).get(q_)); b_ = getattr(want[l_][p_][q_], 'v', want[l_][p_][q_])
                            if a_ is not b_ and not (isinstance(a_, X.Node) and isinstance(b_, X.Node) and a_.uid == b_.uid):
                                bad = bad or f'second call, l = {l_}, (p, q) = ({p_}, {q_}): not the table entry at the eccentricity of that call'
            chk.ob('R08.4', f'{inst} called twice in one state, the second time with {how}: the second call returns the tables at the eccentricity it was given', not bad, bad, where,
                   key=f'R08.4|{inst}|{how}', method='two successive calls in one interpreter state, arrays as mutable cells; node identity against a fresh call')
    chk.floor('R08.4', 6)
    from .common import registry_writers
    registry_writers(chk, 'R08.3', repo, 'TidalPy/tides/modes/mode_calc_helper/__init__.py', ['eccentricity_functions_lookup'])
    registry_writers(chk, 'R08.3', repo, 'TidalPy/tides/eccentricity_funcs/__init__.py', ['eccentricity_truncations'])
    # also every helper defined in the helper modules (even if not registered)
    for l in LS:
        mh_l = repo.by_path(f'TidalPy/tides/modes/mode_calc_helper/eccen_calc_orderl{l}.py')
        for name, f in mh_l.defs.items():
            mm = re.fullmatch(r'eccentricity_truncation_(\d+)_maxl_(\d+)', name) if isinstance(f, ast.FunctionDef) else None
            if not mm: continue
            N, L = int(mm.group(1)), int(mm.group(2))
            res = it.call(mh_l, f, [e])
            why = ''
            if not isinstance(res, dict) or sorted(res) != list(range(2, L + 1)):
                why = f'returns degrees {sorted(res) if isinstance(res, dict) else "?"}, expected 2..{L}'
            else:
                for ll in range(2, L + 1):
                    ok, w = table_identical(res[ll], reference.get((ll, N)))
                    if not ok: why += f'l={ll}: {w}; '
            chk.ob('R08.3', f'helper {name}', not why, why, mh_l.where(f), method='node identity')
    chk.floor('R08.3', 150)
    chk.assume('literal coefficients carry 15 significant digits; equality of a literal with the exact rational is to 5e-14 relative or 15-digit rounding')
    chk.trusted_base.append('vstatic/oracles/hansen.py (own derivation; literature self-check each run)')


def check_table(chk, table, l, N, G2, where, fname):
    """R08.1 / R08.2 for one table; returns number of entries"""
    n = 0
    for p in table:
        if not isinstance(p, int) or not (0 <= p <= l):
            chk.ob('R08.1', f'{fname} key p={p!r}', False, 'p outside 0..l', where)
    qmax = N // 2 + 2
    for p in range(0, l + 1):
        row = table.get(p, {})
        for q in row:
            if not isinstance(q, int) or abs(q) > H.QRANGE:
                chk.ob('R08.1', f'{fname}[{p}][{q}]', False, 'q outside the oracle range', where)
        for q in range(-qmax, qmax + 1):
            orc = G2(l, p, q)
            trunc = orc[:N + 1]
            nz = any(c != 0 for c in trunc)
            inst = f'{fname}[{p}][{q}]'
            if q not in row:
                lead = next((f'e^{k}: {float(c):.6g}' for k, c in enumerate(trunc) if c != 0), '')
                chk.ob('R08.2', inst + ' (omitted)', not nz, f'mode omitted but oracle series is non-zero through e^{N}: {lead}', where, key=f'R08.2|{inst}', method='exact series')
                continue
            n += 1
            try:
                got = to_series(row[q], 'e', NSER)
            except AnalysisError as ex:
                chk.ob('R08.1', inst, False, f'entry is not a rational function of e: {ex}', where); continue
            closed = any(c != 0 for c in got[N + 1:])
            ref = orc if closed else trunc + [F(0)] * (NSER - N)
            bad = [(k, got[k], ref[k]) for k in range(NSER + 1) if not coef_ok(got[k], ref[k])]
            detail = ''
            if bad:
                k, g, r = bad[0]
                detail = (f'coefficient of e^{k}: table {float(g)!r} vs G_{l}{p}{q}^2 series {float(r)!r}'
                          + (' (closed-form entry compared through e^26)' if closed else f' (truncation N={N})'))
            chk.ob('R08.1', inst, not bad, detail, where, key=f'R08.1|{inst}', method='exact series')
        for q in row:
            if isinstance(q, int) and abs(q) > qmax:
                # present beyond the scan range: must still match (oracle zero through N => entry must be zero)
                orc = G2(l, p, q) if abs(q) <= H.QRANGE else None
                got = to_series(row[q], 'e', NSER)
                ok = orc is not None and all(coef_ok(got[k], orc[k] if k <= N else F(0)) for k in range(NSER + 1))
                chk.ob('R08.1', f'{fname}[{p}][{q}]', ok, 'entry beyond |q| <= N/2+2 does not match the oracle', where, method='exact series')
    return n


def table_identical(tab, ref):
    if ref is None:
        return False, 'no reference table of that (l, N) exists'
    rt = ref[0]
    if not isinstance(tab, dict):
        return False, 'not a table'
    if sorted(tab) != sorted(rt):
        return False, f'p keys {sorted(tab)} vs {sorted(rt)}'
    for p in rt:
        if sorted(tab[p]) != sorted(rt[p]):
            return False, f'q keys differ at p={p}'
        for q in rt[p]:
            if tab[p][q] is not rt[p][q]:
                return False, f'entry [{p}][{q}] is not the entry of the reference table'
    return True, ''


def same_table(it, fr, e, ref):
    if not isinstance(fr, FuncRef):
        return False, 'registry entry is not a repo function'
    if ref is None:
        return False, f'no table function for that (l, N); registry points at {fr.mod.name.split(".")[-1]}.{fr.node.name}'
    if fr.node is ref[2]:
        return True, ''
    tab = it.call(fr.mod, fr.node, [e])
    ok, why = table_identical(tab, ref)
    if not ok:
        why = f'registry points at {fr.mod.name.split(".")[-1]}.{fr.node.name}: {why}'
    return ok, why
