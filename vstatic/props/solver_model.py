"""Shared extraction helpers for the radial-solver properties (C01-C04, C06)."""
from __future__ import annotations
import ast
from ..core import expr as X
from ..core.interp import Interp, Obj, Arr
from ..core.report import AnalysisError
from ..oracles import ts72
from .common import need_class, methods

CLASSES = {('solid', False, False): 'SolidDynamicCompressible', ('solid', False, True): 'SolidDynamicIncompressible',
           ('solid', True, False): 'SolidStaticCompressible', ('solid', True, True): 'SolidStaticIncompressible',
           ('liquid', False, False): 'LiquidDynamicCompressible', ('liquid', False, True): 'LiquidDynamicIncompressible',
           ('liquid', True, False): 'LiquidStaticCompressible', ('liquid', True, True): 'LiquidStaticIncompressible'}


def params(l=None):
    P = {'r': X.atom('r', 'pos'), 'rho': X.atom('rho', 'pos'), 'g': X.atom('g', 'pos'), 'mu': X.atom('mu', 'complex'), 'K': X.atom('K', 'pos'),
         'w': X.atom('w', 'pos'), 'l': X.atom('l', 'pos') if l is None else X.const(l), 'fpG': X.atom('fourpiG', 'pos')}
    return P


def extract_rhs(repo, mod, cls_name, P, nys):
    """interpret <cls>.diffeq symbolically; returns (dy list of nys complex nodes, y list of complex nodes)"""
    cls = need_class(mod, cls_name)
    ms = methods(cls)
    if 'diffeq' not in ms:
        raise AnalysisError(f'{cls_name}.diffeq vanished')
    yre = [X.atom(f'yre{k}') for k in range(nys)]; yim = [X.atom(f'yim{k}') for k in range(nys)]
    y_ptr = Arr('y_ptr', default=lambda k: (yre[k // 2] if k % 2 == 0 else yim[k // 2]))
    dy_ptr = Arr('dy_ptr')
    l = P['l']
    so = Obj(cls=('class', mod, cls), name=cls_name, attrs={
        't_now': P['r'], 'density': P['rho'], 'gravity': P['g'], 'shear_modulus': P['mu'], 'bulk_modulus': P['K'], 'frequency_to_use': P['w'],
        'grav_coeff': P['fpG'], 'lp1': l + 1, 'lm1': l - 1, 'llp1': l * (l + 1), 'degree_l': l, 'y_ptr': y_ptr, 'dy_ptr': dy_ptr,
        'update_interp': (lambda *a, **k: None)})
    it = Interp(repo)
    it.call(mod, ms['diffeq'], [], {}, self_obj=so)
    written = sorted(dy_ptr.store)
    if written != list(range(2 * nys)):
        raise AnalysisError(f'{cls_name}.diffeq writes dy slots {written}, expected 0..{2 * nys - 1}')
    dy = []
    for k in range(nys):
        a, b = dy_ptr.store[2 * k], dy_ptr.store[2 * k + 1]
        if a.op == 'fn' and a.val == 'real' and b.op == 'fn' and b.val == 'imag' and a.args[0] is b.args[0]:
            dy.append(a.args[0])          # (z.real, z.imag) of one complex value z stored in the (even, odd) slot pair
        else:
            dy.append(a + X.I * b)
    y = [yre[k] + X.I * yim[k] for k in range(nys)]
    return dy, y, ms['diffeq']


def matrix_from(dy, nys):
    """A_ij = dy_i with y = e_j (valid once linearity is shown)"""
    A = [[None] * nys for _ in range(nys)]
    for j in range(nys):
        sub = {}
        for k in range(nys):
            sub[f'yre{k}'] = X.ONE if k == j else X.ZERO
            sub[f'yim{k}'] = X.ZERO
        for i in range(nys):
            A[i][j] = X.subst(dy[i], sub)
    return A


def symplectic_form(names, P, l=None):
    """Omega(r) of the bilinear concomitant  W(y, z) = y^T Omega z  of the viscoelastic-gravitational system in the layout `names`:
    r^2 [ y1 z2 - y2 z1 + l(l+1) (y3 z4 - y4 z3) + (y5 z6 - y6 z5) / (4 pi G) ];  static liquid layers: r^2 (y5 z7 - y7 z5) / (4 pi G)."""
    n = len(names); r = P['r']; lv = P['l'] if l is None else l
    L = lv * (lv + 1)
    Om = [[X.ZERO] * n for _ in range(n)]

    def setp(a, b, v):
        if a in names and b in names:
            i, j = names.index(a), names.index(b); Om[i][j] = v; Om[j][i] = -v
    setp('y1', 'y2', r * r); setp('y3', 'y4', r * r * L); setp('y5', 'y6', r * r / P['fpG']); setp('y5', 'y7', r * r / P['fpG'])
    return Om


def symplectic_defect(A, Om, n, d, names):
    """entries (i, j) of  Omega' + A^T Omega + Omega A  that do not vanish identically"""
    bad = []
    for i in range(n):
        for j in range(n):
            acc = X.diff(Om[i][j], 'r')
            for k in range(n):
                acc = acc + A[k][i] * Om[k][j] + Om[i][k] * A[k][j]
            if not d.is_zero(acc):
                bad.append(f'({names[i]},{names[j]})')
    return bad


# ------------------------------------------------------------------------------------------------ prefix interpretation of cf_radial_solver
class _StopPrefix(Exception):
    pass


def solver_bc_table(repo, solve_for, nondimensionalize=False, n_slices=8, n_layers=2):
    """Interpret cf_radial_solver from its first statement, on symbolic input arrays, until the boundary-condition array (the one it later hands to
    cf_apply_surface_bc) holds a value for every requested solution type; helpers it calls on the way are inlined.  Nothing depends on the names of the solver's
    locals or on whether the table is filled inline or in a helper.  Returns (values list of length 3*len(types), frame, symbols)."""
    from ..core.interp import Frame, Opaque as Opq
    ms = repo.by_path('TidalPy/RadialSolver/solver.pyx')
    f = ms.defs.get('cf_radial_solver')
    if not isinstance(f, ast.FunctionDef):
        raise AnalysisError('cf_radial_solver vanished')
    calls = [n for n in ast.walk(f) if isinstance(n, ast.Call) and isinstance(n.func, ast.Name) and n.func.id == 'cf_apply_surface_bc']
    if not calls or len(calls[0].args) < 3 or not isinstance(calls[0].args[2], ast.Name):
        raise AnalysisError('cf_radial_solver: call of cf_apply_surface_bc (with the boundary-condition array as third argument) not found')
    bcname = calls[0].args[2].id
    ntypes = 1 if solve_for is None else len(solve_for)
    sym = {'l': X.atom('l', 'pos'), 'R': X.atom('R_planet', 'pos'), 'rho_bulk': X.atom('rho_bulk', 'pos'), 'w': X.atom('frequency', 'pos')}
    arrs = {}
    for nm, kind in (('radius', 'pos'), ('density', 'pos'), ('gravity', 'pos'), ('bulk', 'pos'), ('shear', 'complex')):
        a = Arr(nm + '_array')
        for i in range(n_slices):
            a.store[i] = sym['R'] if (nm == 'radius' and i == n_slices - 1) else X.atom(f'{nm}{i}', kind)
        arrs[nm] = a
    top = set(id(s) for s in f.body)
    state = {'frame': None}

    def done(fr):
        b = fr.vars.get(bcname)
        if not isinstance(b, Arr):
            return False
        try:
            return all(isinstance(b.store.get(b._key(k)), X.Node) for k in range(3 * ntypes))
        except Exception:
            return False

    def stmt_hook(itp, st, fr):
        if fr.fname == 'cf_radial_solver' and id(st) in top:
            state['frame'] = fr
            if done(fr):
                raise _StopPrefix()
        return False

    def branch_hook(itp, st, v, fr):
        return False if isinstance(v, Opq) else None          # isnan(...) of finite inputs

    def glob_hook(itp, mod, nm):
        if nm in ('G', 'G_'):
            return X.atom('Gconst', 'pos')
        return None
    it = Interp(repo, hooks={'stmt': stmt_hook, 'branch': branch_hook, 'global': glob_hook}, max_depth=12)
    ints = lambda nm: Arr(nm, default=lambda k: 0)
    kw = {'total_slices': n_slices, 'radius_array_ptr': arrs['radius'], 'density_array_ptr': arrs['density'], 'gravity_array_ptr': arrs['gravity'], 'bulk_modulus_array_ptr': arrs['bulk'],
          'complex_shear_modulus_array_ptr': arrs['shear'], 'frequency': sym['w'], 'planet_bulk_density': sym['rho_bulk'], 'num_layers': n_layers, 'layer_types_ptr': ints('layer_types'),
          'is_static_by_layer_ptr': ints('is_static'), 'is_incompressible_by_layer_ptr': ints('is_incompressible'), 'upper_radius_by_layer_ptr': Arr('upper_radius', default=lambda k: X.atom(f'upper_r{k}', 'pos')),
          'degree_l': sym['l'], 'solve_for': solve_for, 'nondimensionalize': nondimensionalize}
    params = {a.arg for a in f.args.args}
    missing = [k for k in ('total_slices', 'radius_array_ptr', 'gravity_array_ptr', 'degree_l', 'solve_for', 'nondimensionalize', 'planet_bulk_density') if k not in params]
    if missing:
        raise AnalysisError(f'cf_radial_solver: parameters {missing} vanished')
    kw = {k: v for k, v in kw.items() if k in params}
    try:
        it.call(ms, f, [], kw)
    except _StopPrefix:
        pass
    else:
        raise AnalysisError('cf_radial_solver ran to its end without completing the boundary-condition array')
    fr = state['frame']
    b = fr.vars[bcname]
    return [b.store[b._key(k)] for k in range(3 * ntypes)], fr, sym
