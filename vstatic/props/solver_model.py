"""Shared extraction helpers for the radial-solver properties (C01-C04, C06)."""
from __future__ import annotations
import ast
from ..core import expr as X
from ..core.interp import Interp, Obj, Arr
from ..core.interp import FuncRef as I_FuncRef
from ..core.report import AnalysisError
from ..oracles import ts72
from .common import need_class, methods

CLASSES = {('solid', False, False): 'SolidDynamicCompressible', ('solid', False, True): 'SolidDynamicIncompressible',
           ('solid', True, False): 'SolidStaticCompressible', ('solid', True, True): 'SolidStaticIncompressible',
           ('liquid', False, False): 'LiquidDynamicCompressible', ('liquid', False, True): 'LiquidDynamicIncompressible',
           ('liquid', True, False): 'LiquidStaticCompressible', ('liquid', True, True): 'LiquidStaticIncompressible'}


def params(l=None):
    P = {'r': X.atom('r', 'pos'), 'rho': X.atom('rho', 'pos'), 'g': X.atom('g', 'pos'), 'mu': X.atom('mu', 'complex'), 'K': X.atom('K', 'pos'),
         'w': X.atom('w', 'pos'), 'l': X.atom('l', 'pos') if l is None else X.const(l), 'fpG': X.atom('fourpiG', 'pos')}
    return P


def extract_rhs(repo, mod, cls_name, P, nys):
    """interpret <cls>.diffeq symbolically; returns (dy list of nys complex nodes, y list of complex nodes)"""
    cls = need_class(mod, cls_name)
    ms = methods(cls)
    if 'diffeq' not in ms:
        raise AnalysisError(f'{cls_name}.diffeq vanished')
    yre = [X.atom(f'yre{k}') for k in range(nys)]; yim = [X.atom(f'yim{k}') for k in range(nys)]
    y_ptr = Arr('y_ptr', default=lambda k: (yre[k // 2] if k % 2 == 0 else yim[k // 2]))
    dy_ptr = Arr('dy_ptr')
    l = P['l']
    so = Obj(cls=('class', mod, cls), name=cls_name, attrs={
        't_now': P['r'], 'density': P['rho'], 'gravity': P['g'], 'shear_modulus': P['mu'], 'bulk_modulus': P['K'], 'frequency_to_use': P['w'],
        'grav_coeff': P['fpG'], 'lp1': l + 1, 'lm1': l - 1, 'llp1': l * (l + 1), 'degree_l': l, 'y_ptr': y_ptr, 'dy_ptr': dy_ptr,
        'update_interp': (lambda *a, **k: None)})
    it = Interp(repo)
    it.call(mod, ms['diffeq'], [], {}, self_obj=so)
    written = sorted(dy_ptr.store)
    if written != list(range(2 * nys)):
        raise AnalysisError(f'{cls_name}.diffeq writes dy slots {written}, expected 0..{2 * nys - 1}')
    dy = []
    for k in range(nys):
        a, b = dy_ptr.store[2 * k], dy_ptr.store[2 * k + 1]
        if a.op == 'fn' and a.val == 'real' and b.op == 'fn' and b.val == 'imag' and a.args[0] is b.args[0]:
            dy.append(a.args[0])          # (z.real, z.imag) of one complex value z stored in the (even, odd) slot pair
        else:
            dy.append(a + X.I * b)
    y = [yre[k] + X.I * yim[k] for k in range(nys)]
    return dy, y, ms['diffeq']


def matrix_from(dy, nys):
    """A_ij = dy_i with y = e_j (valid once linearity is shown)"""
    A = [[None] * nys for _ in range(nys)]
    for j in range(nys):
        sub = {}
        for k in range(nys):
            sub[f'yre{k}'] = X.ONE if k == j else X.ZERO
            sub[f'yim{k}'] = X.ZERO
        for i in range(nys):
            A[i][j] = X.subst(dy[i], sub)
    return A


def symplectic_form(names, P, l=None):
    """Omega(r) of the bilinear concomitant  W(y, z) = y^T Omega z  of the viscoelastic-gravitational system in the layout `names`:
    r^2 [ y1 z2 - y2 z1 + l(l+1) (y3 z4 - y4 z3) + (y5 z6 - y6 z5) / (4 pi G) ];  static liquid layers: r^2 (y5 z7 - y7 z5) / (4 pi G)."""
    n = len(names); r = P['r']; lv = P['l'] if l is None else l
    L = lv * (lv + 1)
    Om = [[X.ZERO] * n for _ in range(n)]

    def setp(a, b, v):
        if a in names and b in names:
            i, j = names.index(a), names.index(b); Om[i][j] = v; Om[j][i] = -v
    setp('y1', 'y2', r * r); setp('y3', 'y4', r * r * L); setp('y5', 'y6', r * r / P['fpG']); setp('y5', 'y7', r * r / P['fpG'])
    return Om


def symplectic_defect(A, Om, n, d, names):
    """entries (i, j) of  Omega' + A^T Omega + Omega A  that do not vanish identically"""
    bad = []
    for i in range(n):
        for j in range(n):
            acc = X.diff(Om[i][j], 'r')
            for k in range(n):
                acc = acc + A[k][i] * Om[k][j] + Om[i][k] * A[k][j]
            if not d.is_zero(acc):
                bad.append(f'({names[i]},{names[j]})')
    return bad


# ------------------------------------------------------------------------------------------------ prefix interpretation of cf_radial_solver
class _StopPrefix(Exception):
    pass


def solver_bc_table(repo, solve_for, nondimensionalize=False, n_slices=8, n_layers=2):
    """Interpret cf_radial_solver from its first statement, on symbolic input arrays, until the boundary-condition array (the one it later hands to
    cf_apply_surface_bc) holds a value for every requested solution type; helpers it calls on the way are inlined.  Nothing depends on the names of the solver's
    locals or on whether the table is filled inline or in a helper.  Returns (values list of length 3*len(types), frame, symbols)."""
    from ..core.interp import Frame, Opaque as Opq
    ms = repo.by_path('TidalPy/RadialSolver/solver.pyx')
    f = ms.defs.get('cf_radial_solver')
    if not isinstance(f, ast.FunctionDef):
        raise AnalysisError('cf_radial_solver vanished')
    calls = [n for n in ast.walk(f) if isinstance(n, ast.Call) and isinstance(n.func, ast.Name) and n.func.id == 'cf_apply_surface_bc']
    if not calls or len(calls[0].args) < 3 or not isinstance(calls[0].args[2], ast.Name):
        raise AnalysisError('cf_radial_solver: call of cf_apply_surface_bc (with the boundary-condition array as third argument) not found')
    bcname = calls[0].args[2].id
    ntypes = 1 if solve_for is None else len(solve_for)
    sym = {'l': X.atom('l', 'pos'), 'R': X.atom('R_planet', 'pos'), 'rho_bulk': X.atom('rho_bulk', 'pos'), 'w': X.atom('frequency', 'pos')}
    arrs = {}
    for nm, kind in (('radius', 'pos'), ('density', 'pos'), ('gravity', 'pos'), ('bulk', 'pos'), ('shear', 'complex')):
        a = Arr(nm + '_array')
        for i in range(n_slices):
            a.store[i] = sym['R'] if (nm == 'radius' and i == n_slices - 1) else X.atom(f'{nm}{i}', kind)
        arrs[nm] = a
    top = set(id(s) for s in f.body)
    state = {'frame': None}

    def done(fr):
        b = fr.vars.get(bcname)
        if not isinstance(b, Arr):
            return False
        try:
            return all(isinstance(b.store.get(b._key(k)), X.Node) for k in range(3 * ntypes))
        except Exception:
            return False

    def stmt_hook(itp, st, fr):
        if fr.fname == 'cf_radial_solver' and id(st) in top:
            state['frame'] = fr
            if done(fr):
                raise _StopPrefix()
        return False

    def branch_hook(itp, st, v, fr):
        return False if isinstance(v, Opq) else None          # isnan(...) of finite inputs

    def glob_hook(itp, mod, nm):
        if nm in ('G', 'G_'):
            return X.atom('Gconst', 'pos')
        return None
    it = Interp(repo, hooks={'stmt': stmt_hook, 'branch': branch_hook, 'global': glob_hook}, max_depth=12)
    ints = lambda nm: Arr(nm, default=lambda k: 0)
    kw = {'total_slices': n_slices, 'radius_array_ptr': arrs['radius'], 'density_array_ptr': arrs['density'], 'gravity_array_ptr': arrs['gravity'], 'bulk_modulus_array_ptr': arrs['bulk'],
          'complex_shear_modulus_array_ptr': arrs['shear'], 'frequency': sym['w'], 'planet_bulk_density': sym['rho_bulk'], 'num_layers': n_layers, 'layer_types_ptr': ints('layer_types'),
          'is_static_by_layer_ptr': ints('is_static'), 'is_incompressible_by_layer_ptr': ints('is_incompressible'), 'upper_radius_by_layer_ptr': Arr('upper_radius', default=lambda k: X.atom(f'upper_r{k}', 'pos')),
          'degree_l': sym['l'], 'solve_for': solve_for, 'nondimensionalize': nondimensionalize}
    params = {a.arg for a in f.args.args}
    missing = [k for k in ('total_slices', 'radius_array_ptr', 'gravity_array_ptr', 'degree_l', 'solve_for', 'nondimensionalize', 'planet_bulk_density') if k not in params]
    if missing:
        raise AnalysisError(f'cf_radial_solver: parameters {missing} vanished')
    kw = {k: v for k, v in kw.items() if k in params}
    try:
        it.call(ms, f, [], kw)
    except _StopPrefix:
        pass
    else:
        raise AnalysisError('cf_radial_solver ran to its end without completing the boundary-condition array')
    fr = state['frame']
    b = fr.vars[bcname]
    return [b.store[b._key(k)] for k in range(3 * ntypes)], fr, sym


class WiringProblem(Exception):
    def __init__(self, msg, cname, where):
        super().__init__(msg); self.cname = cname; self.where = where


# ------------------------------------------------------------------------------------------------ material wiring: cf_build_solver -> __init__ / install_pointers -> update_interp -> diffeq
def wired_rhs(repo, kind, static, incomp, l=None):
    """Build the layer solver object through the repository's own cf_build_solver (class selection, RadialSolverBase.__init__, install_pointers), then interpret its
    diffeq with the real update_interp.  CyRK's interpolation routines are abstracted by their contract: interp(t, x_array, y_array, n) is the value of the function
    tabulated as (x_array, y_array) at t -- a symbol named after *which* arrays were handed in.  Returns (dy, y, P) with P the symbols a correctly wired solver must see:
    density / gravity / bulk / shear interpolated from their own arrays over the radius array at the integrator's current radius, the frequency, degree and G handed in."""
    mo = repo.by_path('TidalPy/RadialSolver/derivatives/odes.pyx')
    fb = mo.defs.get('cf_build_solver')
    if not isinstance(fb, ast.FunctionDef):
        raise AnalysisError('cf_build_solver vanished')
    nys = len(ts72.LAYOUT[(kind, static)])
    names = ('radius', 'density', 'gravity', 'bulk_modulus', 'shear_modulus')
    arrs = {nm: Arr(nm + '_array', default=(lambda k, nm=nm: X.atom(f'{nm}[{k}]', 'complex' if nm == 'shear_modulus' else 'pos'))) for nm in names}
    tnow = X.atom('r', 'pos')
    w = X.atom('w', 'pos'); G = X.atom('G_newton', 'pos'); lv = X.atom('l', 'pos') if l is None else X.const(l)
    piv = X.atom('pi', 'pos')

    def interp_value(args, kwargs):
        t, xa, ya = args[0], args[1], args[2]
        xn = xa.base.name if isinstance(xa, Arr) else '?'
        yn = ya.base.name if isinstance(ya, Arr) else '?'
        off = (xa.offset if isinstance(xa, Arr) else 0, ya.offset if isinstance(ya, Arr) else 0)
        nm = yn.replace('_array', '') if (xn == 'radius_array' and off == (0, 0)) else f'{yn} tabulated over {xn} (offsets {off})'
        kind_ = 'complex' if yn.startswith('shear') else 'pos'
        if not (isinstance(t, X.Node) and t is tnow):
            nm += ' at a radius other than the current one'
        return X.atom(f'interp[{nm}]', kind_)

    def call_hook(itp, f, args, kwargs, e, fr):
        nm = getattr(f, 'name', '') if not isinstance(f, I_FuncRef) else f.node.name
        base = str(nm).split('.')[-1]
        if base in ('interp_ptr', 'interp_complex_ptr'):
            return interp_value(args, kwargs)
        if base == 'interpj_ptr':
            return (interp_value(args, kwargs), 0)
        return NotImplemented

    def glob_hook(itp, mod, nm):
        if nm in ('pi', 'M_PI'): return piv
        if nm == 'EPS_100': return X.const(1) / 10 ** 14
        return None
    it = Interp(repo, hooks={'call': call_hook, 'global': glob_hook, 'construct': None}, max_depth=10)

    def construct(itp, fcls, args, kwargs, e, fr):
        # Python-level construction of one of the solver classes: run the repository's __init__ chain on a fresh object
        cls_node = fcls[2]
        o = Obj(cls=fcls, name=cls_node.name, attrs={'t_now': tnow, 'y_size': 2 * nys, 'rtols_ptr': Arr('rtols_ptr'), 'atols_ptr': Arr('atols_ptr'),
                                                     'change_t_eval_pointer': (lambda *a, **k: None), 'reset_state': (lambda *a, **k: None), '_solve': (lambda *a, **k: None)})
        init = itp.find_method(fcls, '__init__')
        if init is None:
            raise AnalysisError(f'{cls_node.name}: no __init__ reachable in the repository')
        itp.call(init[0], init[1], list(args), dict(kwargs), self_obj=o, owner=init[2])
        return o
    it.hooks['construct'] = construct
    y0 = Arr('y0_ptr', default=lambda k: X.atom(f'y0[{k}]'))
    tol = Arr('tols', default=lambda k: X.const(1) / 1000)
    lt = 0 if kind == 'solid' else 1
    so = it.call(mo, fb, [lt, static, incomp, 5, 2 * nys, arrs['radius'], arrs['density'], arrs['gravity'], arrs['bulk_modulus'], arrs['shear_modulus'], w, lv, G,
                          (X.atom('r_bottom', 'pos'), X.atom('r_top', 'pos')), y0, tol, tol, 1, X.atom('max_step', 'pos'), 1000, 100, 500, True])
    if not isinstance(so, Obj):
        raise AnalysisError('cf_build_solver did not return a solver object')
    cname = so.cls[2].name if so.cls else '?'
    # the integrator calls update_constants() once in reset_state (outside the repository): do it here if the class has it
    uc = it.find_method(so.cls, 'update_constants')
    if uc is not None:
        it.call(uc[0], uc[1], [], {}, self_obj=so, owner=uc[2])
    yre = [X.atom(f'yre{k}') for k in range(nys)]; yim = [X.atom(f'yim{k}') for k in range(nys)]
    so.attrs['y_ptr'] = Arr('y_ptr', default=lambda k: (yre[k // 2] if k % 2 == 0 else yim[k // 2]))
    dyp = Arr('dy_ptr'); so.attrs['dy_ptr'] = dyp
    so.attrs['t_now'] = tnow
    de = it.find_method(so.cls, 'diffeq')
    if de is None:
        raise AnalysisError(f'{cname}.diffeq vanished')
    try:
        it.call(de[0], de[1], [], {}, self_obj=so, owner=de[2])
    except AnalysisError as ex:
        if 'zero' in str(ex):
            # a property the equations divide by still holds the 0 it was initialised with: it is never refreshed from its array
            raise WiringProblem(f'{cname}.diffeq divides by a material property that is still its initial zero (not refreshed by update_interp): {ex}', cname, mo.where(de[1]))
        raise
    if sorted(dyp.store) != list(range(2 * nys)):
        raise AnalysisError(f'{cname}.diffeq (built by cf_build_solver) writes dy slots {sorted(dyp.store)}')
    if any(not isinstance(v_, X.Node) for v_ in dyp.store.values()):
        # with cdivision the division by a property that still holds its initial zero goes through and leaves an infinity / NaN in the derivative
        raise WiringProblem(f'{cname}.diffeq produces an undefined derivative: a material property the equations divide by is still its initial zero (not refreshed by update_interp)', cname, mo.where(de[1]))
    dy = []
    for k in range(nys):
        a, b = dyp.store[2 * k], dyp.store[2 * k + 1]
        if a.op == 'fn' and a.val == 'real' and b.op == 'fn' and b.val == 'imag' and a.args[0] is b.args[0]:
            dy.append(a.args[0])
        else:
            dy.append(a + X.I * b)
    y = [yre[k] + X.I * yim[k] for k in range(nys)]
    P = {'r': tnow, 'rho': X.atom('interp[density]', 'pos'), 'g': X.atom('interp[gravity]', 'pos'), 'mu': X.atom('interp[shear_modulus]', 'complex'), 'K': X.atom('interp[bulk_modulus]', 'pos'),
         'w': w, 'l': lv, 'fpG': 4 * piv * G}
    return dy, y, P, cname, mo.where(de[1])
