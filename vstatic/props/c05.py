"""C05 — local dissipation integrates to the global dissipation: formula-level necessary conditions."""
from __future__ import annotations
import ast
from fractions import Fraction as F
from ..core import expr as X
from ..core.interp import Interp, Arr, concrete
from ..core.report import AnalysisError
from ..frontend.pyfront import Repo

LEVEL = 'other'
TECHNIQUE = 'abstract interpretation of the sensitivity kernels and the radial-heating coefficient; comparison with the published kernel (Tobie et al. 2005 eq. 33) and with the global-rate coefficient by polynomial identity testing; exactness conditions of the finite-difference stencil; the energy theorem in differential form (d/dr of the energy flux along the repository\'s own ODE classes == Im mu * sensitivity_to_shear + Im K * sensitivity_to_bulk) and its surface value, by symbolic differentiation and polynomial identity testing; every data-dependent test inside the kernels is forked and the identities must hold on each arm (only a cut-off on |mu| is read as the liquid test)'
LEVEL_TEXT = ('The energy theorem is decided in differential form (R05.5): for every solution of the equations the solver integrates (compressible solid, static and dynamic; compiled classes and the interpreted kernels) the radial derivative of the energy flux equals Im(mu) H_mu + Im(K) H_K with the repository\'s own kernels, and the surface value of the flux is -(2l+1)R/(4 pi G) Im k; the flux is constant through liquid layers with real bulk modulus and continuous across every interface kind under the conditions C02 decides the code imposes (R05.6); integrating gives the property\'s identity for layered bodies. The sign clause is decided as well (R05.7): along solutions both kernels are non-negative sums of squares, so Im k <= 0 whenever Im(mu) >= 0 and Im(K) >= 0 in every layer. Discretisation error of the quadrature and of the finite-difference dy1/dr is not decided. Also decided: the three formula-level facts without which the shell sum cannot '
              'reproduce the global rate for generic interiors: the kernel is TB05 eq. 33, the radial derivative stencil is exact for quadratics (second-order on non-uniform grids), '
              'and the heating coefficient closes with the (21/2) global rate.')
LEVEL_NOTE = ('Trusted: front-end, interpreter, symbolic differentiation; our transcription of TB05 eq. 33 for R05.1 (R05.5 does not use it). Not decided: convergence of the quadrature with grid refinement.')
EXPLANATION = ('R05.1 sensitivity_to_shear/bulk == TB05 eq. 33 with dy1/dr the stencil value, at first/interior/last grid points; R05.2 stencil exact for quadratics (interior) and linear functions (ends); '
               'R05.3 calc_radial_tidal_heating(r) * 4 pi r^2 == (21/2) G M^2 R^5 n e^2 / a^6 * 4 pi G/((2l+1) R) * H_mu * Im(mu); R05.4 no in-place update of arguments; '
               'R05.5 energy theorem in differential form and surface value of the flux; R05.6 the flux is constant through liquid layers with real bulk modulus and continuous across every interface kind '
               '(so the theorem holds for layered bodies); R05.7 both kernels are non-negative sums of squares along solutions, hence Im k <= 0 for dissipative or elastic layers. R05.1, R05.2, R05.5 and R05.7 are decided on every arm of every data-dependent test in the kernels.')
EXPLANATION += ' R05.9 the compiled solver returns, for the tidal type, what the theorem presupposes: surface condition, interface continuity, assembled solution in the span of the integrated ones, k = y5(R) - 1 (whole-driver symbolic execution, dimensional and non-dimensionalised); R05.10 loop index widths.'
EXPLANATION += ' R05.11 the compiled rheology models return passive moduli (C07 R07.1 / R07.4 under this property: reciprocal of the published compliance on every arm; Im J a negative sum of positive products).'
EXPLANATION += ' R05.8 the array twin of calc_radial_tidal_heating: with array arguments (mutable cells; np.asarray hands the same array back) the returned profile is the scalar value and the sensitivity profile the caller passed is left intact.'


def _solid_domain(itp, st, v, fr):
    """Domain assumption of the kernels: the shear modulus of the analysed (solid) node is not zero and lies above any constant liquid cut-off its
    modulus |mu| is compared with.  Every other data-dependent test is explored on both arms (kernel_paths)."""
    if isinstance(v, X.Node) and v.op == 'cmp':
        a, b = v.args
        for (u, w, flip) in ((a, b, False), (b, a, True)):
            t = u
            while t.op == 'fn' and t.val in ('abs', 'abs2', 'sqrt') and len(t.args) == 1:
                t = t.args[0]
            if t is not u or v.val in ('==', '!='):
                if t.op == 'atom' and str(t.val[0]).startswith('mu') and concrete(w) is not None and concrete(w) >= 0:
                    op = v.val
                    if flip:
                        op = {'<': '>', '<=': '>=', '>': '<', '>=': '<=', '==': '==', '!=': '!='}[op]
                    return op in ('>', '>=', '!=')
    return None


def kernel_paths(it, m, f, args, max_paths=64):
    """Outcomes of f(*args) on every arm of its data-dependent branches: [(label, value)].  Measure-zero arms (x == 0) are outside the kernels domain and skipped."""
    from ..core.interp import PathExplorer
    old = it.hooks.get('fork')

    def one(fork):
        it.hooks['fork'] = fork
        try:
            return it.call(m, f, list(args))
        finally:
            if old is None:
                it.hooks.pop('fork', None)
            else:
                it.hooks['fork'] = old
    res = []
    for trace, val in PathExplorer(max_paths=max_paths).run(one):
        if any(PathExplorer.arm(v, o)[0] == 'equality' for (v, _, _, o) in trace):
            continue
        res.append((PathExplorer.label(trace), val))
    if not res:
        raise AnalysisError(f'{f.name}: no path with non-empty interior')
    return res


TECHNIQUE += '; the same theorem for the incompressible solid classes against the K -> infinity limit of the kernel (limit cross-checked on the extracted kernel at a pinned, very large K); whole-driver runs with the tidal type requested after another type'

EXPLANATION += ' R05.12 no integer-literal power (negative, or >= 3) is taken of a quantity that stays an integer when the arguments are integers (numba types arithmetic by its arguments: 0 for a negative power, silent int64 wrap-around for a large one).'
TECHNIQUE += '; syntactic type flow in numba-compiled kernels (integer-literal powers of integer-typed arguments)'

EXPLANATION += ' R05.13 the sensitivity kernels called for two grids with the same slice count and end points in one interpreter state return, for the second grid, what a fresh state returns.'

TECHNIQUE += '; two successive kernel calls in one interpreter state (module-level state persists) against a fresh state'

def run(chk):
    repo = Repo(chk.repo)
    # R05.12: integer arguments are values like any other; numba keeps them integers until they meet a float (an integer-literal power is taken first)
    from .common import int_power_lint
    int_power_lint(chk, repo, 'R05.12', ['TidalPy/tides/multilayer/heating.py', 'TidalPy/radial_solver/sensitivity.py'])

    it = Interp(repo, hooks={'branch': _solid_domain})      # `if r == 0.` is decided by the sign domain (r > 0 on the analysed region)
    m = repo.by_path('TidalPy/radial_solver/sensitivity.py')
    d = X.Decider(seed=chk.seed, k=3 if chk.tier == 'quick' else 12)

    def eq(rule, inst, got, ref, where):
        ok = d.equal(got, ref)
        chk.ob(rule, inst, ok, '' if ok else f'identity fails: {d.describe(got, ref)}', where, method='GF(p^2) PIT')

    for fname in ('sensitivity_to_shear', 'sensitivity_to_bulk'):
        f = m.defs.get(fname)
        if not isinstance(f, ast.FunctionDef):
            raise AnalysisError(f'{fname} vanished')
        where = m.where(f)
        for l in (2, 3, 4):
            nr = 4
            y = Arr('y', default=lambda k: X.atom(f'y{k[0] + 1}_{k[1]}', 'complex'), shape=(6, nr))
            rad = Arr('r', default=lambda k: X.atom(f'r{k}', 'pos'), shape=(nr,))
            mu = Arr('mu', default=lambda k: X.atom(f'mu{k}', 'complex'), shape=(nr,))
            K = Arr('K', default=lambda k: X.atom(f'K{k}', 'complex'), shape=(nr,))
            for lab, out in kernel_paths(it, m, f, [y, rad, mu, K, l]):
                for i in range(nr):
                    r = rad.get(i); y1, y2, y3, y4 = (y.get((c, i)) for c in range(4))
                    T = 2 * y1 - l * (l + 1) * y3
                    # derivative of y1 at node i by the reference stencil
                    if i == 0:
                        D = (y.get((0, 1)) - y1) / (rad.get(1) - r)
                    elif i == nr - 1:
                        D = (y1 - y.get((0, i - 1))) / (r - rad.get(i - 1))
                    else:
                        h0 = r - rad.get(i - 1); h1 = rad.get(i + 1) - r
                        D = -h1 / (h0 * (h0 + h1)) * y.get((0, i - 1)) + (h1 - h0) / (h0 * h1) * y1 + h0 / (h1 * (h0 + h1)) * y.get((0, i + 1))
                    Dc = X.fn('conj', D)
                    Kc = K.get(i); muc = mu.get(i)
                    first = r * r / X.fn('abs2', Kc + X.const(F(4, 3)) * muc) * X.fn('abs2', y2 - (Kc - X.const(F(2, 3)) * muc) / r * T)
                    if fname == 'sensitivity_to_shear':
                        ref = (X.const(F(4, 3)) * first - X.const(F(4, 3)) * r * X.fn('real', Dc * T) + X.const(F(1, 3)) * X.fn('abs2', T)
                               + l * (l + 1) * r * r * X.fn('abs2', y4) / X.fn('abs2', muc) + l * (l * l - 1) * (l + 2) * X.fn('abs2', y3))
                    else:
                        ref = first + 2 * r * X.fn('real', Dc * T) + X.fn('abs2', T)
                    pos = 'first' if i == 0 else ('last' if i == nr - 1 else 'interior')
                    eq('R05.1', f'{fname} l={l} node {i} ({pos}) == TB05 eq. 33{lab}', out.get(i), ref, where)
            chk.note_analysed('functions', f'sensitivity.{fname} l={l}')
        # R05.2: stencil exactness: feed y1(r) = c0 + c1 r + c2 r^2 and read the derivative back from the kernel.
        # H_K is affine in Re(conj(D) T): isolate D by differentiating the output w.r.t. the atom standing for y3 (T = 2y1 - l(l+1) y3).
    f = m.defs['sensitivity_to_bulk']
    where = m.where(f)
    c0 = X.atom('c0', 'real'); c1 = X.atom('c1', 'real'); c2 = X.atom('c2', 'real')
    nr = 4
    rad = Arr('r', default=lambda k: X.atom(f'r{k}', 'pos'), shape=(nr,))

    def ydef(k):
        if k[0] == 0:
            r = rad.get(k[1])
            return c0 + c1 * r + c2 * r * r
        if k[0] == 2:
            return X.atom(f'y3r_{k[1]}', 'real')
        return X.atom(f'y{k[0] + 1}_{k[1]}', 'complex')
    y = Arr('y', default=ydef, shape=(6, nr))
    mu = Arr('mu', default=lambda k: X.atom(f'mu{k}', 'complex'), shape=(nr,))
    K = Arr('K', default=lambda k: X.atom(f'K{k}', 'complex'), shape=(nr,))
    l = 2
    for lab, out in kernel_paths(it, m, f, [y, rad, mu, K, l]):
      for i in range(nr):
        r = rad.get(i)
        # with real y1, y3: out = first + 2 r D T + T^2, T = 2 y1 - 6 y3;  d out/d y3r_i restricted to the D-term: -12 r D + (terms without D)
        y3a = f'y3r_{i}'
        T = 2 * (c0 + c1 * r + c2 * r * r) - l * (l + 1) * X.atom(y3a, 'real')
        Kc = K.get(i); muc = mu.get(i)
        first = r * r / X.fn('abs2', Kc + X.const(F(4, 3)) * muc) * X.fn('abs2', y.get((1, i)) - (Kc - X.const(F(2, 3)) * muc) / r * T)
        Dterm = out.get(i) - first - T * T            # == 2 r D T
        Dval = Dterm / (2 * r * T)
        if i in (0, nr - 1):
            dz = X.Decider(seed=chk.seed + 3, k=3, pins={'c2': 0})
            ok = dz.equal(Dval, c1)
            chk.ob('R05.2', f'end-point difference at node {i} is exact for linear y1{lab}', ok, '' if ok else dz.describe(Dval, c1), where, method='pinned GF(p^2) PIT')
        else:
            eq('R05.2', f'three-point stencil at interior node {i} is exact for quadratic y1 on a non-uniform grid (sum w = 0, sum w d = 1, sum w d^2 = 0){lab}', Dval, c1 + 2 * c2 * r, where)

    # R05.3 coefficient closure
    mh = repo.by_path('TidalPy/tides/multilayer/heating.py')
    fh = mh.defs.get('calc_radial_tidal_heating')
    if not isinstance(fh, ast.FunctionDef):
        raise AnalysisError('calc_radial_tidal_heating vanished')
    Rw = X.atom('R_world', 'pos'); r = X.atom('r', 'pos')

    def idx(itp, base, i):
        if base is r and i == -1:
            return Rw
        raise AnalysisError('unexpected indexing of a scalar stand-in')

    skipped = []

    def stmt(itp, st, fr):
        if isinstance(st, ast.Assign) and isinstance(st.targets[0], ast.Subscript) and isinstance(st.targets[0].slice, ast.Compare):
            skipped.append(ast.unparse(st))
            return True
        return False
    it2 = Interp(repo, hooks={'index_scalar': idx, 'stmt': stmt})
    from .common import ArrayTwin
    twin = ArrayTwin(chk, 'R05.8', it2, d, prime=False)        # the harness recognises the radius stand-in by identity
    e = X.atom('e', 'pos'); n = X.atom('n', 'pos'); a = X.atom('a', 'pos'); M = X.atom('M', 'pos'); H = X.atom('H_mu'); muc = X.atom('mu', 'complex')
    G = X.atom('const_G', 'pos'); pi = X.atom('pi', 'pos')
    for l in (2, 3):
        val = it2.call(mh, fh, [e, n, a, M, r, H, muc, l])
        ref = X.const(F(21, 2)) * G * M ** 2 * Rw ** 5 * n * e ** 2 / a ** 6 * (4 * pi * G / ((2 * l + 1) * Rw)) * H * X.fn('imag', muc)
        eq('R05.3', f'l={l}: volumetric rate * 4 pi r^2 == (21/2) G M^2 R^5 n e^2/a^6 * [4 pi G/((2l+1)R)] H_mu Im(mu)', val * 4 * pi * r * r, ref, mh.where(fh))
    twin.finish(floor=1)
    chk.ob('R05.3', 'only negative values are clamped (mask assignment to 0)', len(skipped) >= 1 and all('< 0' in s and s.rstrip().endswith('= 0.0') for s in skipped),
           f'mask statements: {skipped}', mh.where(fh), method='AST pattern')
    energy_theorem(chk, repo, it, m)
    chk.floor('R05.5', 17); chk.floor('R05.6', 8); chk.floor('R05.7', 8)
    from .common import inplace_lint
    inplace_lint(chk, repo, 'R05.4', ['TidalPy/radial_solver/sensitivity.py', 'TidalPy/tides/multilayer/heating.py'])
    chk.floor('R05.4', 2)
    # ---- R05.9 what the theorem presupposes of the compiled solver ("for any successfully solved planet"): the returned tidal solution meets the tidal surface condition,
    #      is continuous across the interfaces in the components R05.6 uses, is in every layer a combination of that layer's integrated solutions (y3 of dynamic liquids by
    #      the elimination formula), and k is y5(R) - 1 of its surface row -- dimensional and non-dimensionalised; no loop of the solve counts slices in a type narrower than
    #      its bound.  Only the tidal type is looked at: loading and free solutions are no part of C05.
    from . import solver_whole as SW
    from .common import index_width_lint
    SW.guarded(chk, 'C05', lambda: SW.assembled(chk, repo, 'R05.9', 'R05.9', 'R05.9', rule_span='R05.9', types=('tidal',)))
    # the tidal solution requested together with, and after, another type (solve_for=('loading', 'tidal')): only the tidal solution is judged -- it must be the same solution
    SW.guarded(chk, 'C05', lambda: SW.assembled(chk, repo, 'R05.9', 'R05.9', 'R05.9', rule_span='R05.9', types=('loading', 'tidal'), judge=('tidal',),
                                                seq_filter=(lambda k_: len(k_) == 2 and k_ in (('solid', 'solid'), ('liquid', 'solid'), ('solid', 'liquid-static'))), tag=' [tidal requested after loading]'))
    SW.guarded(chk, 'C05', lambda: SW.liquid_y3(chk, repo, 'R05.9'))
    index_width_lint(chk, repo, 'R05.10', ['TidalPy/RadialSolver/**/*.pyx', 'TidalPy/utilities/dimensions/*.pyx'])
    chk.floor('R05.9', 20); chk.floor('R05.10', 30)
    # ---- R05.11 "Im k <= 0 whenever every layer is dissipative or elastic" is about the moduli the compiled rheology models hand to the solver: R05.7 shows Im k <= 0 for
    #      Im(mu), Im(K) >= 0; that the models return such moduli follows from their being the reciprocal of the published compliances (C07 R07.1: on every arm of every test
    #      they make on their arguments), whose imaginary part is a negative sum of products of positive quantities (C07 R07.4)
    from .common import RuleAlias
    from . import c07 as C7
    al7 = RuleAlias(chk, 'R05.11', lambda rule, inst: rule in ('R07.1', 'R07.4'))
    C7.run(al7)
    chk.floor('R05.11', 12)
    chk.floor('R05.1', 24); chk.floor('R05.2', 4); chk.floor('R05.3', 3)
    chk.assume('r > 0 at every node; moduli complex; the world radius is the last element of the radius array')


# ---------------------------------------------------------------------------------------------- R05.5 the energy theorem at formula level
def energy_theorem(chk, repo, it, m):
    """With  J(r) = r^2 Im[ conj(y1) y2 + l(l+1) conj(y3) y4 + conj(y5) y6 / (4 pi G) ]  (the energy flux through the sphere of radius r):
        (a) dJ/dr == Im(mu) H_mu + Im(K) H_K   for every solution of the solver's own equations (the repository's ODE classes and the legacy kernels), with
            H_mu, H_K the repository's sensitivity functions evaluated with the exact dy1/dr of those equations;
        (b) J(R) == -(2l+1) R / (4 pi G) Im k   under the repository's tidal surface condition and Love-number extraction;
        (c) J is continuous across solid/solid and solid/liquid interfaces (by C02's continuity conditions: y1, y2, y5, y6 continuous, y4 = 0 on the solid side).
    Integrating (a) from the centre (J -> 0 for regular solutions) to R and using (b), (c) gives the property's identity
        -Im k_l = 4 pi G / ((2l+1) R) * integral (H_mu Im mu + H_K Im K) dr .
    Everything is extracted from the repository; no transcription of TB05 or TS72 enters."""
    from . import solver_model as SM
    from . import legacy_solver as LS
    from ..oracles import ts72
    d = X.Decider(seed=chk.seed + 41, k=2 if chk.tier == 'quick' else 6)
    mo = repo.by_path('TidalPy/RadialSolver/derivatives/odes.pyx')
    fs = m.defs['sensitivity_to_shear']; fb = m.defs['sensitivity_to_bulk']

    def im_conj(u, v): return X.fn('imag', X.fn('conj', u) * v)
    systems = []
    for lv in ((2, 3) if chk.tier == 'quick' else (2, 3, 4, 7)):
        P = SM.params(l=lv)
        P['K'] = X.atom('Kc', 'complex')
        for static in (False, True):
            cname = SM.CLASSES[('solid', static, False)]
            dy, y, fnode = SM.extract_rhs(repo, mo, cname, P, 6)
            systems.append((f'{cname} (l={lv})', dy, y, P, lv, mo.where(fnode)))
            # legacy kernel of the same assumption set
            mk = repo.by_path('TidalPy/radial_solver/numerical/derivatives/' + LS.DERIV_FILES[(static, False)])
            fk = mk.defs.get(LS.FUNCS['solid'])
            if isinstance(fk, ast.FunctionDef):
                Pl = dict(P)
                Gl = X.atom('G_newton', 'pos'); Pl['fpG'] = 4 * X.lift(Interp(repo).global_name(mk, 'pi')) * Gl
                dyl, yl = LS.legacy_rhs(repo, Interp(repo), mk, fk, Pl, 6, Gl)
                systems.append((f'legacy {LS.DERIV_FILES[(static, False)][:-3]}.{LS.FUNCS["solid"]} (l={lv})', dyl, yl, Pl, lv, mk.where(fk)))
    for name, dy, y, P, lv, where in systems:
        r = P['r']; L = lv * (lv + 1)
        terms = [(0, 1, r * r), (2, 3, r * r * L), (4, 5, r * r / P['fpG'])]
        dJ = X.ZERO
        for (i, j, pref) in terms:
            dJ = dJ + X.diff(pref, 'r') * im_conj(y[i], y[j]) + pref * (im_conj(dy[i], y[j]) + im_conj(y[i], dy[j]))
        # repository's kernels on a three-node grid whose y1 is linear with slope D = (exact) dy1/dr, so that the stencil returns D (R05.2)
        h0 = X.atom('h_minus', 'pos'); h1 = X.atom('h_plus', 'pos')
        D = dy[0]
        rr = [r - h0, r, r + h1]
        rad = Arr('r', default=lambda k: rr[k], shape=(3,))

        def ydef(k, y=y, D=D, h0=h0, h1=h1):
            comp, node = k
            if comp == 0:
                return [y[0] - D * h0, y[0], y[0] + D * h1][node]
            return y[comp] if node == 1 else X.atom(f'other_y{comp + 1}_{node}', 'complex')
        ya = Arr('y', default=ydef, shape=(6, 3))
        mu_a = Arr('mu', default=lambda k: P['mu'] if k == 1 else X.atom(f'mu_other{k}', 'complex'), shape=(3,))
        K_a = Arr('K', default=lambda k: P['K'] if k == 1 else X.atom(f'K_other{k}', 'complex'), shape=(3,))
        def distinct(pairs):
            seen = {}
            for lab, o in pairs:
                seen.setdefault(id(o.get(1)), (lab, o.get(1)))
            return list(seen.values())
        Hmus = distinct(kernel_paths(it, m, fs, [ya, rad, mu_a, K_a, lv]))
        HKs = distinct(kernel_paths(it, m, fb, [ya, rad, mu_a, K_a, lv]))
        combos = [(a, HKs[0]) for a in Hmus] + [(Hmus[0], b) for b in HKs[1:]]
        ok = True
        for (la, Hmu), (lb, HK) in combos:
            rhs = X.fn('imag', P['mu']) * Hmu + X.fn('imag', P['K']) * HK
            if not d.equal(dJ, rhs):
                ok = False
                break
        chk.ob('R05.5', f'{name}: d/dr of the energy flux J == Im(mu) sensitivity_to_shear + Im(K) sensitivity_to_bulk for every solution of these equations', ok,
               '' if ok else 'the local dissipation kernels do not integrate to the flux of the implemented equations: ' + d.describe(dJ, rhs), where, key=f'R05.5|{name}', method='symbolic differentiation along the ODE + GF(p^2) PIT')
        # sign: along solutions both kernels are sums of squares with non-negative weights (certificate checked as an identity), so with (a), (b):
        # -Im k >= 0 whenever Im(mu) >= 0 and Im(K) >= 0 in every layer
        T = 2 * y[0] - L * y[2]
        cert_mu = X.const(F(1, 3)) * X.fn('abs2', 2 * r * D - T) + L * r * r * X.fn('abs2', y[3]) / X.fn('abs2', P['mu']) + lv * (lv * lv - 1) * (lv + 2) * X.fn('abs2', y[2])
        cert_K = X.fn('abs2', r * D + T)
        ok = all(d.equal(h, cert_mu) for _, h in Hmus) and all(d.equal(h, cert_K) for _, h in HKs)
        chk.ob('R05.7', f'{name}: along solutions sensitivity_to_shear == |2 r y1\' - T|^2 / 3 + l(l+1) r^2 |y4|^2 / |mu|^2 + (l-1) l (l+1) (l+2) |y3|^2 and sensitivity_to_bulk == |r y1\' + T|^2 '
               '(T = 2 y1 - l(l+1) y3): both non-negative, hence Im k <= 0 for dissipative or elastic layers', ok,
               '' if ok else 'a kernel is not the non-negative sum of squares along solutions of this class', where, key=f'R05.7|{name}', method='sum-of-squares certificate, GF(p^2) PIT')
    # (a') the incompressible solid classes.  The kernels are written with a finite bulk modulus; along solutions of the incompressible equations (r y1' = -T) the first
    #      bracket of sensitivity_to_shear tends to (4/3)|T|^2 as K -> infinity and the kernel to  3|T|^2 + l(l+1) r^2 |y4|^2/|mu|^2 + (l-1)l(l+1)(l+2)|y3|^2,  while
    #      sensitivity_to_bulk * Im K -> 0 for a real K.  The theorem for an effectively incompressible layer is therefore  dJ/dr == Im(mu) * (that limit)  along every solution
    #      of the incompressible class; that the limit formula IS the limit of the repository's kernel is cross-checked by evaluating the extracted kernel at K = 1e30.
    for lv in ((2, 3) if chk.tier == 'quick' else (2, 3, 4, 7)):
        for static in (False, True):
            cname = SM.CLASSES[('solid', static, True)]
            P = SM.params(l=lv)
            P['K'] = X.atom('Kbig', 'pos')
            dy, y, fnode = SM.extract_rhs(repo, mo, cname, P, 6)
            where = mo.where(fnode)
            r = P['r']; L = lv * (lv + 1)
            terms = [(0, 1, r * r), (2, 3, r * r * L), (4, 5, r * r / P['fpG'])]
            dJ = X.ZERO
            for (i, j, pref) in terms:
                dJ = dJ + X.diff(pref, 'r') * im_conj(y[i], y[j]) + pref * (im_conj(dy[i], y[j]) + im_conj(y[i], dy[j]))
            T = 2 * y[0] - L * y[2]
            H_lim = 3 * X.fn('abs2', T) + L * r * r * X.fn('abs2', y[3]) / X.fn('abs2', P['mu']) + lv * (lv * lv - 1) * (lv + 2) * X.fn('abs2', y[2])
            ok = d.equal(dJ, X.fn('imag', P['mu']) * H_lim)
            chk.ob('R05.5', f'{cname} (l={lv}): d/dr of the energy flux J == Im(mu) * [3|T|^2 + l(l+1) r^2 |y4|^2/|mu|^2 + (l-1)l(l+1)(l+2)|y3|^2] (the K -> infinity limit of sensitivity_to_shear) for every solution of these equations',
                   ok, '' if ok else 'the flux of the implemented incompressible equations is not the limit of the dissipation kernel: ' + d.describe(dJ, X.fn('imag', P['mu']) * H_lim), where,
                   key=f'R05.5|{cname} (l={lv})', method='symbolic differentiation along the ODE + GF(p^2) PIT')
            # cross-check of the limit against the repository's kernel (float evaluation of the extracted expression at a very large real K)
            h0 = X.atom('h_minus', 'pos'); h1 = X.atom('h_plus', 'pos'); D = dy[0]
            rr = [r - h0, r, r + h1]
            rad = Arr('r', default=lambda k: rr[k], shape=(3,))

            def ydef(k, y=y, D=D, h0=h0, h1=h1):
                comp, node = k
                if comp == 0:
                    return [y[0] - D * h0, y[0], y[0] + D * h1][node]
                return y[comp] if node == 1 else X.atom(f'other_y{comp + 1}_{node}', 'complex')
            ya = Arr('y', default=ydef, shape=(6, 3))
            mu_a = Arr('mu', default=lambda k: P['mu'] if k == 1 else X.atom(f'mu_other{k}', 'complex'), shape=(3,))
            K_a = Arr('K', default=lambda k: P['K'] if k == 1 else X.atom(f'K_other{k}', 'pos'), shape=(3,))
            dbig = X.Decider(seed=chk.seed + 43, k=2, pins={'Kbig': F(10) ** 30})
            okl = True; nl = 0
            for lab_, o_ in kernel_paths(it, m, fs, [ya, rad, mu_a, K_a, lv]):
                nl += 1
                if not dbig.close(o_.get(1), H_lim, rtol=1e-9):
                    okl = False
            chk.ob('R05.5', f'{cname} (l={lv}): the limit formula is the K -> infinity limit of the repository\'s sensitivity_to_shear along solutions of this class (evaluated at K = 1e30)', okl and nl > 0,
                   'the extracted kernel at K = 1e30 differs from the limit formula', m.where(fs), key=f'R05.5|limit|{cname} (l={lv})', method='float evaluation of the extracted kernel at a pinned, very large K')
    # (a") R05.13 the kernels depend on the grid they are given NOW: called for a grid A and then, in the same interpreter state, for a grid B with the same number of slices and
    #      the same end points but another interior spacing (a layered grid after a uniform one), they return for B what they return for B in a fresh state (a table of finite-
    #      difference weights remembered under a key that does not identify the grid shows up as a difference).
    from ..core.interp import Interp as _Interp
    r0_, r2_ = X.atom('r_first', 'pos'), X.atom('r_last', 'pos')
    ra_, rb_ = X.atom('r_mid_A', 'pos'), X.atom('r_mid_B', 'pos')
    def grid(mid):
        rr_ = [r0_, mid, r2_]
        return Arr('r', default=lambda k: rr_[k], shape=(3,))
    yy = Arr('y', default=lambda k: X.atom(f'yh{k[0]}_{k[1]}', 'complex'), shape=(6, 3))
    mu3 = Arr('mu', default=lambda k: X.atom(f'muh{k}', 'complex'), shape=(3,)); K3 = Arr('K', default=lambda k: X.atom(f'Kh{k}', 'complex'), shape=(3,))
    dh = X.Decider(seed=chk.seed + 47, k=2)
    for fker, nm_ in ((fs, 'sensitivity_to_shear'), (fb, 'sensitivity_to_bulk')):
        ith = _Interp(repo, hooks=dict(it.hooks))
        first = kernel_paths(ith, m, fker, [yy, grid(ra_), mu3, K3, 2])
        second = kernel_paths(ith, m, fker, [yy, grid(rb_), mu3, K3, 2])
        fresh = kernel_paths(_Interp(repo, hooks=dict(it.hooks)), m, fker, [yy, grid(rb_), mu3, K3, 2])
        ok = len(second) == len(fresh) and all(dh.equal(X.lift(a_[1].get(k_)), X.lift(b_[1].get(k_))) for a_, b_ in zip(second, fresh) for k_ in (0, 1, 2)
                                                   if not (isinstance(a_[1].get(k_), X.Node) and a_[1].get(k_) is b_[1].get(k_)))
        chk.ob('R05.13', f'{nm_} called for a grid and then for another grid with the same slice count and end points: the second result is what a fresh call returns for that grid', ok,
               '' if ok else 'the second call returns values that depend on the first grid (state kept between calls under a key that does not identify the grid)', m.where(fker), key=f'R05.13|{nm_}',
               method='two successive calls in one interpreter state (module-level state persists) + GF(p^2) PIT against a fresh state')
    chk.floor('R05.13', 2)
    # (b) surface value
    l = X.atom('l', 'pos'); R = X.atom('R_planet', 'pos'); fpG = X.atom('fourpiG', 'pos')
    y5 = X.atom('y5_surface', 'complex'); y1 = X.atom('y1_surface', 'complex'); y3 = X.atom('y3_surface', 'complex')
    ml = repo.by_path('TidalPy/RadialSolver/love.pyx')
    out = Arr('love')
    ys = [y1, X.ZERO, y3, X.ZERO, y5, (2 * l + 1) / R]      # tidal surface condition (C02 R02.2): y2 = y4 = 0, y6 = (2l+1)/R
    Interp(repo).call(ml, ml.defs['find_love_cf'], [out, Arr('s', default=lambda k: ys[k]), X.atom('g_surf', 'pos')])
    k_love = out.store[0]
    JR = R * R * (im_conj(ys[0], ys[1]) + l * (l + 1) * im_conj(ys[2], ys[3]) + im_conj(ys[4], ys[5]) / fpG)
    ok = d.equal(JR, -(2 * l + 1) * R / fpG * X.fn('imag', k_love))
    chk.ob('R05.5', 'surface value of the flux under the tidal surface condition: J(R) == -(2l+1) R / (4 pi G) * Im k, k as find_love_cf extracts it', ok, '' if ok else d.describe(JR, -(2 * l + 1) * R / fpG * X.fn('imag', k_love)),
           ml.where(ml.defs['find_love_cf']), key='R05.5|surface', method='GF(p^2) PIT')
    # (c) liquid layers and interfaces: with J written through the layer kind's own bilinear concomitant, J = Im W(conj y, y) / 2,
    #     J is constant through non-dissipative liquid layers (real bulk modulus) and continuous across every kind of interface under C02's conditions
    Pq = SM.params(); Pq['K'] = X.atom('K_liquid', 'pos')

    def flux(yv, names, Pp):
        Om = SM.symplectic_form(names, Pp)
        acc = X.ZERO
        for i in range(len(names)):
            for j in range(len(names)):
                acc = acc + X.fn('conj', yv[i]) * Om[i][j] * yv[j]
        return X.fn('imag', acc) / 2
    for (kind, static, incomp), cname in SM.CLASSES.items():
        if kind != 'liquid':
            continue
        names = ts72.LAYOUT[(kind, static)]; n = len(names)
        dy, y, fnode = SM.extract_rhs(repo, mo, cname, Pq, n)
        Om = SM.symplectic_form(names, Pq)
        acc = X.ZERO
        for i in range(n):
            for j in range(n):
                acc = acc + X.diff(Om[i][j], 'r') * X.fn('conj', y[i]) * y[j] + Om[i][j] * (X.fn('conj', dy[i]) * y[j] + X.fn('conj', y[i]) * dy[j])
        ok = d.is_zero(X.fn('imag', acc))
        chk.ob('R05.6', f'{cname}: the energy flux is constant through a liquid layer with real bulk modulus (no dissipation is attributed to liquids)', ok,
               '' if ok else 'dJ/dr does not vanish along solutions of this class', mo.where(fnode), key=f'R05.6|liquid|{cname}', method='symbolic differentiation along the ODE + GF(p^2) PIT')
    solid = ts72.LAYOUT[('solid', False)]; liqd = ts72.LAYOUT[('liquid', False)]; liqs = ts72.LAYOUT[('liquid', True)]
    g_i = X.atom('g_interface', 'pos'); rho_l = X.atom('rho_liquid', 'pos'); fq = Pq['fpG']
    Y = {nm: X.atom(f'Y_{nm}', 'complex') for nm in solid}
    Ys = dict(Y); Ys['y4'] = X.ZERO
    ok = d.equal(flux([Ys[k] for k in solid], solid, Pq), flux([Y[k] for k in liqd], liqd, Pq))
    chk.ob('R05.6', 'the energy flux is continuous across a solid / dynamic-liquid interface (y1, y2, y5, y6 continuous, zero shear on the solid side: C02)', ok, 'differs', 'TidalPy/RadialSolver/interfaces/',
           key='R05.6|iface|solid-liquid', method='GF(p^2) PIT')
    for other, lab in ((solid, 'solid'), (liqd, 'dynamic liquid')):
        Yo = dict(Y); Yo['y2'] = rho_l * (g_i * Y['y1'] - Y['y5']); Yo['y4'] = X.ZERO
        Yst = {'y5': Y['y5'], 'y7': Y['y6'] + fq / g_i * Yo['y2']}
        ok = d.equal(flux([Yo[k] for k in other], other, Pq), flux([Yst[k] for k in liqs], liqs, Pq))
        chk.ob('R05.6', f'the energy flux is continuous across a {lab} / static-liquid interface (y5 continuous, y7 = y6 + (4 pi G / g) y2, y2 = rho (g y1 - y5): C02)', ok, 'differs',
               'TidalPy/RadialSolver/interfaces/', key=f'R05.6|iface|{lab}-static', method='GF(p^2) PIT')
    # the flux of the solid layout is the J of (a)
    Pz = SM.params()
    yv = [X.atom(f'Y_{nm}', 'complex') for nm in solid]
    Jsolid = Pz['r'] ** 2 * (im_conj(yv[0], yv[1]) + Pz['l'] * (Pz['l'] + 1) * im_conj(yv[2], yv[3]) + im_conj(yv[4], yv[5]) / Pz['fpG'])
    ok = d.equal(flux(yv, solid, Pz), Jsolid)
    chk.ob('R05.6', 'the flux written through the bilinear concomitant, Im W(conj y, y) / 2, is the J of R05.5 in solid layers', ok, 'differs', mo.rel(), key='R05.6|same-J', method='GF(p^2) PIT')
    chk.assume('R05.5/R05.6: density, gravity and frequency real; liquid layers have a real bulk modulus; the solution is regular at the centre (J(0) = 0); the interface conditions are those C02 decides the code imposes')
