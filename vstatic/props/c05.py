"""C05 — local dissipation integrates to the global dissipation: formula-level necessary conditions."""
from __future__ import annotations
import ast
from fractions import Fraction as F
from ..core import expr as X
from ..core.interp import Interp, Arr
from ..core.report import AnalysisError
from ..frontend.pyfront import Repo

LEVEL = 'other'
TECHNIQUE = 'abstract interpretation of the sensitivity kernels and the radial-heating coefficient; comparison with the published kernel (Tobie et al. 2005 eq. 33) and with the global-rate coefficient by polynomial identity testing; exactness conditions of the finite-difference stencil'
LEVEL_TEXT = ('The energy theorem itself needs the numerical solution and is not decided. Decided: the three formula-level facts without which the shell sum cannot '
              'reproduce the global rate for generic interiors: the kernel is TB05 eq. 33, the radial derivative stencil is exact for quadratics (second-order on non-uniform grids), '
              'and the heating coefficient closes with the (21/2) global rate.')
LEVEL_NOTE = ('Trusted: front-end, interpreter, our transcription of TB05 eq. 33. Not decided: the integral identity, convergence with grid refinement, the sign of Im k (all need the integrated solution).')
EXPLANATION = ('R05.1 sensitivity_to_shear/bulk == TB05 eq. 33 with dy1/dr the stencil value, at first/interior/last grid points; R05.2 stencil exact for quadratics (interior) and linear functions (ends); '
               'R05.3 calc_radial_tidal_heating(r) * 4 pi r^2 == (21/2) G M^2 R^5 n e^2 / a^6 * 4 pi G/((2l+1) R) * H_mu * Im(mu).')


def run(chk):
    repo = Repo(chk.repo)

    def bh(itp, st, v, fr):
        return False      # `if r == 0.`: r > 0 on the analysed region
    it = Interp(repo, hooks={'branch': bh})
    m = repo.by_path('TidalPy/radial_solver/sensitivity.py')
    d = X.Decider(seed=chk.seed, k=3 if chk.tier == 'quick' else 12)

    def eq(rule, inst, got, ref, where):
        ok = d.equal(got, ref)
        chk.ob(rule, inst, ok, '' if ok else f'identity fails: {d.describe(got, ref)}', where, method='GF(p^2) PIT')

    for fname in ('sensitivity_to_shear', 'sensitivity_to_bulk'):
        f = m.defs.get(fname)
        if not isinstance(f, ast.FunctionDef):
            raise AnalysisError(f'{fname} vanished')
        where = m.where(f)
        for l in (2, 3, 4):
            nr = 4
            y = Arr('y', default=lambda k: X.atom(f'y{k[0] + 1}_{k[1]}', 'complex'), shape=(6, nr))
            rad = Arr('r', default=lambda k: X.atom(f'r{k}', 'pos'), shape=(nr,))
            mu = Arr('mu', default=lambda k: X.atom(f'mu{k}', 'complex'), shape=(nr,))
            K = Arr('K', default=lambda k: X.atom(f'K{k}', 'complex'), shape=(nr,))
            out = it.call(m, f, [y, rad, mu, K, l])
            for i in range(nr):
                r = rad.get(i); y1, y2, y3, y4 = (y.get((c, i)) for c in range(4))
                T = 2 * y1 - l * (l + 1) * y3
                # derivative of y1 at node i by the reference stencil
                if i == 0:
                    D = (y.get((0, 1)) - y1) / (rad.get(1) - r)
                elif i == nr - 1:
                    D = (y1 - y.get((0, i - 1))) / (r - rad.get(i - 1))
                else:
                    h0 = r - rad.get(i - 1); h1 = rad.get(i + 1) - r
                    D = -h1 / (h0 * (h0 + h1)) * y.get((0, i - 1)) + (h1 - h0) / (h0 * h1) * y1 + h0 / (h1 * (h0 + h1)) * y.get((0, i + 1))
                Dc = X.fn('conj', D)
                Kc = K.get(i); muc = mu.get(i)
                first = r * r / X.fn('abs2', Kc + X.const(F(4, 3)) * muc) * X.fn('abs2', y2 - (Kc - X.const(F(2, 3)) * muc) / r * T)
                if fname == 'sensitivity_to_shear':
                    ref = (X.const(F(4, 3)) * first - X.const(F(4, 3)) * r * X.fn('real', Dc * T) + X.const(F(1, 3)) * X.fn('abs2', T)
                           + l * (l + 1) * r * r * X.fn('abs2', y4) / X.fn('abs2', muc) + l * (l * l - 1) * (l + 2) * X.fn('abs2', y3))
                else:
                    ref = first + 2 * r * X.fn('real', Dc * T) + X.fn('abs2', T)
                pos = 'first' if i == 0 else ('last' if i == nr - 1 else 'interior')
                eq('R05.1', f'{fname} l={l} node {i} ({pos}) == TB05 eq. 33', out.get(i), ref, where)
            chk.note_analysed('functions', f'sensitivity.{fname} l={l}')
        # R05.2: stencil exactness: feed y1(r) = c0 + c1 r + c2 r^2 and read the derivative back from the kernel.
        # H_K is affine in Re(conj(D) T): isolate D by differentiating the output w.r.t. the atom standing for y3 (T = 2y1 - l(l+1) y3).
    f = m.defs['sensitivity_to_bulk']
    where = m.where(f)
    c0 = X.atom('c0', 'real'); c1 = X.atom('c1', 'real'); c2 = X.atom('c2', 'real')
    nr = 4
    rad = Arr('r', default=lambda k: X.atom(f'r{k}', 'pos'), shape=(nr,))

    def ydef(k):
        if k[0] == 0:
            r = rad.get(k[1])
            return c0 + c1 * r + c2 * r * r
        if k[0] == 2:
            return X.atom(f'y3r_{k[1]}', 'real')
        return X.atom(f'y{k[0] + 1}_{k[1]}', 'complex')
    y = Arr('y', default=ydef, shape=(6, nr))
    mu = Arr('mu', default=lambda k: X.atom(f'mu{k}', 'complex'), shape=(nr,))
    K = Arr('K', default=lambda k: X.atom(f'K{k}', 'complex'), shape=(nr,))
    l = 2
    out = it.call(m, f, [y, rad, mu, K, l])
    for i in range(nr):
        r = rad.get(i)
        # with real y1, y3: out = first + 2 r D T + T^2, T = 2 y1 - 6 y3;  d out/d y3r_i restricted to the D-term: -12 r D + (terms without D)
        y3a = f'y3r_{i}'
        T = 2 * (c0 + c1 * r + c2 * r * r) - l * (l + 1) * X.atom(y3a, 'real')
        Kc = K.get(i); muc = mu.get(i)
        first = r * r / X.fn('abs2', Kc + X.const(F(4, 3)) * muc) * X.fn('abs2', y.get((1, i)) - (Kc - X.const(F(2, 3)) * muc) / r * T)
        Dterm = out.get(i) - first - T * T            # == 2 r D T
        Dval = Dterm / (2 * r * T)
        if i in (0, nr - 1):
            dz = X.Decider(seed=chk.seed + 3, k=3, pins={'c2': 0})
            ok = dz.equal(Dval, c1)
            chk.ob('R05.2', f'end-point difference at node {i} is exact for linear y1', ok, '' if ok else dz.describe(Dval, c1), where, method='pinned GF(p^2) PIT')
        else:
            eq('R05.2', f'three-point stencil at interior node {i} is exact for quadratic y1 on a non-uniform grid (sum w = 0, sum w d = 1, sum w d^2 = 0)', Dval, c1 + 2 * c2 * r, where)

    # R05.3 coefficient closure
    mh = repo.by_path('TidalPy/tides/multilayer/heating.py')
    fh = mh.defs.get('calc_radial_tidal_heating')
    if not isinstance(fh, ast.FunctionDef):
        raise AnalysisError('calc_radial_tidal_heating vanished')
    Rw = X.atom('R_world', 'pos'); r = X.atom('r', 'pos')

    def idx(itp, base, i):
        if base is r and i == -1:
            return Rw
        raise AnalysisError('unexpected indexing of a scalar stand-in')

    skipped = []

    def stmt(itp, st, fr):
        if isinstance(st, ast.Assign) and isinstance(st.targets[0], ast.Subscript) and isinstance(st.targets[0].slice, ast.Compare):
            skipped.append(ast.unparse(st))
            return True
        return False
    it2 = Interp(repo, hooks={'index_scalar': idx, 'stmt': stmt})
    e = X.atom('e', 'pos'); n = X.atom('n', 'pos'); a = X.atom('a', 'pos'); M = X.atom('M', 'pos'); H = X.atom('H_mu'); muc = X.atom('mu', 'complex')
    G = X.atom('const_G', 'pos'); pi = X.atom('pi', 'pos')
    for l in (2, 3):
        val = it2.call(mh, fh, [e, n, a, M, r, H, muc, l])
        ref = X.const(F(21, 2)) * G * M ** 2 * Rw ** 5 * n * e ** 2 / a ** 6 * (4 * pi * G / ((2 * l + 1) * Rw)) * H * X.fn('imag', muc)
        eq('R05.3', f'l={l}: volumetric rate * 4 pi r^2 == (21/2) G M^2 R^5 n e^2/a^6 * [4 pi G/((2l+1)R)] H_mu Im(mu)', val * 4 * pi * r * r, ref, mh.where(fh))
    chk.ob('R05.3', 'only negative values are clamped (mask assignment to 0)', len(skipped) >= 1 and all('< 0' in s and s.rstrip().endswith('= 0.0') for s in skipped),
           f'mask statements: {skipped}', mh.where(fh), method='AST pattern')
    from .common import inplace_lint
    inplace_lint(chk, repo, 'R05.4', ['TidalPy/radial_solver/sensitivity.py', 'TidalPy/tides/multilayer/heating.py'])
    chk.floor('R05.4', 2)
    chk.floor('R05.1', 24); chk.floor('R05.2', 4); chk.floor('R05.3', 3)
    chk.assume('r > 0 at every node; moduli complex; the world radius is the last element of the radius array')
